(* C09Run.v — the reference semantics never fails on a program tree whose guards and limits
   evaluate: start_stmt / run_block / start_list / loop_test / deliver / deliver_block /
   deliver_list / api_call / run_script yield Ok or Fuel, never Exn k and never Unsupported
   (with [zd = true]: Exn ZeroDivisionError is tolerated, nothing else).
   Proof file (run-time half of C09). *)
From PFDL Require Import Base Syntax Expr Unfold RefSem RefBase RefClosure RefProgress C09UnfoldBase C09Expr.
From Coq Require Import Lia.

Section Run.
  Variable orc : oracle.
  Variable imm : nat -> bool.
  Variable zd : bool.

  (* the guard decides (to a boolean) at every point of the run *)
  Definition guard_evals (e : expr) : Prop := forall k, dec_ok zd (decide expected_ops orc e k).

  (* every guard of the tree decides and every limit reads as a whole number, at every point *)
  Inductive xsafe : xstmt -> Prop :=
  | xs_service : forall n a ins, xsafe (XService n a ins)
  | xs_call : forall t a ins body, Forall xsafe body -> xsafe (XCall t a ins body)
  | xs_par : forall bs, Forall xsafe bs -> xsafe (XParallel bs)
  | xs_cond : forall e p f, guard_evals e -> Forall xsafe p -> Forall xsafe f -> xsafe (XCond e p f)
  | xs_while : forall e b, guard_evals e -> Forall xsafe b -> xsafe (XWhile e b)
  | xs_count : forall v lim b, lim_ok orc lim -> Forall xsafe b -> xsafe (XCount v lim b)
  | xs_parloop : forall v lim c, lim_ok orc lim -> xsafe c -> xsafe (XParLoop v lim c).

  (* Ok or out of fuel; Exn ZeroDivisionError only when tolerated; no other exception; never
     outside the model *)
  Definition nofail {A} (r : res A) : Prop :=
    match r with
    | Ok _ | Fuel => True
    | Exn ZeroDivisionError => zd = true
    | _ => False
    end.

  Lemma nofail_bind : forall A B (m : M A) (k : A -> M B) g,
      nofail (m g) -> (forall a g', m g = Ok (a, g') -> nofail (k a g')) -> nofail (bind m k g).
  Proof.
    intros A B m k g Hm Hk. unfold bind. destruct (m g) as [[a g']| |ex|]; auto.
  Qed.

  Ltac nb := apply nofail_bind; [try exact I|].

  Lemma log_queries_ok : forall vs ctx g, exists g', log_queries vs ctx g = Ok (tt, g').
  Proof.
    induction vs as [|v vs IH]; intros ctx g; cbn [log_queries].
    - eexists; reflexivity.
    - unfold bind, log_entry, log_entries. destruct (IH ctx (g <| g_log := rev [EQuery v ctx] ++ g_log g |>)) as (g' & E).
      rewrite E. eexists; reflexivity.
  Qed.

  Lemma decide_m_nofail : forall e ctx g, guard_evals e -> nofail (decide_m orc e ctx g).
  Proof.
    intros e ctx g H. unfold decide_m. specialize (H (g_q g)).
    destruct (decide expected_ops orc e (g_q g)) as [[b k']| |ex|]; cbn [dec_ok] in H; try contradiction.
    - unfold bind. destruct (log_queries_ok (expr_vars e) ctx g) as (g' & ->). exact I.
    - exact H.
  Qed.

  Lemma read_limit_nofail : forall l ctx g, lim_ok orc l -> nofail (read_limit orc l ctx g).
  Proof.
    intros l ctx g H. destruct l as [n|v es]; cbn [read_limit]; [exact I|].
    destruct (H (g_q g)) as (x & q & Hx & Hr & Hq). rewrite Hx, Hr, Hq. exact I.
  Qed.

  Lemma mem_app_last : forall (l : list nat) id, mem id (l ++ [id]) = true.
  Proof.
    induction l as [|x l IH]; intro id; cbn [app mem].
    - rewrite Nat.eqb_refl. reflexivity.
    - rewrite IH. apply orb_true_r.
  Qed.

  Lemma service_nofail : forall n at_ ins ctx ie g,
      nofail ((id <- fresh_s ;;
               await id ;;;
               emit (mk SS n at_ id (Some ctx) (subst_params ie ins)) ;;;
               k <- tick_ss ;;
               if imm k
               then unawait id ;;; emit (mk SF n at_ id (Some ctx) (subst_params ie ins)) ;;; ret RDone
               else ret (RAwait id)) g).
  Proof.
    intros n at_ ins ctx ie g.
    nb. intros id g1 E1. unfold fresh_s in E1. inv E1.
    nb. intros u2 g2 E2. unfold await, set_awaited in E2. inv E2.
    nb. intros u3 g3 E3. apply emit_gen_facts in E3. cbn in E3.
    destruct E3 as (H1 & H2 & H3 & H4 & H5 & H6 & _).
    nb. intros k g4 E4. unfold tick_ss in E4. inv E4.
    destruct (imm (g_ss g3)); [|exact I].
    apply nofail_bind.
    - unfold unawait. cbn. rewrite H6. cbn.
      destruct (remove_first_mem (g_sid g) _ (mem_app_last (g_awaited g) (g_sid g))) as (l & Hl).
      match goal with |- nofail (match ?X with _ => _ end) => destruct X as [l'|] eqn:R end; [exact I|].
      unfold name in *. congruence.
    - intros u5 g5 E5. nb. intros u6 g6 E6. exact I.
  Qed.

  Definition is_loop (s : xstmt) : bool :=
    match s with XWhile _ _ | XCount _ _ _ => true | _ => false end.

  Lemma Forall_nth_error : forall A (Q : A -> Prop) l i x, Forall Q l -> nth_error l i = Some x -> Q x.
  Proof. intros A Q l i x H E. rewrite Forall_forall in H. apply H. eapply nth_error_In. exact E. Qed.

  Lemma Forall_map_pair : forall (ie : ienv) bs,
      Forall xsafe bs -> Forall (fun p : ienv * xstmt => xsafe (snd p)) (map (fun b => (ie, b)) bs).
  Proof. intros ie bs H. induction H; cbn [map]; constructor; auto. Qed.

  Lemma Forall_insts : forall ie v c n,
      xsafe c -> Forall (fun p : ienv * xstmt => xsafe (snd p)) (insts ie v c n).
  Proof.
    intros ie v c n H. unfold insts. apply Forall_forall. intros p Hp.
    apply in_map_iff in Hp. destruct Hp as (i & <- & _). exact H.
  Qed.

  Lemma start_nofail : forall f,
      (forall ctx ie s g, xsafe s -> nofail (start_stmt orc imm f ctx ie s g)) /\
      (forall ctx ie ss i g, Forall xsafe ss -> nofail (run_block orc imm f ctx ie ss i g)) /\
      (forall ctx l g, Forall (fun p => xsafe (snd p)) l -> nofail (start_list orc imm f ctx l g)) /\
      (forall ctx ie s k g, xsafe s -> is_loop s = true -> nofail (loop_test orc imm f ctx ie s k g)).
  Proof.
    induction f as [|f IH]; [split; [|split; [|split]]; intros; exact I|].
    destruct IH as (IHs & IHb & IHl & IHt).
    split; [|split; [|split]].
    - intros ctx ie s g Hs. cbn [start_stmt].
      destruct s as [n at_ ins|t at_ ins body|bs|e p fl|e b|v lim b|v lim c]; inversion Hs; subst.
      + apply service_nofail.
      + nb. intros id g1 E1. nb. intros u2 g2 E2.
        apply nofail_bind; [apply IHb; assumption|]. intros r g3 E3.
        destruct r as [[i sti]|]; [exact I|]. nb. intros u4 g4 E4. exact I.
      + apply nofail_bind; [apply IHl; apply Forall_map_pair; assumption|]. intros sts g1 E1.
        destruct (all_done sts); exact I.
      + apply nofail_bind; [apply decide_m_nofail; assumption|]. intros bb g1 E1.
        apply nofail_bind; [apply IHb; destruct bb; assumption|]. intros r g2 E2.
        destruct r as [[i sti]|]; exact I.
      + apply IHt; [exact Hs|reflexivity].
      + apply IHt; [exact Hs|reflexivity].
      + apply nofail_bind; [apply read_limit_nofail; assumption|]. intros n g1 E1.
        apply nofail_bind; [apply IHl; apply Forall_insts; assumption|]. intros sts g2 E2.
        destruct (all_done sts); exact I.
    - intros ctx ie ss i g Hss. cbn [run_block].
      destruct (nth_error ss i) as [s1|] eqn:En; [|exact I].
      apply nofail_bind; [apply IHs; eapply Forall_nth_error; eassumption|]. intros st g1 E1.
      destruct (is_done st); [apply IHb; assumption|exact I].
    - intros ctx l g Hl. cbn [start_list].
      destruct l as [|[ie b] r]; [exact I|]. inversion Hl; subst.
      apply nofail_bind; [apply IHs; assumption|]. intros st g1 E1.
      apply nofail_bind; [apply IHl; assumption|]. intros sts g2 E2. exact I.
    - intros ctx ie s k g Hs Hloop. cbn [loop_test].
      destruct s as [n at_ ins|t at_ ins body|bs|e p fl|e b|v lim b|v lim c]; try discriminate;
        inversion Hs; subst.
      + apply nofail_bind; [apply decide_m_nofail; assumption|]. intros bb g1 E1.
        destruct bb; [|exact I].
        apply nofail_bind; [apply IHb; assumption|]. intros r g2 E2.
        destruct r as [[i sti]|]; [exact I|]. apply IHt; [exact Hs|reflexivity].
      + apply nofail_bind; [apply read_limit_nofail; assumption|]. intros n g1 E1.
        destruct (Z.of_nat k <? n)%Z; [|exact I].
        apply nofail_bind; [apply IHb; assumption|]. intros r g2 E2.
        destruct r as [[i sti]|]; [exact I|]. apply IHt; [exact Hs|reflexivity].
  Qed.

  Lemma deliver_nofail : forall f,
      (forall ctx ie s st id g, xsafe s -> nofail (deliver orc imm f ctx ie s st id g)) /\
      (forall ctx ie ss i sti id g, Forall xsafe ss -> nofail (deliver_block orc imm f ctx ie ss i sti id g)) /\
      (forall ctx l sts id g, Forall (fun p => xsafe (snd p)) l -> nofail (deliver_list orc imm f ctx l sts id g)).
  Proof.
    induction f as [|f IH]; [split; [|split]; intros; exact I|].
    destruct IH as (IHd & IHb & IHl).
    destruct (start_nofail f) as (Ss & Sb & Sl & St).
    split; [|split].
    - intros ctx ie s st id g Hs. cbn [deliver].
      destruct s as [n at_ ins|t at_ ins body|bs|e p fl|e b|v lim b|v lim c];
        destruct st as [|id'|cid i sti|sts|bb i sti|k i sti|sts]; try exact I; inversion Hs; subst.
      + destruct (Nat.eqb id id'); [|exact I]. nb. intros u g1 E1. exact I.
      + apply nofail_bind; [apply IHb; assumption|]. intros r g1 E1.
        destruct r as [[[j st']|]|]; exact I.
      + apply nofail_bind; [apply IHl; apply Forall_map_pair; assumption|]. intros r g1 E1.
        destruct r as [sts'|]; [destruct (all_done sts')|]; exact I.
      + apply nofail_bind; [apply IHb; destruct bb; assumption|]. intros r g1 E1.
        destruct r as [[[j st']|]|]; exact I.
      + apply nofail_bind; [apply IHb; assumption|]. intros r g1 E1.
        destruct r as [[[j st']|]|]; try exact I.
        apply nofail_bind; [apply St; [exact Hs|reflexivity]|]. intros st' g2 E2. exact I.
      + apply nofail_bind; [apply IHb; assumption|]. intros r g1 E1.
        destruct r as [[[j st']|]|]; try exact I.
        apply nofail_bind; [apply St; [exact Hs|reflexivity]|]. intros st' g2 E2. exact I.
      + apply nofail_bind; [apply IHl; apply Forall_insts; assumption|]. intros r g1 E1.
        destruct r as [sts'|]; [destruct (all_done sts')|]; exact I.
    - intros ctx ie ss i sti id g Hss. cbn [deliver_block].
      destruct (nth_error ss i) as [s1|] eqn:En; [|exact I].
      apply nofail_bind; [apply IHd; eapply Forall_nth_error; eassumption|]. intros r g1 E1.
      destruct r as [st'|]; [|exact I].
      destruct (is_done st'); [|exact I].
      apply nofail_bind; [apply Sb; assumption|]. intros r' g2 E2. exact I.
    - intros ctx l sts id g Hl. cbn [deliver_list].
      destruct l as [|[ie b] br]; [exact I|]. destruct sts as [|st sr]; [exact I|]. inversion Hl; subst.
      apply nofail_bind; [apply IHd; assumption|]. intros r g1 E1.
      destruct r as [st'|]; [exact I|].
      apply nofail_bind; [apply IHl; assumption|]. intros r' g2 E2.
      destruct r' as [sr'|]; exact I.
  Qed.

  (* ---- the API layer ---- *)

  (* the observers attached after a call *)
  Definition obs_after (obs : list nat) (c : apicall) : option (list nat) :=
    match c with
    | AAttach o => Some (obs ++ [o])
    | ADetach o => remove_first (Nat.eqb o) obs
    | _ => Some obs
    end.

  (* every detach in the script removes an observer that is attached at that moment
     (Python: list.remove raises ValueError otherwise — a usage error of the caller, not an
     internal error of the scheduler) *)
  Fixpoint detaches_attached (obs : list nat) (cs : list apicall) : bool :=
    match cs with
    | [] => true
    | c :: r => match obs_after obs c with
                | Some obs' => detaches_attached obs' r
                | None => false
                end
    end.

  Section Api.
    Variable body : list xstmt.
    Hypothesis Hbody : Forall xsafe body.

    Definition Robs (g g' : G) : Prop := g_obs g' = g_obs g.

    Lemma Robs_start : forall f ctx ie ss i g r g',
        run_block orc imm f ctx ie ss i g = Ok (r, g') -> Robs g g'.
    Proof.
      intros f ctx ie ss i g r g' H. unfold Robs.
      pose proof (proj1 (proj2 (start_eff orc imm f)) _ _ _ _ _ _ _ H) as D. destruct D. assumption.
    Qed.

    Lemma Robs_deliver : forall f ctx ie ss i sti id g r g',
        deliver_block orc imm f ctx ie ss i sti id g = Ok (r, g') -> Robs g g'.
    Proof.
      intros f ctx ie ss i sti id g r g' H.
      pose proof (proj1 (proj2 (deliver_eff orc imm f)) _ _ _ _ _ _ _ _ _ H) as D.
      destruct r as [a|]; cbn [dres] in D.
      - destruct D. assumption.
      - subst. reflexivity.
    Qed.

    Lemma api_obs : forall f s c b s',
        api_call orc imm f body s c = Ok (b, s') -> obs_after (g_obs (sc_g s)) c = Some (g_obs (sc_g s')).
    Proof.
      intros f s c b s' H. destruct c as [|id| |k l|o|o]; cbn [api_call obs_after] in *.
      - destruct (sc_root s) as [r|]; [inv H; reflexivity|].
        match type of H with match ?X with _ => _ end = _ => destruct X as [[st g']| | |] eqn:E end;
          try discriminate. inv H. cbn [sc_g].
        mstep as u1 g1 E1. unfold set_running in E1. inv E1.
        mstep as id g2 E2. unfold fresh_t in E2. inv E2.
        mstep as u3 g3 E3. apply emit_gen_facts in E3. destruct E3 as (_ & O3 & _).
        mstep as r g4 E4. apply Robs_start in E4. unfold Robs in E4.
        destruct r as [[i sti]|].
        + mstep. rewrite E4, O3. reflexivity.
        + mstep as u5 g5 E5. unfold finish_root in E5. mstep as u6 g6 E6.
          apply emit_gen_facts in E6. destruct E6 as (_ & O6 & _).
          unfold set_running in E5. inv E5. mstep. cbn. rewrite O6, E4, O3. reflexivity.
      - destruct (mem id (g_awaited (clear_log (sc_g s)))); [|inv H; reflexivity].
        destruct (sc_root s) as [[|id'|cid i sti|sts|bb i sti|k i sti|sts]|]; try discriminate.
        match type of H with match ?X with _ => _ end = _ => destruct X as [[st g']| | |] eqn:E end;
          try discriminate. inv H. cbn [sc_g].
        mstep as u1 g1 E1. unfold unawait in E1.
        destruct (remove_first (Nat.eqb id) (g_awaited (clear_log (sc_g s)))) as [aw1|]; [|discriminate].
        unfold set_awaited in E1. inv E1.
        mstep as r g2 E2. apply Robs_deliver in E2. unfold Robs in E2.
        destruct r as [[[j st']|]|]; [| |discriminate].
        + mstep. rewrite E2. reflexivity.
        + mstep as u5 g5 E5. unfold finish_root in E5. mstep as u6 g6 E6.
          apply emit_gen_facts in E6. destruct E6 as (_ & O6 & _).
          unfold set_running in E5. inv E5. mstep. cbn. rewrite O6, E2. reflexivity.
      - inv H. reflexivity.
      - destruct (existsb _ (g_ls (clear_log (sc_g s)))); inv H; reflexivity.
      - inv H. reflexivity.
      - change (g_obs (clear_log (sc_g s))) with (g_obs (sc_g s)) in H.
        destruct (remove_first (Nat.eqb o) (g_obs (sc_g s))) as [l|]; [|discriminate]. inv H. reflexivity.
    Qed.

    Lemma api_nofail : forall f s c,
        reach orc imm body s -> obs_after (g_obs (sc_g s)) c <> None ->
        nofail (api_call orc imm f body s c).
    Proof.
      intros f s c Hr Hobs. destruct c as [|id| |k l|o|o].
      - cbn [api_call]. destruct (sc_root s) as [r|]; [exact I|].
        match goal with |- nofail (match ?X with _ => _ end) =>
                        assert (N : nofail X); [|destruct X as [[? ?]| |?|]; exact N] end.
        nb. intros u1 g1 E1. nb. intros id g2 E2. nb. intros u3 g3 E3.
        apply nofail_bind; [apply (proj1 (proj2 (start_nofail f))); exact Hbody|]. intros r g4 E4.
        destruct r as [[i sti]|]; [exact I|]. nb. intros u5 g5 E5. exact I.
      - destruct (mem id (g_awaited (sc_g s))) eqn:Hm.
        + destruct (finish_failure_is_deep orc imm body f s id Hr Hm) as (cid & i & sti & aw1 & E & R & HD).
          cbv zeta in HD.
          match type of HD with match ?X with _ => _ end =>
            assert (N : nofail X) by (apply (proj1 (proj2 (deliver_nofail f))); exact Hbody);
            destruct X as [[r g2]| |ex|]
          end.
          * destruct HD as [_ (s' & ->)]. exact I.
          * rewrite HD. exact I.
          * rewrite HD. exact N.
          * rewrite HD. exact N.
        + cbn [api_call]. change (g_awaited (clear_log (sc_g s))) with (g_awaited (sc_g s)). rewrite Hm. exact I.
      - exact I.
      - cbn [api_call]. destruct (existsb _ (g_ls (clear_log (sc_g s)))); exact I.
      - exact I.
      - cbn [api_call obs_after] in *. change (g_obs (clear_log (sc_g s))) with (g_obs (sc_g s)).
        destruct (remove_first (Nat.eqb o) (g_obs (sc_g s))) as [l|]; [exact I|]. contradiction.
    Qed.

    Theorem run_script_nofail : forall f cs s,
        reach orc imm body s -> detaches_attached (g_obs (sc_g s)) cs = true ->
        nofail (run_script orc imm f body s cs).
    Proof.
      intros f cs. induction cs as [|c cs IH]; intros s Hr Hd; cbn [run_script]; [exact I|].
      cbn [detaches_attached] in Hd.
      destruct (obs_after (g_obs (sc_g s)) c) as [obs'|] eqn:Eo; [|discriminate].
      assert (N : nofail (api_call orc imm f body s c)) by (apply api_nofail; [exact Hr|congruence]).
      destruct (api_call orc imm f body s c) as [[b s']| |ex|] eqn:E; cbn [rbind]; try exact N.
      pose proof (api_obs _ _ _ _ _ E) as Ho. rewrite Eo in Ho. inversion Ho; subst obs'.
      assert (Hr' : reach orc imm body s') by (eapply reach_step; eassumption).
      specialize (IH s' Hr' Hd).
      destruct (run_script orc imm f body s' cs) as [t| |ex|]; cbn [rbind]; exact IH || exact I.
    Qed.

    Corollary run_script_nofail0 : forall f cs,
        detaches_attached [] cs = true -> nofail (run_script orc imm f body sched0 cs).
    Proof. intros f cs H. apply run_script_nofail; [apply reach_init|exact H]. Qed.
  End Api.
End Run.
