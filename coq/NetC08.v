(* NetC08.v — the acceptance gate of the FAITHFUL model (NetModel.v, a transliteration of
   Scheduler.fire_event / start and PetriNetLogic.fire_event): an event that is not awaited
   is reported False and the scheduler state is left exactly as it was; registration is
   refused exactly for an already registered function; a repeated start changes nothing.
   These are statements about the mechanism the implementation uses (membership test in
   awaited_events with Event.__eq__), for every net, marking and scheduler state.  Proof file. *)
From PFDL Require Import NetModel NetRun.

Section Gate.
  Variable tasks : list task.
  Variable env : envcfg.

  (* Scheduler.fire_event: not awaited -> False, nothing changes (any fuel > 0) *)
  Theorem net_reject_noop : forall f ev s,
      existsb (event_eqb ev) (ns_awaited s) = false ->
      sched_fire_event tasks env (S f) ev s = Ok (false, s).
  Proof. intros f ev s H. cbn [sched_fire_event]. unfold nbind, nget. rewrite H. reflexivity. Qed.

  (* a junk event (unknown / malformed / internal type never awaited) equals no awaited event *)
  Lemma junk_never_awaited : forall l, existsb (event_eqb EvJunk) l = false.
  Proof. induction l as [|e l IH]; [reflexivity|]. cbn. destruct e; cbn; exact IH. Qed.

  Theorem net_junk_noop : forall f s, sched_fire_event tasks env (S f) EvJunk s = Ok (false, s).
  Proof. intros. apply net_reject_noop. apply junk_never_awaited. Qed.

  Definition cleared (s : NS) : NS := s <| ns_log := [] |>.

  Theorem net_api_reject_finish : forall f s id,
      existsb (event_eqb (EvFinish (ITest id))) (ns_awaited s) = false ->
      net_api_call tasks env (S f) s (AFinish id) = Ok (false, cleared s).
  Proof. intros f s id H. unfold net_api_call. apply net_reject_noop. exact H. Qed.

  Theorem net_api_reject_junk : forall f s, net_api_call tasks env (S f) s AJunk = Ok (false, cleared s).
  Proof. intros f s. unfold net_api_call. apply net_junk_noop. Qed.

  (* Scheduler.start: once the start event is no longer awaited, start() returns True and
     changes nothing (it never restarts, duplicates or un-finishes an order) *)
  Theorem net_api_start_again : forall f s,
      existsb (event_eqb EvStart) (ns_awaited s) = false ->
      net_api_call tasks env f s AStart = Ok (true, cleared s).
  Proof. intros f s H. unfold net_api_call. cbn [ns_awaited set cleared]. 
         change (ns_awaited (s <| ns_log := [] |>)) with (ns_awaited s). rewrite H. reflexivity. Qed.

  (* register_callback_*: refused iff already registered, list unchanged in that case *)
  Theorem net_api_register : forall f s k l,
      net_api_call tasks env f s (ARegister k l) =
      if existsb (fun p => nkind_eqb (fst p) k && Nat.eqb (snd p) l) (ns_ls s)
      then Ok (false, cleared s)
      else Ok (true, cleared s <| ns_ls := ns_ls s ++ [(k, l)] |>).
  Proof. intros. reflexivity. Qed.

  (* the rejected calls leave the observable record equal to the previous one, with an
     empty log *)
  Theorem net_reject_observation : forall f s id,
      existsb (event_eqb (EvFinish (ITest id))) (ns_awaited s) = false ->
      exists s', net_api_call tasks env (S f) s (AFinish id) = Ok (false, s')
                 /\ cr_log (net_observe false s') = []
                 /\ cr_running (net_observe false s') = ns_running s
                 /\ cr_awaited (net_observe false s') = cr_awaited (net_observe false s)
                 /\ cr_final (net_observe false s') = cr_final (net_observe false s).
  Proof.
    intros f s id H. exists (cleared s). split; [apply net_api_reject_finish; exact H|].
    repeat split.
  Qed.
End Gate.

Lemma sched_fire_event_S : forall tasks env f ev s,
    sched_fire_event tasks env (S f) ev s =
    if existsb (event_eqb ev) (ns_awaited s)
    then match remove_first (event_eqb ev) (ns_awaited s) with
         | None => Exn ValueError
         | Some l =>
           match logic_fire_event tasks env f ev (s <| ns_awaited := l |>) with
           | Ok (true, s') => Ok (true, s')
           | Ok (false, s') => Ok (false, s' <| ns_awaited := ns_awaited s' ++ [ev] |>)
           | Fuel => Fuel | Exn k => Exn k | Unsupported => Unsupported
           end
         end
    else Ok (false, s).
Proof.
  intros tasks env f ev s.
  change (sched_fire_event tasks env (S f) ev s) with
      ((nbind nget (fun s0 =>
         if existsb (event_eqb ev) (ns_awaited s0)
         then match remove_first (event_eqb ev) (ns_awaited s0) with
              | None => nfail (Exn ValueError)
              | Some l =>
                nbind (nmod (fun s1 => s1 <| ns_awaited := l |>)) (fun _ =>
                nbind (logic_fire_event tasks env f ev) (fun r =>
                if r then nret true
                else nbind (nmod (fun s1 => s1 <| ns_awaited := ns_awaited s1 ++ [ev] |>)) (fun _ => nret false)))
              end
         else nret false)) s).
  unfold nbind, nget, nmod, nret, nfail. cbn [rbind].
  destruct (existsb (event_eqb ev) (ns_awaited s)); [|reflexivity].
  destruct (remove_first (event_eqb ev) (ns_awaited s)) as [l|]; [|reflexivity].
  destruct (logic_fire_event tasks env f ev (s <| ns_awaited := l |>)) as [[[|] s']| | |]; reflexivity.
Qed.

(* an awaited event stops being awaited BEFORE the net is evaluated (so that a duplicate sent
   from inside a callback during that evaluation is rejected by [net_reject_noop]) *)
Theorem net_accept_unawaits_first : forall tasks env f ev s l,
    existsb (event_eqb ev) (ns_awaited s) = true ->
    remove_first (event_eqb ev) (ns_awaited s) = Some l ->
    sched_fire_event tasks env (S f) ev s =
    match logic_fire_event tasks env f ev (s <| ns_awaited := l |>) with
    | Ok (true, s') => Ok (true, s')
    | Ok (false, s') => Ok (false, s' <| ns_awaited := ns_awaited s' ++ [ev] |>)
    | Fuel => Fuel | Exn k => Exn k | Unsupported => Unsupported
    end.
Proof. intros tasks env f ev s l H R. rewrite sched_fire_event_S, H, R. reflexivity. Qed.
