(* RefBase.v — basic facts about the reference semantics: what each primitive and each
   of the seven mutually recursive functions does to the scheduler bookkeeping
   (frame conditions, awaited services, notification counts).  Proof file. *)
From PFDL Require Import RefSem.
From Coq Require Import Lia.

(* ---- tactics for unfolding monadic code ---- *)
Ltac inv H := inversion H; subst; clear H.

Ltac mstep :=
  match goal with
  | H : bind ?m ?k ?g = Ok _ |- _ =>
    let E := fresh "E" in
    unfold bind at 1 in H; destruct (m g) as [[? ?]| | |] eqn:E; [|discriminate H ..]
  | H : ret ?a ?g = Ok (?x, ?y) |- _ =>
    let H1 := fresh in let H2 := fresh in
    unfold ret in H; injection H as H1 H2; try subst x; try subst y
  | H : fail_fuel _ = Ok _ |- _ => discriminate H
  | H : lift Unsupported _ = Ok _ |- _ => discriminate H
  | H : Ok _ = Ok _ |- _ => inv H
  end.

Tactic Notation "mstep" "as" simple_intropattern(a) ident(g1) ident(E) :=
  match goal with
  | H : bind ?m ?k ?g = Ok _ |- _ =>
    unfold bind at 1 in H; destruct (m g) as [[a g1]| | |] eqn:E; [|discriminate H ..]
  end.

(* ---- identifiers of the services a state is waiting for ---- *)
Fixpoint svc_ids (s : rst) : list nat :=
  match s with
  | RDone => []
  | RAwait id => [id]
  | RCall _ _ st | RCond _ _ st | RLoop _ _ st => svc_ids st
  | RPar sts | RParLoop sts => flat_map svc_ids sts
  end.

Definition ids_opt (r : option (nat * rst)) : list nat :=
  match r with None => [] | Some (_, st) => svc_ids st end.
Definition ids_list (l : list rst) : list nat := flat_map svc_ids l.

(* ---- counting what function 0 was told ---- *)
Definition is0 (k : nkind) (e : entry) : bool :=
  match e with
  | ENotif O n _ => nkind_eqb (n_kind n) k
  | _ => false
  end.
Definition nK (k : nkind) (g : G) : nat := List.length (filter (is0 k) (g_log g)).

Definition run_flag (e : entry) : bool :=
  match e with ENotif _ _ r => r | _ => true end.
Definition all_run (g : G) : bool := forallb run_flag (g_log g).

(* notifications about the production task itself, as function 0 was told *)
Definition prodn (n : notif) : bool :=
  Nat.eqb (n_name n) production_task && match n_ctx n with None => true | Some _ => false end.
Definition isP (k : nkind) (e : entry) : bool :=
  match e with
  | ENotif O n _ => nkind_eqb (n_kind n) k && prodn n
  | _ => false
  end.
Definition nP (k : nkind) (g : G) : nat := List.length (filter (isP k) (g_log g)).

Arguments nK : simpl never.
Arguments all_run : simpl never.
Arguments nP : simpl never.
Arguments listeners_of : simpl never.

(* function 0 is registered exactly once for service started / finished *)
Definition lst0 (ls : list (nkind * nat)) : Prop :=
  count_occ Nat.eq_dec (listeners_of SS ls) 0 = 1 /\ count_occ Nat.eq_dec (listeners_of SF ls) 0 = 1.

(* ---- the effect of a computation that leaves [ids] newly awaited ---- *)
Record Eff (g g' : G) (ids : list nat) : Prop := {
  e_ls : g_ls g' = g_ls g;
  e_obs : g_obs g' = g_obs g;
  e_run : g_running g' = g_running g;
  e_sid : g_sid g <= g_sid g';
  e_tid : g_tid g <= g_tid g';
  e_aw : Forall (fun x => x < g_sid g) (g_awaited g) ->
         g_awaited g' = g_awaited g ++ ids /\ Forall (fun x => g_sid g <= x < g_sid g') ids;
  e_cnt : lst0 (g_ls g) -> nK SS g' + nK SF g = nK SS g + nK SF g' + List.length ids;
  e_allrun : g_running g = true -> all_run g = true -> all_run g' = true;
  e_prod : forall k, nP k g' = nP k g
}.

Lemma Eff_refl : forall g, Eff g g [].
Proof.
  intro g. constructor; auto; intros; try (rewrite app_nil_r; split; auto); try (simpl; lia).
Qed.

Lemma Forall_lt_le : forall (l : list nat) a b, a <= b -> Forall (fun x => x < a) l -> Forall (fun x => x < b) l.
Proof. intros l a b Hab H. eapply Forall_impl; [|exact H]. cbn. intros; lia. Qed.

Lemma Eff_trans : forall g g1 g2 i1 i2, Eff g g1 i1 -> Eff g1 g2 i2 -> Eff g g2 (i1 ++ i2).
Proof.
  intros g g1 g2 i1 i2 [] []. constructor; try congruence; try lia.
  - intros Hlt. destruct (e_aw0 Hlt) as [Ha Hr].
    assert (Hlt1 : Forall (fun x => x < g_sid g1) (g_awaited g1)).
    { rewrite Ha. apply Forall_app. split.
      - eapply Forall_lt_le; eauto.
      - eapply Forall_impl; [|exact Hr]. cbn; intros; lia. }
    destruct (e_aw1 Hlt1) as [Hb Hs]. split.
    + rewrite Hb, Ha, app_assoc. reflexivity.
    + apply Forall_app. split; (eapply Forall_impl; [|eassumption]); cbn; intros; lia.
  - intros Hl. assert (Hl1 : lst0 (g_ls g1)) by (rewrite e_ls0; exact Hl).
    specialize (e_cnt0 Hl). specialize (e_cnt1 Hl1). rewrite app_length. lia.
  - intros Hr Ha. apply e_allrun1; [congruence|]. apply e_allrun0; assumption.
Qed.

(* primitives that touch neither awaited nor the log *)
Lemma Eff_pure : forall g g',
    g_ls g' = g_ls g -> g_obs g' = g_obs g -> g_running g' = g_running g ->
    g_sid g <= g_sid g' -> g_tid g <= g_tid g' -> g_awaited g' = g_awaited g -> g_log g' = g_log g ->
    Eff g g' [].
Proof.
  intros g g' H1 H2 H3 H4 H5 H6 H7. constructor; auto.
  - intros. rewrite app_nil_r. split; auto.
  - intros. unfold nK. rewrite H7. simpl. lia.
  - unfold all_run. rewrite H7. auto.
  - intro k. unfold nP. rewrite H7. reflexivity.
Qed.

Lemma fresh_t_eff : forall g id g', fresh_t g = Ok (id, g') -> Eff g g' [] /\ id = g_tid g /\ g_tid g' = S id.
Proof. unfold fresh_t. intros g id g' H. inv H. split; [apply Eff_pure; cbn; auto|cbn; auto]. Qed.

Lemma tick_ss_eff : forall g k g', tick_ss g = Ok (k, g') -> Eff g g' [].
Proof. unfold tick_ss. intros g k g' H. inv H. apply Eff_pure; cbn; auto. Qed.

Lemma set_q_eff : forall k g u g', set_q k g = Ok (u, g') -> Eff g g' [].
Proof. unfold set_q. intros k g u g' H. inv H. apply Eff_pure; cbn; auto. Qed.

(* logging *)
Lemma filter_rev_length : forall A (p : A -> bool) l, List.length (filter p (rev l)) = List.length (filter p l).
Proof.
  intros A p l. induction l as [|x l IH]; cbn; auto.
  rewrite filter_app, app_length, IH. cbn. destruct (p x); cbn; lia.
Qed.

Lemma forallb_rev : forall A (p : A -> bool) l, forallb p (rev l) = forallb p l.
Proof.
  intros A p l. induction l as [|x l IH]; cbn; auto.
  rewrite forallb_app, IH. cbn. rewrite andb_true_r. apply andb_comm.
Qed.

Lemma log_entries_eff : forall es g u g',
    log_entries es g = Ok (u, g') ->
    g_ls g' = g_ls g /\ g_obs g' = g_obs g /\ g_running g' = g_running g /\ g_sid g' = g_sid g
    /\ g_tid g' = g_tid g /\ g_awaited g' = g_awaited g /\ g_q g' = g_q g /\ g_ss g' = g_ss g
    /\ g_log g' = rev es ++ g_log g.
Proof. unfold log_entries. intros es g u g' H. inv H. cbn. repeat split; reflexivity. Qed.

Lemma Eff_log : forall es g u g',
    log_entries es g = Ok (u, g') ->
    List.length (filter (is0 SS) es) = 0 -> List.length (filter (is0 SF) es) = 0 ->
    (g_running g = true -> forallb run_flag es = true) ->
    (forall k, List.length (filter (isP k) es) = 0) ->
    Eff g g' [].
Proof.
  intros es g u g' H Hss Hsf Hrun Hin.
  apply log_entries_eff in H. destruct H as (H1 & H2 & H3 & H4 & H5 & H6 & _ & _ & H9).
  constructor; try congruence; try lia.
  - intros. rewrite app_nil_r. split; auto.
  - intros _. unfold nK. rewrite H9, !filter_app, !app_length, !filter_rev_length. simpl. lia.
  - intros Hr Ha. unfold all_run in *. rewrite H9, forallb_app, forallb_rev, Ha, Hrun; auto.
  - intro k. unfold nP. rewrite H9, filter_app, app_length, filter_rev_length, Hin. reflexivity.
Qed.

(* ---- emission ---- *)
Lemma count_is0_listeners : forall k n r ls,
    List.length (filter (is0 k) (map (fun l => ENotif l n r) ls)) =
    if nkind_eqb (n_kind n) k then count_occ Nat.eq_dec ls 0 else 0.
Proof.
  intros k n r ls. induction ls as [|l ls IH]; cbn [map filter].
  - destruct (nkind_eqb (n_kind n) k); reflexivity.
  - cbn [is0 count_occ]. destruct l as [|l]; cbn [is0].
    + destruct (nkind_eqb (n_kind n) k) eqn:E; cbn [List.length].
      * destruct (Nat.eq_dec 0 0); [|congruence]. rewrite IH. reflexivity.
      * exact IH.
    + destruct (Nat.eq_dec (S l) 0); [discriminate|]. exact IH.
Qed.

Lemma count_isP_listeners : forall k n r ls,
    List.length (filter (isP k) (map (fun l => ENotif l n r) ls)) =
    if nkind_eqb (n_kind n) k && prodn n then count_occ Nat.eq_dec ls 0 else 0.
Proof.
  intros k n r ls. induction ls as [|l ls IH]; cbn [map filter].
  - destruct (nkind_eqb (n_kind n) k && prodn n); reflexivity.
  - cbn [isP count_occ]. destruct l as [|l]; cbn [isP].
    + destruct (nkind_eqb (n_kind n) k && prodn n) eqn:E; cbn [List.length].
      * destruct (Nat.eq_dec 0 0); [|congruence]. rewrite IH. reflexivity.
      * exact IH.
    + destruct (Nat.eq_dec (S l) 0); [discriminate|]. exact IH.
Qed.

Lemma count_is0_obs : forall (p : entry -> bool) (f : nat -> entry) os,
    (forall o, p (f o) = false) -> List.length (filter p (map f os)) = 0.
Proof.
  intros p f os H. induction os as [|o os IH]; cbn; auto. rewrite H. exact IH.
Qed.

Lemma emit_gen_facts : forall n flag g u g',
    emit_gen n flag g = Ok (u, g') ->
    g_ls g' = g_ls g /\ g_obs g' = g_obs g /\ g_running g' = g_running g /\ g_sid g' = g_sid g
    /\ g_tid g' = g_tid g /\ g_awaited g' = g_awaited g /\ g_q g' = g_q g /\ g_ss g' = g_ss g
    /\ (forall k, nK k g' = nK k g +
                  (if nkind_eqb (n_kind n) k then count_occ Nat.eq_dec (listeners_of k (g_ls g)) 0 else 0))
    /\ (g_running g = true -> all_run g = true -> all_run g' = true)
    /\ (forall k, nP k g' = nP k g +
                  (if nkind_eqb (n_kind n) k && prodn n
                   then count_occ Nat.eq_dec (listeners_of k (g_ls g)) 0 else 0)).
Proof.
  intros n flag g u g' H. unfold emit_gen in H. apply log_entries_eff in H.
  destruct H as (H1 & H2 & H3 & H4 & H5 & H6 & H7 & H8 & H9).
  repeat split; auto.
  - intro k. unfold nK. rewrite H9, filter_app, app_length, filter_rev_length, filter_app, app_length.
    rewrite count_is0_listeners, count_is0_obs by reflexivity.
    destruct (nkind_eqb (n_kind n) k) eqn:E.
    + destruct (n_kind n), k; try discriminate; lia.
    + lia.
  - intros Hr Ha. unfold all_run in *. rewrite H9, forallb_app, forallb_rev, Ha, forallb_app.
    rewrite andb_true_r. apply andb_true_iff. split.
    + apply forallb_forall. intros x Hx. apply in_map_iff in Hx. destruct Hx as (l & <- & _). exact Hr.
    + apply forallb_forall. intros x Hx. apply in_map_iff in Hx. destruct Hx as (l & <- & _). reflexivity.
  - intro k. unfold nP. rewrite H9, filter_app, app_length, filter_rev_length, filter_app, app_length.
    rewrite count_isP_listeners, count_is0_obs by reflexivity.
    destruct (nkind_eqb (n_kind n) k && prodn n) eqn:E.
    + apply andb_true_iff in E. destruct E as [E _].
      destruct (n_kind n), k; try discriminate; lia.
    + lia.
Qed.

(* started / finished notifications of tasks do not count *)
Lemma emit_task_eff : forall n g u g',
    emit n g = Ok (u, g') -> (n_kind n = TS \/ n_kind n = TF) -> n_ctx n <> None -> Eff g g' [].
Proof.
  intros n g u g' H Hk Hc. apply emit_gen_facts in H.
  destruct H as (H1 & H2 & H3 & H4 & H5 & H6 & H7 & H8 & H9 & H10 & H11).
  constructor; try congruence; try lia; auto.
  - intros. rewrite app_nil_r. split; auto.
  - intros _. rewrite (H9 SS), (H9 SF). destruct Hk as [-> | ->]; cbn; lia.
  - intro k. rewrite H11. unfold prodn. destruct (n_ctx n); [|congruence].
    rewrite andb_false_r, andb_false_r. lia.
Qed.

Lemma remove_first_fresh : forall (l : list nat) id,
    ~ In id l -> remove_first (Nat.eqb id) (l ++ [id]) = Some l.
Proof.
  induction l as [|x l IH]; intros id Hn; cbn.
  - rewrite Nat.eqb_refl. reflexivity.
  - destruct (Nat.eqb id x) eqn:E.
    + apply Nat.eqb_eq in E. subst. exfalso. apply Hn. left; reflexivity.
    + rewrite IH; [reflexivity|]. intro Hi. apply Hn. right; exact Hi.
Qed.

Section WithEnv.
  Variable orc : oracle.
  Variable imm : nat -> bool.

  Lemma log_queries_eff : forall vs ctx g u g', log_queries vs ctx g = Ok (u, g') -> Eff g g' [].
  Proof.
    induction vs as [|v vs IH]; intros ctx g u g' H; cbn [log_queries] in H.
    - mstep. apply Eff_refl.
    - mstep. change [] with (@nil nat ++ []). eapply Eff_trans; [|eapply IH; eassumption].
      eapply Eff_log; [eassumption|reflexivity|reflexivity|reflexivity|intro; reflexivity].
  Qed.

  Lemma decide_m_eff : forall e ctx g b g', decide_m orc e ctx g = Ok (b, g') -> Eff g g' [].
  Proof.
    intros e ctx g b g' H. unfold decide_m in H.
    destruct (decide expected_ops orc e (g_q g)) as [[b0 k']| | |]; try discriminate.
    repeat mstep.
    change [] with (@nil nat ++ ([] ++ [])).
    eapply Eff_trans; [eapply log_queries_eff; eassumption|].
    eapply Eff_trans; [eapply set_q_eff; eassumption|apply Eff_refl].
  Qed.

  Lemma read_limit_eff : forall l ctx g n g', read_limit orc l ctx g = Ok (n, g') -> Eff g g' [].
  Proof.
    intros l ctx g n g' H. destruct l as [k|v p]; cbn [read_limit] in H.
    - mstep. apply Eff_refl.
    - destruct (orc (g_q g) v) as [x|]; [|discriminate].
      destruct (resolve x p) as [[q| | |]| | |]; try discriminate.
      destruct (Pos.eqb (Qden q) 1); [|discriminate].
      repeat mstep.
      change [] with (@nil nat ++ ([] ++ [])).
      eapply Eff_trans;
        [eapply Eff_log; [eassumption|reflexivity|reflexivity|reflexivity|intro; reflexivity]|].
      eapply Eff_trans; [eapply set_q_eff; eassumption|apply Eff_refl].
  Qed.

  Lemma all_done_ids : forall sts, all_done sts = true -> ids_list sts = [].
  Proof.
    induction sts as [|s sts IH]; cbn; auto. intro H. apply andb_true_iff in H. destruct H as [H1 H2].
    destruct s; try discriminate. cbn. apply IH, H2.
  Qed.

  Lemma is_done_ids : forall st, is_done st = true -> svc_ids st = [].
  Proof. destruct st; cbn; intros; try discriminate; reflexivity. Qed.

  (* one service start: either it stays awaited, or it was completed on the spot *)
  Lemma service_eff : forall n at_ ins ctx ie g st g',
      (id <- fresh_s ;;
       await id ;;;
       emit (mk SS n at_ id (Some ctx) (subst_params ie ins)) ;;;
       k <- tick_ss ;;
       if imm k
       then unawait id ;;; emit (mk SF n at_ id (Some ctx) (subst_params ie ins)) ;;; ret RDone
       else ret (RAwait id)) g = Ok (st, g') ->
      Eff g g' (svc_ids st).
  Proof.
    intros n at_ ins ctx ie g st g' H.
    mstep as id g1 E1. unfold fresh_s in E1. inv E1.
    mstep as u2 g2 E2. unfold await, set_awaited in E2. inv E2.
    mstep as u3 g3 E3. apply emit_gen_facts in E3. cbn in E3.
    destruct E3 as (H1 & H2 & H3 & H4 & H5 & H6 & H7 & H8 & H9 & H10 & H11).
    mstep as k g4 E4. unfold tick_ss in E4. inv E4.
    destruct (imm (g_ss g3)).
    - (* completed immediately *)
      mstep as u5 g5 E5. unfold unawait in E5. cbn in E5.
      destruct (remove_first (Nat.eqb (g_sid g)) (g_awaited g3)) as [l|] eqn:R; [|discriminate].
      unfold set_awaited in E5. inv E5.
      mstep as u6 g6 E6. apply emit_gen_facts in E6. cbn in E6.
      destruct E6 as (K1 & K2 & K3 & K4 & K5 & K6 & K7 & K8 & K9 & K10 & K11).
      mstep. cbn [svc_ids].
      constructor; try (cbn in *; congruence); try (cbn in *; lia).
      + intros Hlt. rewrite app_nil_r. split; [|constructor].
        rewrite K6. rewrite H6 in R. cbn in R.
        rewrite remove_first_fresh in R.
        * inv R. reflexivity.
        * intro Hi. rewrite Forall_forall in Hlt. specialize (Hlt _ Hi). lia.
      + intros [Hs Hf]. unfold nK in *. cbn in *.
        rewrite (K9 SS), (K9 SF). rewrite (H9 SS), (H9 SF). cbn.
        rewrite H1. rewrite Hs, Hf. lia.
      + intros Hr Ha. unfold all_run in *. cbn in *. apply K10; [congruence|]. apply H10; auto.
      + intro k0. unfold nP in *. cbn in *. rewrite K11, H11. unfold prodn. cbn. rewrite !andb_false_r. lia.
    - mstep. cbn [svc_ids].
      constructor; try (cbn in *; congruence); try (cbn in *; lia).
      + intros Hlt. cbn. rewrite H6. cbn. split; [reflexivity|]. constructor; [lia|constructor].
      + intros [Hs Hf]. unfold nK in *. cbn in *. rewrite (H9 SS), (H9 SF). cbn. rewrite Hs. lia.
      + intros Hr Ha. unfold all_run in *. cbn in *. apply H10; auto.
      + intro k0. unfold nP in *. cbn in *. rewrite H11. unfold prodn. cbn. rewrite !andb_false_r. lia.
  Qed.

  Lemma ids_list_cons : forall st sts, ids_list (st :: sts) = svc_ids st ++ ids_list sts.
  Proof. reflexivity. Qed.

  Lemma Eff_nil_l : forall g g1 g2 ids, Eff g g1 [] -> Eff g1 g2 ids -> Eff g g2 ids.
  Proof. intros. change ids with ([] ++ ids). eapply Eff_trans; eassumption. Qed.
  Lemma Eff_nil_r : forall g g1 g2 ids, Eff g g1 ids -> Eff g1 g2 [] -> Eff g g2 ids.
  Proof. intros. rewrite <- (app_nil_r ids). eapply Eff_trans; eassumption. Qed.

  (* the start family: whatever is started and not yet complete is exactly what is
     appended to the awaited services *)
  Lemma start_eff : forall f,
      (forall ctx ie s g st g', start_stmt orc imm f ctx ie s g = Ok (st, g') -> Eff g g' (svc_ids st)) /\
      (forall ctx ie ss i g r g', run_block orc imm f ctx ie ss i g = Ok (r, g') -> Eff g g' (ids_opt r)) /\
      (forall ctx l g sts g', start_list orc imm f ctx l g = Ok (sts, g') -> Eff g g' (ids_list sts)) /\
      (forall ctx ie s k g st g', loop_test orc imm f ctx ie s k g = Ok (st, g') -> Eff g g' (svc_ids st)).
  Proof.
    induction f as [|f IH]; [split; [|split; [|split]]; intros; discriminate|].
    destruct IH as (IHs & IHb & IHl & IHt).
    split; [|split; [|split]].
    - (* start_stmt *)
      intros ctx ie s g st g' H. cbn [start_stmt] in H.
      destruct s as [n at_ ins|t at_ ins body|bs|e p fl|e b|v lim b|v lim c].
      + eapply service_eff; eassumption.
      + mstep as id g1 E1. apply fresh_t_eff in E1. destruct E1 as (E1 & _ & _).
        mstep as u2 g2 E2. eapply emit_task_eff in E2; [|left; reflexivity|discriminate].
        mstep as r g3 E3. apply IHb in E3.
        destruct r as [[i sti]|].
        * mstep. cbn [svc_ids]. eapply Eff_nil_l; [exact E1|]. eapply Eff_nil_l; [exact E2|]. exact E3.
        * mstep as u4 g4 E4. eapply emit_task_eff in E4; [|right; reflexivity|discriminate].
          mstep. cbn [svc_ids]. eapply Eff_nil_l; [exact E1|]. eapply Eff_nil_l; [exact E2|].
          eapply Eff_nil_l; [exact E3|exact E4].
      + mstep as sts g1 E1. apply IHl in E1.
        destruct (all_done sts) eqn:D; mstep; cbn [svc_ids].
        * rewrite (all_done_ids _ D) in E1. exact E1.
        * exact E1.
      + mstep as b g1 E1. apply decide_m_eff in E1.
        mstep as r g2 E2. apply IHb in E2.
        destruct r as [[i sti]|]; mstep; cbn [svc_ids]; eapply Eff_nil_l; eassumption.
      + eapply IHt; eassumption.
      + eapply IHt; eassumption.
      + mstep as n g1 E1. apply read_limit_eff in E1.
        mstep as sts g2 E2. apply IHl in E2.
        destruct (all_done sts) eqn:D; mstep; cbn [svc_ids].
        * rewrite (all_done_ids _ D) in E2. eapply Eff_nil_l; eassumption.
        * eapply Eff_nil_l; eassumption.
    - (* run_block *)
      intros ctx ie ss i g r g' H. cbn [run_block] in H.
      destruct (nth_error ss i) as [s1|].
      + mstep as st g1 E1. apply IHs in E1.
        destruct (is_done st) eqn:D.
        * apply IHb in H. rewrite (is_done_ids _ D) in E1. eapply Eff_nil_l; eassumption.
        * mstep. cbn [ids_opt]. exact E1.
      + mstep. apply Eff_refl.
    - (* start_list *)
      intros ctx l g sts g' H. cbn [start_list] in H.
      destruct l as [|[ie b] r].
      + mstep. apply Eff_refl.
      + mstep as st g1 E1. apply IHs in E1.
        mstep as sts1 g2 E2. apply IHl in E2.
        mstep. rewrite ids_list_cons. eapply Eff_trans; eassumption.
    - (* loop_test *)
      intros ctx ie s k g st g' H. cbn [loop_test] in H.
      destruct s as [n at_ ins|t at_ ins body|bs|e p fl|e b|v lim b|v lim c]; try discriminate.
      + mstep as bb g1 E1. apply decide_m_eff in E1.
        destruct bb.
        * mstep as r g2 E2. apply IHb in E2.
          destruct r as [[i sti]|].
          -- mstep. cbn [svc_ids]. eapply Eff_nil_l; eassumption.
          -- apply IHt in H. eapply Eff_nil_l; [exact E1|]. eapply Eff_nil_l; eassumption.
        * mstep. eapply Eff_nil_l; [exact E1|apply Eff_refl].
      + mstep as n g1 E1. apply read_limit_eff in E1.
        destruct (Z.of_nat k <? n)%Z.
        * mstep as r g2 E2. apply IHb in E2.
          destruct r as [[i sti]|].
          -- mstep. cbn [svc_ids]. eapply Eff_nil_l; eassumption.
          -- apply IHt in H. eapply Eff_nil_l; [exact E1|]. eapply Eff_nil_l; eassumption.
        * mstep. eapply Eff_nil_l; [exact E1|apply Eff_refl].
  Qed.

  (* ---- the deliver family ---- *)
  Record DEff (g g' : G) (nb na : nat) : Prop := {
    d_ls : g_ls g' = g_ls g;
    d_obs : g_obs g' = g_obs g;
    d_run : g_running g' = g_running g;
    d_sid : g_sid g <= g_sid g';
    d_tid : g_tid g <= g_tid g';
    d_aw : Forall (fun x => x < g_sid g) (g_awaited g) ->
           exists new, g_awaited g' = g_awaited g ++ new
                       /\ Forall (fun x => g_sid g <= x < g_sid g') new
                       /\ na + 1 = nb + List.length new;
    d_cnt : lst0 (g_ls g) -> nK SS g' + nK SF g + nb = nK SS g + nK SF g' + na;
    d_allrun : g_running g = true -> all_run g = true -> all_run g' = true;
    d_prod : forall k, nP k g' = nP k g
  }.

  Lemma DEff_then_Eff : forall g g1 g2 nb na ids,
      DEff g g1 nb na -> Eff g1 g2 ids -> DEff g g2 nb (na + List.length ids).
  Proof.
    intros g g1 g2 nb na ids [] []. constructor; try congruence; try lia.
    - intros Hlt. destruct (d_aw0 Hlt) as (new & Ha & Hr & Hn).
      assert (Hlt1 : Forall (fun x => x < g_sid g1) (g_awaited g1)).
      { rewrite Ha. apply Forall_app. split.
        - eapply Forall_lt_le; eauto.
        - eapply Forall_impl; [|exact Hr]. cbn; intros; lia. }
      destruct (e_aw0 Hlt1) as [Hb Hs]. exists (new ++ ids). split; [|split].
      + rewrite Hb, Ha, app_assoc. reflexivity.
      + apply Forall_app. split; (eapply Forall_impl; [|eassumption]); cbn; intros; lia.
      + rewrite app_length. lia.
    - intros Hl. assert (Hl1 : lst0 (g_ls g1)) by (rewrite d_ls0; exact Hl).
      specialize (d_cnt0 Hl). specialize (e_cnt0 Hl1). lia.
    - intros Hr Ha. apply e_allrun0; [congruence|]. apply d_allrun0; assumption.
  Qed.

  Lemma DEff_frame : forall g g' nb na k, DEff g g' nb na -> DEff g g' (k + nb) (k + na).
  Proof.
    intros g g' nb na k []. constructor; auto.
    - intros Hlt. destruct (d_aw0 Hlt) as (new & Ha & Hr & Hn). exists new. repeat split; auto. lia.
    - intros Hl. specialize (d_cnt0 Hl). lia.
  Qed.

  Lemma DEff_frame_r : forall g g' nb na k, DEff g g' nb na -> DEff g g' (nb + k) (na + k).
  Proof. intros. rewrite (Nat.add_comm nb), (Nat.add_comm na). apply DEff_frame. assumption. Qed.

  Lemma DEff_then_nil : forall g g1 g2 nb na, DEff g g1 nb na -> Eff g1 g2 [] -> DEff g g2 nb na.
  Proof. intros. rewrite <- (Nat.add_0_r na). change 0 with (List.length (@nil nat)).
         eapply DEff_then_Eff; eassumption. Qed.

  Lemma ids_list_app_length : forall a b, List.length (ids_list (a ++ b)) = List.length (ids_list a) + List.length (ids_list b).
  Proof. intros. unfold ids_list. rewrite flat_map_app, app_length. reflexivity. Qed.

  Definition dres {A} (len : A -> nat) (g : G) (nb : nat) (r : option A) (g' : G) : Prop :=
    match r with
    | None => g' = g
    | Some a => DEff g g' nb (len a)
    end.

  Lemma deliver_eff : forall f,
      (forall ctx ie s st id g r g',
          deliver orc imm f ctx ie s st id g = Ok (r, g') ->
          dres (fun st' => List.length (svc_ids st')) g (List.length (svc_ids st)) r g') /\
      (forall ctx ie ss i sti id g r g',
          deliver_block orc imm f ctx ie ss i sti id g = Ok (r, g') ->
          dres (fun r' => List.length (ids_opt r')) g (List.length (svc_ids sti)) r g') /\
      (forall ctx l sts id g r g',
          deliver_list orc imm f ctx l sts id g = Ok (r, g') ->
          dres (fun sts' => List.length (ids_list sts')) g (List.length (ids_list sts)) r g').
  Proof.
    induction f as [|f IH]; [split; [|split]; intros; discriminate|].
    destruct IH as (IHd & IHb & IHl).
    split; [|split].
    - (* deliver *)
      intros ctx ie s st id g r g' H. cbn [deliver] in H.
      destruct s as [n at_ ins|t at_ ins body|bs|e p fl|e b|v lim b|v lim c];
        destruct st as [|id'|cid i sti|sts|bb i sti|k i sti|sts];
        try (mstep; reflexivity).
      + (* service *)
        destruct (Nat.eqb id id').
        * mstep as u g1 E1. apply emit_gen_facts in E1. cbn in E1.
          destruct E1 as (H1 & H2 & H3 & H4 & H5 & H6 & H7 & H8 & H9 & H10 & H11).
          mstep. cbn [dres svc_ids List.length].
          constructor; try congruence; try lia; auto.
          -- intros _. exists []. rewrite app_nil_r. repeat split; auto.
          -- intros [Hs Hf]. rewrite (H9 SS), (H9 SF). cbn. rewrite Hf. lia.
          -- intro k0. rewrite H11. unfold prodn. cbn. rewrite !andb_false_r. lia.
        * mstep. reflexivity.
      + (* call *)
        mstep as r1 g1 E1. apply IHb in E1.
        destruct r1 as [[[j st']|]|]; cbn [dres] in E1.
        * mstep. cbn [dres svc_ids ids_opt] in *. exact E1.
        * mstep as u g2 E2. eapply emit_task_eff in E2; [|right; reflexivity|discriminate].
          mstep. cbn [dres svc_ids ids_opt] in *. eapply DEff_then_nil; eassumption.
        * mstep. cbn [dres]. exact E1.
      + (* parallel *)
        mstep as r1 g1 E1. apply IHl in E1.
        destruct r1 as [sts'|]; cbn [dres] in E1.
        * destruct (all_done sts') eqn:D; mstep; cbn [dres svc_ids].
          -- rewrite (all_done_ids _ D) in E1. exact E1.
          -- exact E1.
        * mstep. exact E1.
      + (* condition *)
        mstep as r1 g1 E1. apply IHb in E1.
        destruct r1 as [[[j st']|]|]; cbn [dres] in E1; mstep; cbn [dres svc_ids ids_opt] in *; exact E1.
      + (* while *)
        mstep as r1 g1 E1. apply IHb in E1.
        destruct r1 as [[[j st']|]|]; cbn [dres] in E1.
        * mstep. cbn [dres svc_ids ids_opt] in *. exact E1.
        * mstep as st' g2 E2. apply (proj2 (proj2 (proj2 (start_eff f)))) in E2.
          mstep. cbn [dres ids_opt List.length] in *.
          change (List.length (svc_ids st')) with (0 + List.length (svc_ids st')).
          eapply DEff_then_Eff; eassumption.
        * mstep. exact E1.
      + (* counting loop *)
        mstep as r1 g1 E1. apply IHb in E1.
        destruct r1 as [[[j st']|]|]; cbn [dres] in E1.
        * mstep. cbn [dres svc_ids ids_opt] in *. exact E1.
        * mstep as st' g2 E2. apply (proj2 (proj2 (proj2 (start_eff f)))) in E2.
          mstep. cbn [dres ids_opt List.length] in *.
          change (List.length (svc_ids st')) with (0 + List.length (svc_ids st')).
          eapply DEff_then_Eff; eassumption.
        * mstep. exact E1.
      + (* parallel loop *)
        mstep as r1 g1 E1. apply IHl in E1.
        destruct r1 as [sts'|]; cbn [dres] in E1.
        * destruct (all_done sts') eqn:D; mstep; cbn [dres svc_ids].
          -- rewrite (all_done_ids _ D) in E1. exact E1.
          -- exact E1.
        * mstep. exact E1.
    - (* deliver_block *)
      intros ctx ie ss i sti id g r g' H. cbn [deliver_block] in H.
      destruct (nth_error ss i) as [s1|]; [|mstep; reflexivity].
      mstep as r1 g1 E1. apply IHd in E1.
      destruct r1 as [st'|]; cbn [dres] in E1; [|mstep; exact E1].
      destruct (is_done st') eqn:D.
      + mstep as r' g2 E2. apply (proj1 (proj2 (start_eff f))) in E2.
        mstep. cbn [dres]. rewrite (is_done_ids _ D) in E1. cbn [List.length] in E1.
        change (List.length (ids_opt r')) with (0 + List.length (ids_opt r')).
        eapply DEff_then_Eff; eassumption.
      + mstep. cbn [dres ids_opt]. exact E1.
    - (* deliver_list *)
      intros ctx l sts id g r g' H. cbn [deliver_list] in H.
      destruct l as [|[ie b] br]; [mstep; reflexivity|].
      destruct sts as [|st sr]; [mstep; reflexivity|].
      mstep as r1 g1 E1. apply IHd in E1.
      destruct r1 as [st'|]; cbn [dres] in E1.
      + mstep. cbn [dres]. rewrite !ids_list_cons, !app_length. apply DEff_frame_r. exact E1.
      + subst g1. mstep as r2 g2 E2. apply IHl in E2.
        destruct r2 as [sr'|]; cbn [dres] in E2; mstep; cbn [dres].
        * rewrite !ids_list_cons, !app_length. apply DEff_frame. exact E2.
        * exact E2.
  Qed.
End WithEnv.

(* ---- states never stall: a state that is not complete waits for some service ---- *)
Fixpoint good (st : rst) : Prop :=
  match st with
  | RDone | RAwait _ => True
  | RCall _ _ s | RCond _ _ s | RLoop _ _ s => good s /\ is_done s = false
  | RPar sts | RParLoop sts =>
    (fix all (l : list rst) : Prop := match l with [] => True | x :: r => good x /\ all r end) sts
    /\ all_done sts = false
  end.

Fixpoint goods (l : list rst) : Prop := match l with [] => True | x :: r => good x /\ goods r end.

Lemma good_par : forall sts, good (RPar sts) <-> goods sts /\ all_done sts = false.
Proof. intro sts. cbn [good]. induction sts; cbn; tauto. Qed.
Lemma good_parloop : forall sts, good (RParLoop sts) <-> goods sts /\ all_done sts = false.
Proof. intro sts. cbn [good]. induction sts; cbn; tauto. Qed.

Definition good_opt (r : option (nat * rst)) : Prop :=
  match r with None => True | Some (_, st) => good st /\ is_done st = false end.

Lemma rst_ind' : forall (P : rst -> Prop),
    P RDone -> (forall id, P (RAwait id)) ->
    (forall id i s, P s -> P (RCall id i s)) ->
    (forall sts, Forall P sts -> P (RPar sts)) ->
    (forall b i s, P s -> P (RCond b i s)) ->
    (forall k i s, P s -> P (RLoop k i s)) ->
    (forall sts, Forall P sts -> P (RParLoop sts)) ->
    forall s, P s.
Proof.
  intros P H1 H2 H3 H4 H5 H6 H7.
  fix IH 1. intros [|id|id i s|sts|b i s|k i s|sts].
  - exact H1.
  - apply H2.
  - apply H3, IH.
  - apply H4. induction sts as [|x r IHr]; constructor; [apply IH|exact IHr].
  - apply H5, IH.
  - apply H6, IH.
  - apply H7. induction sts as [|x r IHr]; constructor; [apply IH|exact IHr].
Qed.

Lemma goods_nonstall : forall sts,
    Forall (fun s => good s -> is_done s = false -> svc_ids s <> []) sts ->
    goods sts -> all_done sts = false -> ids_list sts <> [].
Proof.
  induction sts as [|x r IH]; intros HF Hg Hd; [discriminate|].
  inversion HF as [|? ? Hx Hr]; subst. destruct Hg as [Gx Gr]. cbn in Hd.
  rewrite ids_list_cons. destruct (is_done x) eqn:D.
  - cbn in Hd. intro Habs. apply app_eq_nil in Habs. destruct Habs as [_ Habs].
    revert Habs. apply IH; assumption.
  - intro Habs. apply app_eq_nil in Habs. destruct Habs as [Habs _]. revert Habs. apply Hx; assumption.
Qed.

Lemma good_nonstall : forall st, good st -> is_done st = false -> svc_ids st <> [].
Proof.
  induction st using rst_ind'; intros Hg Hd; cbn [svc_ids].
  - discriminate.
  - discriminate.
  - destruct Hg as [Hg Hn]. apply IHst; assumption.
  - apply good_par in Hg. destruct Hg. apply goods_nonstall; assumption.
  - destruct Hg as [Hg Hn]. apply IHst; assumption.
  - destruct Hg as [Hg Hn]. apply IHst; assumption.
  - apply good_parloop in Hg. destruct Hg. apply goods_nonstall; assumption.
Qed.

Section Good.
  Variable orc : oracle.
  Variable imm : nat -> bool.

  Lemma start_good : forall f,
      (forall ctx ie s g st g', start_stmt orc imm f ctx ie s g = Ok (st, g') -> good st) /\
      (forall ctx ie ss i g r g', run_block orc imm f ctx ie ss i g = Ok (r, g') -> good_opt r) /\
      (forall ctx l g sts g', start_list orc imm f ctx l g = Ok (sts, g') -> goods sts) /\
      (forall ctx ie s k g st g', loop_test orc imm f ctx ie s k g = Ok (st, g') -> good st).
  Proof.
    induction f as [|f IH]; [split; [|split; [|split]]; intros; discriminate|].
    destruct IH as (IHs & IHb & IHl & IHt).
    split; [|split; [|split]].
    - intros ctx ie s g st g' H. cbn [start_stmt] in H.
      destruct s as [n at_ ins|t at_ ins body|bs|e p fl|e b|v lim b|v lim c].
      + mstep as id g1 E1. mstep as u2 g2 E2. mstep as u3 g3 E3. mstep as k g4 E4.
        destruct (imm k).
        * mstep as u5 g5 E5. mstep as u6 g6 E6. mstep. exact I.
        * mstep. exact I.
      + mstep as id g1 E1. mstep as u2 g2 E2. mstep as r g3 E3. apply IHb in E3.
        destruct r as [[i sti]|].
        * mstep. exact E3.
        * mstep as u4 g4 E4. mstep. exact I.
      + mstep as sts g1 E1. apply IHl in E1.
        destruct (all_done sts) eqn:D; mstep; [exact I|]. apply good_par. split; assumption.
      + mstep as b g1 E1. mstep as r g2 E2. apply IHb in E2.
        destruct r as [[i sti]|]; mstep; [exact E2|exact I].
      + eapply IHt; eassumption.
      + eapply IHt; eassumption.
      + mstep as n g1 E1. mstep as sts g2 E2. apply IHl in E2.
        destruct (all_done sts) eqn:D; mstep; [exact I|]. apply good_parloop. split; assumption.
    - intros ctx ie ss i g r g' H. cbn [run_block] in H.
      destruct (nth_error ss i) as [s1|]; [|mstep; exact I].
      mstep as st g1 E1. apply IHs in E1.
      destruct (is_done st) eqn:D.
      + eapply IHb; eassumption.
      + mstep. split; assumption.
    - intros ctx l g sts g' H. cbn [start_list] in H.
      destruct l as [|[ie b] r]; [mstep; exact I|].
      mstep as st g1 E1. apply IHs in E1. mstep as sts1 g2 E2. apply IHl in E2.
      mstep. split; assumption.
    - intros ctx ie s k g st g' H. cbn [loop_test] in H.
      destruct s as [n at_ ins|t at_ ins body|bs|e p fl|e b|v lim b|v lim c]; try discriminate.
      + mstep as bb g1 E1. destruct bb; [|mstep; exact I].
        mstep as r g2 E2. apply IHb in E2.
        destruct r as [[i sti]|]; [mstep; exact E2|]. eapply IHt; eassumption.
      + mstep as n g1 E1. destruct (Z.of_nat k <? n)%Z; [|mstep; exact I].
        mstep as r g2 E2. apply IHb in E2.
        destruct r as [[i sti]|]; [mstep; exact E2|]. eapply IHt; eassumption.
  Qed.

  Definition good_oo (r : option (option (nat * rst))) : Prop :=
    match r with Some r' => good_opt r' | None => True end.
  Definition good_o (r : option rst) : Prop := match r with Some st => good st | None => True end.
  Definition goods_o (r : option (list rst)) : Prop := match r with Some l => goods l | None => True end.

  Lemma deliver_good : forall f,
      (forall ctx ie s st id g r g',
          deliver orc imm f ctx ie s st id g = Ok (r, g') -> good st -> good_o r) /\
      (forall ctx ie ss i sti id g r g',
          deliver_block orc imm f ctx ie ss i sti id g = Ok (r, g') -> good sti -> good_oo r) /\
      (forall ctx l sts id g r g',
          deliver_list orc imm f ctx l sts id g = Ok (r, g') -> goods sts -> goods_o r).
  Proof.
    induction f as [|f IH]; [split; [|split]; intros; discriminate|].
    destruct IH as (IHd & IHb & IHl).
    split; [|split].
    - intros ctx ie s st id g r g' H Hg. cbn [deliver] in H.
      destruct s as [n at_ ins|t at_ ins body|bs|e p fl|e b|v lim b|v lim c];
        destruct st as [|id'|cid i sti|sts|bb i sti|k i sti|sts];
        try (mstep; exact I).
      + destruct (Nat.eqb id id'); [mstep as u g1 E1|]; mstep; exact I.
      + destruct Hg as [Hg Hn]. mstep as r1 g1 E1. apply IHb in E1; [|exact Hg].
        destruct r1 as [[[j st']|]|]; cbn in E1.
        * mstep. exact E1.
        * mstep as u g2 E2. mstep. exact I.
        * mstep. exact I.
      + apply good_par in Hg. destruct Hg as [Hg Hn]. mstep as r1 g1 E1. apply IHl in E1; [|exact Hg].
        destruct r1 as [sts'|]; cbn in E1; [|mstep; exact I].
        destruct (all_done sts') eqn:D; mstep; [exact I|]. apply good_par. split; assumption.
      + destruct Hg as [Hg Hn]. mstep as r1 g1 E1. apply IHb in E1; [|exact Hg].
        destruct r1 as [[[j st']|]|]; cbn in E1; mstep; try exact I. exact E1.
      + destruct Hg as [Hg Hn]. mstep as r1 g1 E1. apply IHb in E1; [|exact Hg].
        destruct r1 as [[[j st']|]|]; cbn in E1.
        * mstep. exact E1.
        * mstep as st' g2 E2. apply (proj2 (proj2 (proj2 (start_good f)))) in E2. mstep. exact E2.
        * mstep. exact I.
      + destruct Hg as [Hg Hn]. mstep as r1 g1 E1. apply IHb in E1; [|exact Hg].
        destruct r1 as [[[j st']|]|]; cbn in E1.
        * mstep. exact E1.
        * mstep as st' g2 E2. apply (proj2 (proj2 (proj2 (start_good f)))) in E2. mstep. exact E2.
        * mstep. exact I.
      + apply good_parloop in Hg. destruct Hg as [Hg Hn]. mstep as r1 g1 E1. apply IHl in E1; [|exact Hg].
        destruct r1 as [sts'|]; cbn in E1; [|mstep; exact I].
        destruct (all_done sts') eqn:D; mstep; [exact I|]. apply good_parloop. split; assumption.
    - intros ctx ie ss i sti id g r g' H Hg. cbn [deliver_block] in H.
      destruct (nth_error ss i) as [s1|]; [|mstep; exact I].
      mstep as r1 g1 E1. apply IHd in E1; [|exact Hg].
      destruct r1 as [st'|]; cbn in E1; [|mstep; exact I].
      destruct (is_done st') eqn:D.
      + mstep as r' g2 E2. apply (proj1 (proj2 (start_good f))) in E2. mstep. exact E2.
      + mstep. split; assumption.
    - intros ctx l sts id g r g' H Hg. cbn [deliver_list] in H.
      destruct l as [|[ie b] br]; [mstep; exact I|].
      destruct sts as [|st sr]; [mstep; exact I|]. destruct Hg as [Hg Hr].
      mstep as r1 g1 E1. apply IHd in E1; [|exact Hg].
      destruct r1 as [st'|]; cbn in E1.
      + mstep. split; assumption.
      + mstep as r2 g2 E2. apply IHl in E2; [|exact Hr].
        destruct r2 as [sr'|]; cbn in E2; mstep; [split; assumption|exact I].
  Qed.
End Good.
