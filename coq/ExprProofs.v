(* ExprProofs.v — the scheduler's expression evaluation (execute_expression with the
   operator table of helpers.parse_operator) agrees with ordinary arithmetic,
   comparison and boolean semantics wherever the latter defines a value. *)
From PFDL Require Import Expr.
From Coq Require Import String.

Section Proofs.
  Variable rho : name -> option value.
  Let orc : oracle := fun _ v => rho v.

  Lemma lookup_expected : forall o,
      lookup_op (op_token o) expected_ops =
      Some (match o with
            | OLt => PyLt | OLe => PyLe | OGt => PyGt | OGe => PyGe | OEq => PyEq | ONe => PyNe
            | OAnd => PyAnd_ | OOr => PyOr_ | OAdd => PyAdd | OSub => PySub | OMul => PyMul
            | ODiv => PyTruediv
            end).
  Proof. destruct o; reflexivity. Qed.

  Lemma eval_path_num : forall v p q k,
      ref_path rho v p = Some (VNum q) ->
      eval expected_ops orc (EPath v p) k = Ok (VNum q, S k).
  Proof.
    intros v p q k H. unfold ref_path in H. cbn [eval]. unfold orc.
    destruct (rho v) as [x|]; [|discriminate].
    destruct (resolve x p) as [r| | |]; try discriminate.
    injection H as ->. reflexivity.
  Qed.

  Lemma eval_path_bool : forall v p b k,
      ref_path rho v p = Some (VBool b) ->
      eval expected_ops orc (EPath v p) k = Ok (VBool b, S k).
  Proof.
    intros v p b k H. unfold ref_path in H. cbn [eval]. unfold orc.
    destruct (rho v) as [x|]; [|discriminate].
    destruct (resolve x p) as [r| | |]; try discriminate.
    injection H as ->. reflexivity.
  Qed.

  (* arithmetic *)
  Lemma eval_ref_num : forall e q k,
      ref_num rho e = Some q ->
      exists k', eval expected_ops orc e k = Ok (VNum q, k').
  Proof.
    induction e as [q0|b|s|v p|e1 IH|e1 IH|o l IHl r IHr]; intros q k H; cbn [ref_num] in H;
      try discriminate.
    - injection H as ->. eexists; reflexivity.
    - destruct (ref_path rho v p) as [[q1| | |]|] eqn:E; try discriminate.
      injection H as ->. eexists. apply eval_path_num, E.
    - cbn [eval]. apply IH, H.
    - assert (Hgen : forall f pf,
                 lookup_op (op_token o) expected_ops = Some pf ->
                 (forall a b, py_apply pf (VNum a) (VNum b) = Ok (VNum (f a b))) ->
                 (match ref_num rho l, ref_num rho r with
                  | Some a, Some b => Some (f a b) | _, _ => None end) = Some q ->
                 exists k', eval expected_ops orc (EBin o l r) k = Ok (VNum q, k')).
      { intros f pf Hl Hap Hm.
        destruct (ref_num rho l) as [a|] eqn:El; [|discriminate].
        destruct (ref_num rho r) as [b|] eqn:Er; [|discriminate].
        injection Hm as <-.
        destruct (IHl a k eq_refl) as [k1 E1]. destruct (IHr b k1 eq_refl) as [k2 E2].
        exists k2. cbn [eval]. rewrite E1. cbn [rbind]. rewrite E2. cbn [rbind].
        rewrite Hl. rewrite Hap. reflexivity. }
      destruct o; try discriminate.
      + apply (Hgen Qplus PyAdd); [reflexivity| reflexivity | exact H].
      + apply (Hgen Qminus PySub); [reflexivity| reflexivity | exact H].
      + apply (Hgen Qmult PyMul); [reflexivity| reflexivity | exact H].
      + (* division: the divisor is not zero *)
        destruct (ref_num rho l) as [a|] eqn:El; [|discriminate].
        destruct (ref_num rho r) as [b|] eqn:Er; [|discriminate].
        destruct (Qeq_bool b 0) eqn:Ez; [discriminate|]. injection H as <-.
        destruct (IHl a k eq_refl) as [k1 E1]. destruct (IHr b k1 eq_refl) as [k2 E2].
        exists k2. cbn [eval]. rewrite E1. cbn [rbind]. rewrite E2. cbn [rbind].
        cbn [lookup_op op_token expected_ops]. cbn. rewrite Ez. reflexivity.
  Qed.

  Lemma bool_eq_as_num : forall a b,
      py_eq (VBool a) (VBool b) = Ok (Bool.eqb a b).
  Proof. destruct a, b; reflexivity. Qed.

  (* comparisons and boolean connectives *)
  Lemma eval_ref_bool : forall e b k,
      ref_bool rho e = Some b ->
      exists k', eval expected_ops orc e k = Ok (VBool b, k').
  Proof.
    induction e as [q0|b0|s|v p|e1 IH|e1 IH|o l IHl r IHr]; intros b k H; cbn [ref_bool] in H;
      try discriminate.
    - injection H as ->. eexists; reflexivity.
    - destruct (ref_path rho v p) as [[| b1 | |]|] eqn:E; try discriminate.
      injection H as ->. eexists. apply eval_path_bool, E.
    - destruct (ref_bool rho e1) as [b1|] eqn:E1; [|discriminate]. injection H as <-.
      destruct (IH b1 k eq_refl) as [k1 E]. exists k1. cbn [eval]. rewrite E. reflexivity.
    - cbn [eval]. apply IH, H.
    - (* binary *)
      assert (Hconn : forall (f : bool -> bool -> bool) pf,
                 lookup_op (op_token o) expected_ops = Some pf ->
                 (forall x y, py_apply pf (VBool x) (VBool y) = Ok (VBool (f x y))) ->
                 (match ref_bool rho l, ref_bool rho r with
                  | Some x, Some y => Some (f x y) | _, _ => None end) = Some b ->
                 exists k', eval expected_ops orc (EBin o l r) k = Ok (VBool b, k')).
      { intros f pf Hl Hap Hm.
        destruct (ref_bool rho l) as [x|] eqn:El; [|discriminate].
        destruct (ref_bool rho r) as [y|] eqn:Er; [|discriminate].
        injection Hm as <-.
        destruct (IHl x k eq_refl) as [k1 E1]. destruct (IHr y k1 eq_refl) as [k2 E2].
        exists k2. cbn [eval]. rewrite E1. cbn [rbind]. rewrite E2. cbn [rbind].
        rewrite Hl. rewrite Hap. reflexivity. }
      assert (Hcmp : forall a c,
                 ref_num rho l = Some a -> ref_num rho r = Some c ->
                 ref_cmp o a c = Some b ->
                 exists k', eval expected_ops orc (EBin o l r) k = Ok (VBool b, k')).
      { intros a c El Er Hc.
        destruct (eval_ref_num l a k El) as [k1 E1]. destruct (eval_ref_num r c k1 Er) as [k2 E2].
        exists k2. cbn [eval]. rewrite E1. cbn [rbind]. rewrite E2. cbn [rbind].
        rewrite lookup_expected.
        destruct o; cbn in Hc; try discriminate; injection Hc as <-; reflexivity. }
      assert (Hbeq : forall x y (neg : bool),
                 ref_num rho l = None \/ ref_num rho r = None ->
                 ref_bool rho l = Some x -> ref_bool rho r = Some y ->
                 lookup_op (op_token o) expected_ops = Some (if neg then PyNe else PyEq) ->
                 b = (if neg then negb (Bool.eqb x y) else Bool.eqb x y) ->
                 exists k', eval expected_ops orc (EBin o l r) k = Ok (VBool b, k')).
      { intros x y neg _ El Er Hl ->.
        destruct (IHl x k El) as [k1 E1]. destruct (IHr y k1 Er) as [k2 E2].
        exists k2. cbn [eval]. rewrite E1. cbn [rbind]. rewrite E2. cbn [rbind].
        rewrite Hl. destruct neg; cbn [py_apply]; rewrite bool_eq_as_num; reflexivity. }
      destruct o; cbn beta iota in H.
      (* And / Or *)
      7: { apply (Hconn andb PyAnd_); [reflexivity | reflexivity | exact H]. }
      7: { apply (Hconn orb PyOr_); [reflexivity | reflexivity | exact H]. }
      (* comparisons and (ill-typed here) arithmetic: split on whether both sides are numbers *)
      all: destruct (ref_num rho l) as [a|] eqn:El; [destruct (ref_num rho r) as [c|] eqn:Er|].
      all: try (eapply Hcmp; [reflexivity | reflexivity | exact H]).
      all: try (cbn in H; discriminate H).
      (* == and != between booleans *)
      all: destruct (ref_bool rho l) as [x|] eqn:Bl; [|discriminate H];
           destruct (ref_bool rho r) as [y|] eqn:Br; [|discriminate H];
           injection H as <-.
      all: first [ eapply (Hbeq x y false); [auto | reflexivity | reflexivity | reflexivity | reflexivity]
                 | eapply (Hbeq x y true); [auto | reflexivity | reflexivity | reflexivity | reflexivity] ].
  Qed.

  (* the decision taken for a condition or guard *)
  Theorem decide_is_truth_value : forall e b k,
      ref_bool rho e = Some b ->
      exists k', decide expected_ops orc e k = Ok (b, k').
  Proof.
    intros e b k H. destruct (eval_ref_bool e b k H) as [k' E].
    exists k'. unfold decide. rewrite E. reflexivity.
  Qed.
End Proofs.

(* non-vacuity: a concrete well-typed guard and valuation *)
Example ref_bool_inhabited :
  let rho := fun v => if Nat.eqb v 1 then Some (VStruct [(2, VNum (3 # 2)); (3, VBool true)]) else None in
  ref_bool rho (EBin OAnd (EBin OLt (EBin OMul (EPath 1 [PF 2]) (ENum 2)) (ENum 4))
                          (ENot (EParen (EBin OEq (EPath 1 [PF 3]) (EBool false)))))
  = Some true.
Proof. vm_compute. reflexivity. Qed.
