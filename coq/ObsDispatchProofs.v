(* Theorems about the observer dispatch loop (ObsDispatch.v): the current code
   ([dispatch_fixed]) satisfies the C17 clauses under re-entrant attach / detach, for ALL
   observer lists and ALL reaction functions; the loop before the fix ([dispatch_live]) and
   the copy-without-membership-test variant ([dispatch_snapshot]) are refuted by concrete
   witnesses. *)
From Coq Require Import List Arith Bool Lia.
From PFDL Require Import ObsDispatch.
Import ListNotations.

(* ------------------------------------------------------------------ *)
(* lists                                                              *)
(* ------------------------------------------------------------------ *)
Lemma mem_In : forall x l, mem x l = true <-> In x l.
Proof.
  intros x l. unfold mem. rewrite existsb_exists. split.
  - intros [y [H1 H2]]. apply Nat.eqb_eq in H2. subst. exact H1.
  - intros H. exists x. split; [exact H | apply Nat.eqb_refl].
Qed.

Lemma mem_not_In : forall x l, mem x l = false <-> ~ In x l.
Proof.
  intros x l. split.
  - intros H Hin. apply mem_In in Hin. congruence.
  - intros H. destruct (mem x l) eqn:E; [|reflexivity]. apply mem_In in E. contradiction.
Qed.

Lemma apply_actions_app : forall a b l,
  apply_actions (a ++ b) l = apply_actions b (apply_actions a l).
Proof. intros. unfold apply_actions. apply fold_left_app. Qed.

Lemma apply_actions_cons : forall a b l,
  apply_actions (a :: b) l = apply_actions b (apply_action a l).
Proof. reflexivity. Qed.

Lemma remove1_In_neq : forall x o l, x <> o -> In o l -> In o (remove1 x l).
Proof.
  intros x o l Hne. induction l as [|y t IH]; simpl; intros H; [exact H|].
  destruct (Nat.eqb_spec x y).
  - destruct H as [H|H]; [congruence | exact H].
  - destruct H as [H|H]; [left; exact H | right; auto].
Qed.

Lemma remove1_incl : forall x o l, In o (remove1 x l) -> In o l.
Proof.
  intros x o l. induction l as [|y t IH]; simpl; intros H; [exact H|].
  destruct (Nat.eqb_spec x y).
  - right; exact H.
  - destruct H as [H|H]; [left; exact H | right; auto].
Qed.

Lemma remove1_count_neq : forall x o l,
  x <> o -> count_occ Nat.eq_dec (remove1 x l) o = count_occ Nat.eq_dec l o.
Proof.
  intros x o l Hne. induction l as [|y t IH]; simpl; [reflexivity|].
  destruct (Nat.eqb_spec x y).
  - subst y. destruct (Nat.eq_dec x o); [congruence | reflexivity].
  - simpl. destruct (Nat.eq_dec y o); rewrite IH; reflexivity.
Qed.

(* an observer that is attached stays attached unless somebody detaches it *)
Lemma apply_actions_keeps : forall acts o l,
  In o l -> ~ In (Detach o) acts -> In o (apply_actions acts l).
Proof.
  induction acts as [|a acts IH]; intros o l Hin Hno; [exact Hin|].
  rewrite apply_actions_cons. apply IH.
  - destruct a as [x|x]; simpl.
    + apply in_or_app. left; exact Hin.
    + apply remove1_In_neq; [|exact Hin]. intros E. apply Hno. left. congruence.
  - intros H. apply Hno. right; exact H.
Qed.

(* actions that do not name o do not change how often o is attached *)
Lemma apply_actions_count : forall acts o l,
  ~ In (Attach o) acts -> ~ In (Detach o) acts ->
  count_occ Nat.eq_dec (apply_actions acts l) o = count_occ Nat.eq_dec l o.
Proof.
  induction acts as [|a acts IH]; intros o l Ha Hd; [reflexivity|].
  rewrite apply_actions_cons. rewrite IH.
  - destruct a as [x|x]; simpl.
    + rewrite count_occ_app. simpl. destruct (Nat.eq_dec x o).
      * exfalso. apply Ha. left. congruence.
      * lia.
    + apply remove1_count_neq. intros E. apply Hd. left. congruence.
  - intros H. apply Ha. right; exact H.
  - intros H. apply Hd. right; exact H.
Qed.

(* an observer attached by some action is attached afterwards unless a later action detaches it *)
Lemma apply_actions_attached : forall a1 x a2 l,
  ~ In (Detach x) a2 -> In x (apply_actions (a1 ++ Attach x :: a2) l).
Proof.
  intros a1 x a2 l Hno. rewrite apply_actions_app, apply_actions_cons.
  apply apply_actions_keeps; [|exact Hno]. simpl. apply in_or_app. right. left. reflexivity.
Qed.

Lemma subseq_In : forall u l x, subseq u l -> In x u -> In x l.
Proof.
  intros u l x H. induction H; simpl; intros Hin.
  - exact Hin.
  - right; auto.
  - destruct Hin as [E|Hin]; [left; exact E | right; auto].
Qed.

Lemma subseq_NoDup : forall u l, subseq u l -> NoDup l -> NoDup u.
Proof.
  intros u l H. induction H; intros Hnd.
  - constructor.
  - inversion Hnd; subst. auto.
  - inversion Hnd; subst. constructor; [|auto].
    intros Hin. apply H2. eapply subseq_In; eauto.
Qed.

Lemma subseq_refl : forall l, subseq l l.
Proof. induction l; [constructor | apply subseq_take; assumption]. Qed.

Lemma NoDup_count_1 : forall l x, NoDup l -> In x l -> count_occ Nat.eq_dec l x = 1.
Proof.
  intros l x Hnd Hin.
  pose proof (proj1 (NoDup_count_occ Nat.eq_dec l) Hnd x) as Hle.
  pose proof (proj1 (count_occ_In Nat.eq_dec l x) Hin) as Hgt. lia.
Qed.

(* ------------------------------------------------------------------ *)
(* one notification, current code                                     *)
(* ------------------------------------------------------------------ *)
Section OneNotification.
Variable react : reaction.

(* (d) the list afterwards = the starting list with the actions of the updated observers
   applied in order *)
Lemma fixed_go_final : forall snap cur,
  snd (dispatch_fixed_go react snap cur)
  = apply_actions (flat_map react (fst (dispatch_fixed_go react snap cur))) cur.
Proof.
  induction snap as [|a snap IH]; intros cur; simpl; [reflexivity|].
  destruct (mem a cur).
  - specialize (IH (apply_actions (react a) cur)).
    destruct (dispatch_fixed_go react snap (apply_actions (react a) cur)) as [u fin].
    simpl in *. rewrite apply_actions_app. exact IH.
  - apply IH.
Qed.

(* (a) *)
Lemma fixed_go_updated : forall snap cur u1 o u2,
  fst (dispatch_fixed_go react snap cur) = u1 ++ o :: u2 ->
  In o snap /\ In o (apply_actions (flat_map react u1) cur).
Proof.
  induction snap as [|a snap IH]; intros cur u1 o u2; simpl.
  - intros H. destruct u1; discriminate.
  - destruct (mem a cur) eqn:Hm.
    + specialize (IH (apply_actions (react a) cur)).
      destruct (dispatch_fixed_go react snap (apply_actions (react a) cur)) as [u fin].
      simpl in *. intros H. destruct u1 as [|b u1]; simpl in H.
      * inversion H; subst. split; [left; reflexivity|]. simpl. apply mem_In. exact Hm.
      * inversion H; subst. destruct (IH u1 o u2 eq_refl) as [H1 H2].
        split; [right; exact H1|]. simpl. rewrite apply_actions_app. exact H2.
    + intros H. destruct (IH cur u1 o u2 H) as [H1 H2]. split; [right; exact H1 | exact H2].
Qed.

(* the updated observers: the starting list with some observers left out, order kept *)
Lemma fixed_go_subseq : forall snap cur, subseq (fst (dispatch_fixed_go react snap cur)) snap.
Proof.
  induction snap as [|a snap IH]; intros cur; simpl; [constructor|].
  destruct (mem a cur).
  - specialize (IH (apply_actions (react a) cur)).
    destruct (dispatch_fixed_go react snap (apply_actions (react a) cur)) as [u fin].
    simpl in *. apply subseq_take. exact IH.
  - apply subseq_skip. apply IH.
Qed.

Lemma fixed_go_app : forall s1 s2 cur,
  dispatch_fixed_go react (s1 ++ s2) cur
  = (fst (dispatch_fixed_go react s1 cur)
       ++ fst (dispatch_fixed_go react s2 (snd (dispatch_fixed_go react s1 cur))),
     snd (dispatch_fixed_go react s2 (snd (dispatch_fixed_go react s1 cur)))).
Proof.
  induction s1 as [|a s1 IH]; intros s2 cur; simpl.
  - destruct (dispatch_fixed_go react s2 cur); reflexivity.
  - destruct (mem a cur).
    + rewrite IH.
      destruct (dispatch_fixed_go react s1 (apply_actions (react a) cur)) as [u fin]. reflexivity.
    + apply IH.
Qed.

(* (b) nobody is skipped *)
Lemma fixed_go_not_skipped : forall snap cur o,
  In o snap -> In o cur -> (forall p, ~ In (Detach o) (react p)) ->
  In o (fst (dispatch_fixed_go react snap cur)).
Proof.
  induction snap as [|a snap IH]; intros cur o Hs Hc Hno; simpl; [destruct Hs|].
  destruct (mem a cur) eqn:Hm.
  - assert (Hc' : In o (apply_actions (react a) cur)) by (apply apply_actions_keeps; auto).
    specialize (IH (apply_actions (react a) cur) o).
    destruct (dispatch_fixed_go react snap (apply_actions (react a) cur)) as [u fin].
    simpl in *. destruct Hs as [E|Hs]; [left; exact E | right; auto].
  - destruct Hs as [E|Hs].
    + subst a. apply mem_not_In in Hm. contradiction.
    + apply IH; auto.
Qed.

Lemma fixed_go_count : forall snap cur o,
  (forall p, ~ In (Attach o) (react p)) -> (forall p, ~ In (Detach o) (react p)) ->
  In o cur ->
  count_occ Nat.eq_dec (fst (dispatch_fixed_go react snap cur)) o = count_occ Nat.eq_dec snap o
  /\ count_occ Nat.eq_dec (snd (dispatch_fixed_go react snap cur)) o = count_occ Nat.eq_dec cur o.
Proof.
  induction snap as [|a snap IH]; intros cur o Ha Hd Hc; simpl; [split; reflexivity|].
  destruct (mem a cur) eqn:Hm.
  - assert (Hc' : In o (apply_actions (react a) cur)) by (apply apply_actions_keeps; auto).
    destruct (IH (apply_actions (react a) cur) o Ha Hd Hc') as [H1 H2].
    destruct (dispatch_fixed_go react snap (apply_actions (react a) cur)) as [u fin].
    simpl in *. rewrite H2, apply_actions_count by auto.
    destruct (Nat.eq_dec a o); rewrite H1; split; reflexivity.
  - destruct (Nat.eq_dec a o) as [E|E].
    + subst a. apply mem_not_In in Hm. contradiction.
    + apply IH; auto.
Qed.

End OneNotification.

(* ---- (a) a detached observer receives nothing further ---- *)
Theorem fixed_detached_get_nothing : detached_get_nothing dispatch_fixed.
Proof.
  intros react l u1 o u2 H. unfold dispatch_fixed, state_at in *.
  eapply fixed_go_updated; eauto.
Qed.

(* ---- (b) nobody is skipped ---- *)
Theorem fixed_nobody_skipped : nobody_skipped dispatch_fixed.
Proof.
  intros react l o Hin Hno. unfold dispatch_fixed. apply fixed_go_not_skipped; auto.
Qed.

(* the sharp form: when the loop reaches the observer at position |l1| of the starting list,
   it is updated exactly if it is attached at that moment *)
Theorem fixed_turn_updated : forall react l1 o l2,
  let l := l1 ++ o :: l2 in
  let u1 := fst (dispatch_fixed_go react l1 l) in
  In o (state_at react l u1) ->
  exists u2, fst (dispatch_fixed react l) = u1 ++ o :: u2.
Proof.
  intros react l1 o l2 l u1 Hin. unfold dispatch_fixed. subst l u1.
  rewrite fixed_go_app. simpl fst.
  unfold state_at in Hin. rewrite <- fixed_go_final in Hin.
  simpl. apply mem_In in Hin. rewrite Hin.
  destruct (dispatch_fixed_go react l2 _) as [u fin]. simpl. eauto.
Qed.

Theorem fixed_turn_left_out : forall react l1 o l2,
  let l := l1 ++ o :: l2 in
  let u1 := fst (dispatch_fixed_go react l1 l) in
  ~ In o (state_at react l u1) ->
  fst (dispatch_fixed react l) = u1 ++ fst (dispatch_fixed_go react l2 (state_at react l u1)).
Proof.
  intros react l1 o l2 l u1 Hin. unfold dispatch_fixed. subst l u1.
  rewrite fixed_go_app. simpl fst.
  unfold state_at in *. rewrite <- fixed_go_final in *.
  simpl. apply mem_not_In in Hin. rewrite Hin. reflexivity.
Qed.

(* in attachment order *)
Theorem fixed_updated_in_order : forall react l, subseq (fst (dispatch_fixed react l)) l.
Proof. intros. apply fixed_go_subseq. Qed.

(* exactly once, when every observer is attached once *)
Theorem fixed_exactly_once : forall react l o,
  NoDup l -> In o l -> (forall p, ~ In (Detach o) (react p)) ->
  count_occ Nat.eq_dec (fst (dispatch_fixed react l)) o = 1.
Proof.
  intros react l o Hnd Hin Hno. apply NoDup_count_1.
  - eapply subseq_NoDup; [apply fixed_updated_in_order | exact Hnd].
  - apply fixed_nobody_skipped; auto.
Qed.

(* as often as it is attached, when nobody attaches or detaches it during the notification *)
Theorem fixed_as_often_as_attached : forall react l o,
  (forall p, ~ In (Attach o) (react p)) -> (forall p, ~ In (Detach o) (react p)) ->
  count_occ Nat.eq_dec (fst (dispatch_fixed react l)) o = count_occ Nat.eq_dec l o
  /\ count_occ Nat.eq_dec (snd (dispatch_fixed react l)) o = count_occ Nat.eq_dec l o.
Proof.
  intros react l o Ha Hd. destruct (in_dec Nat.eq_dec o l) as [Hin|Hin].
  - apply fixed_go_count; auto.
  - assert (H0 : count_occ Nat.eq_dec l o = 0) by (apply count_occ_not_In; exact Hin).
    rewrite H0. split.
    + apply count_occ_not_In. intros H. apply Hin.
      eapply subseq_In; [apply fixed_updated_in_order | exact H].
    + unfold dispatch_fixed. rewrite fixed_go_final, apply_actions_count; auto.
      * intros H. apply in_flat_map in H. destruct H as [p [_ H]]. eapply Ha; eauto.
      * intros H. apply in_flat_map in H. destruct H as [p [_ H]]. eapply Hd; eauto.
Qed.

(* ---- (c) observers attached during the notification ---- *)
Theorem fixed_attached_during_not_updated : forall react l o,
  ~ In o l -> ~ In o (fst (dispatch_fixed react l)).
Proof.
  intros react l o Hn H. apply Hn. eapply subseq_In; [apply fixed_updated_in_order | exact H].
Qed.

(* ---- (d) the list afterwards ---- *)
Theorem fixed_final_list : forall react l,
  snd (dispatch_fixed react l) = apply_actions (flat_map react (fst (dispatch_fixed react l))) l.
Proof. intros. apply fixed_go_final. Qed.

Theorem fixed_attached_during_is_attached_after : forall react l u1 p u2 a1 x a2,
  fst (dispatch_fixed react l) = u1 ++ p :: u2 ->
  react p = a1 ++ Attach x :: a2 ->
  ~ In (Detach x) a2 -> (forall q, In q u2 -> ~ In (Detach x) (react q)) ->
  In x (snd (dispatch_fixed react l)).
Proof.
  intros react l u1 p u2 a1 x a2 Hu Hp Hno Hlater.
  rewrite fixed_final_list, Hu, flat_map_app. simpl. rewrite Hp.
  replace (flat_map react u1 ++ (a1 ++ Attach x :: a2) ++ flat_map react u2)
    with ((flat_map react u1 ++ a1) ++ Attach x :: (a2 ++ flat_map react u2))
    by (repeat rewrite <- app_assoc; reflexivity).
  apply apply_actions_attached. intros H. apply in_app_or in H. destruct H as [H|H]; [auto|].
  apply in_flat_map in H. destruct H as [q [Hq H]]. eapply Hlater; eauto.
Qed.

(* ------------------------------------------------------------------ *)
(* sequences of notifications                                         *)
(* ------------------------------------------------------------------ *)
(* one entry per notification, whatever the dispatcher *)
Theorem run_notifs_length : forall D react steps k l,
  length (fst (run_notifs D react k steps l)) = notifications steps.
Proof.
  intros D react. induction steps as [|s steps IH]; intros k l; [reflexivity|].
  destruct s as [a|]; simpl.
  - apply IH.
  - destruct (D (fun o => react o k) l) as [u l'].
    specialize (IH (S k) l'). destruct (run_notifs D react (S k) steps l') as [us fin].
    simpl in *. unfold notifications in *. simpl. rewrite IH. reflexivity.
Qed.

(* attached and never detached (by the application or by any observer): updated in every
   notification, and attached at the end *)
Theorem run_fixed_never_detached : forall react o steps k l,
  In o l -> ~ In (Ext (Detach o)) steps -> (forall p k, ~ In (Detach o) (react p k)) ->
  Forall (fun u => In o u) (fst (run_notifs dispatch_fixed react k steps l))
  /\ In o (snd (run_notifs dispatch_fixed react k steps l)).
Proof.
  intros react o. induction steps as [|s steps IH]; intros k l Hin Hext Hno.
  - simpl. split; [constructor | exact Hin].
  - assert (Hext' : ~ In (Ext (Detach o)) steps) by (intros H; apply Hext; right; exact H).
    destruct s as [a|]; simpl.
    + apply IH; auto.
      change (apply_action a l) with (apply_actions [a] l). apply apply_actions_keeps; [exact Hin|].
      intros [E|[]]. apply Hext. left. congruence.
    + pose proof (fixed_nobody_skipped (fun p => react p k) l o Hin (fun p => Hno p k)) as Hu.
      pose proof (fixed_final_list (fun p => react p k) l) as Hf.
      destruct (dispatch_fixed (fun p => react p k) l) as [u l'] eqn:E. simpl in Hu, Hf.
      assert (Hin' : In o l').
      { rewrite Hf. apply apply_actions_keeps; [exact Hin|].
        intros H. apply in_flat_map in H. destruct H as [p [_ H]]. eapply Hno; eauto. }
      destruct (IH (S k) l' Hin' Hext' Hno) as [H1 H2].
      destruct (run_notifs dispatch_fixed react (S k) steps l') as [us fin].
      simpl in *. split; [constructor; auto | exact H2].
Qed.

(* attached n times and neither attached nor detached again: updated n times in every
   notification *)
Theorem run_fixed_count : forall react o steps k l,
  ~ In (Ext (Attach o)) steps -> ~ In (Ext (Detach o)) steps ->
  (forall p k, ~ In (Attach o) (react p k)) -> (forall p k, ~ In (Detach o) (react p k)) ->
  Forall (fun u => count_occ Nat.eq_dec u o = count_occ Nat.eq_dec l o)
         (fst (run_notifs dispatch_fixed react k steps l))
  /\ count_occ Nat.eq_dec (snd (run_notifs dispatch_fixed react k steps l)) o
     = count_occ Nat.eq_dec l o.
Proof.
  intros react o. induction steps as [|s steps IH]; intros k l Hea Hed Ha Hd.
  - simpl. split; [constructor | reflexivity].
  - assert (Hea' : ~ In (Ext (Attach o)) steps) by (intros H; apply Hea; right; exact H).
    assert (Hed' : ~ In (Ext (Detach o)) steps) by (intros H; apply Hed; right; exact H).
    destruct s as [a|]; simpl.
    + assert (Hc : count_occ Nat.eq_dec (apply_action a l) o = count_occ Nat.eq_dec l o).
      { change (apply_action a l) with (apply_actions [a] l). apply apply_actions_count.
        - intros [E|[]]. apply Hea. left. congruence.
        - intros [E|[]]. apply Hed. left. congruence. }
      rewrite <- Hc. apply IH; auto.
    + destruct (fixed_as_often_as_attached (fun p => react p k) l o
                  (fun p => Ha p k) (fun p => Hd p k)) as [Hu Hl].
      destruct (dispatch_fixed (fun p => react p k) l) as [u l'] eqn:E. simpl in Hu, Hl.
      destruct (IH (S k) l' Hea' Hed' Ha Hd) as [H1 H2].
      destruct (run_notifs dispatch_fixed react (S k) steps l') as [us fin].
      simpl in *. rewrite Hl in *. split; [constructor; auto | exact H2].
Qed.

Lemma received_all_once : forall o us k,
  Forall (fun u => count_occ Nat.eq_dec u o = 1) us -> received o k us = seq k (length us).
Proof.
  intros o. induction us as [|u us IH]; intros k H; [reflexivity|].
  inversion H; subst. simpl. rewrite H2. simpl. rewrite IH; auto.
Qed.

(* an observer that is attached (once) throughout receives every notification exactly once,
   in order: notification numbers k, k+1, ..., one for every Notify step *)
Theorem run_fixed_receives_all_in_order : forall react o steps k l,
  count_occ Nat.eq_dec l o = 1 ->
  ~ In (Ext (Attach o)) steps -> ~ In (Ext (Detach o)) steps ->
  (forall p k, ~ In (Attach o) (react p k)) -> (forall p k, ~ In (Detach o) (react p k)) ->
  received o k (fst (run_notifs dispatch_fixed react k steps l)) = seq k (notifications steps).
Proof.
  intros react o steps k l H1 Hea Hed Ha Hd.
  destruct (run_fixed_count react o steps k l Hea Hed Ha Hd) as [Hf _].
  rewrite H1 in Hf. rewrite received_all_once by exact Hf.
  rewrite run_notifs_length. reflexivity.
Qed.

(* ------------------------------------------------------------------ *)
(* the two other loops                                                *)
(* ------------------------------------------------------------------ *)
(* the copy without membership test skips nobody either ... *)
Lemma snapshot_go_fst : forall react snap cur, fst (dispatch_snapshot_go react snap cur) = snap.
Proof.
  intros react. induction snap as [|a snap IH]; intros cur; simpl; [reflexivity|].
  specialize (IH (apply_actions (react a) cur)).
  destruct (dispatch_snapshot_go react snap (apply_actions (react a) cur)). simpl in *.
  rewrite IH. reflexivity.
Qed.

Theorem snapshot_updates_everybody : forall react l, fst (dispatch_snapshot react l) = l.
Proof. intros. apply snapshot_go_fst. Qed.

(* ... but updates observers whose detach has already returned: 1 detaches 2, 2 is updated *)
Theorem dispatch_snapshot_refuted : ~ detached_get_nothing dispatch_snapshot.
Proof.
  intros H.
  destruct (H (fun o => if Nat.eqb o 1 then [Detach 2] else []) [1; 2] [1] 2 []) as [_ H2].
  - vm_compute. reflexivity.
  - vm_compute in H2. destruct H2 as [E|[]]. discriminate.
Qed.

(* the loop before the fix: 1 detaches itself, 2 (attached, detached by nobody) is skipped *)
Theorem dispatch_live_skips_refuted :
  ~ (forall fuel react l u l',
        dispatch_live fuel react l = Some (u, l') ->
        forall o, In o l -> (forall p, ~ In (Detach o) (react p)) -> In o u).
Proof.
  intros H.
  assert (H2 : In 2 [1]).
  { apply (H 5 (fun o => if Nat.eqb o 1 then [Detach 1] else []) [1; 2] [1] [2]).
    - vm_compute. reflexivity.
    - simpl. auto.
    - intros p. destruct (Nat.eqb p 1); simpl; intros Hx;
        [destruct Hx as [E|[]]; discriminate | exact Hx]. }
  destruct H2 as [E|[]]. discriminate.
Qed.

(* the same when an EARLIER observer is detached: 2 detaches 1, 3 is skipped *)
Theorem dispatch_live_skips_after_detach_earlier :
  dispatch_live 5 (fun o => if Nat.eqb o 2 then [Detach 1] else []) [1; 2; 3] = Some ([1; 2], [2; 3])
  /\ dispatch_fixed (fun o => if Nat.eqb o 2 then [Detach 1] else []) [1; 2; 3] = ([1; 2; 3], [2; 3]).
Proof. split; vm_compute; reflexivity. Qed.

(* as a dispatcher with enough fuel *)
Theorem dispatch_live_total_refuted : ~ nobody_skipped (dispatch_live_total 5).
Proof.
  intros H.
  assert (H2 : In 2 [1]).
  { apply (H (fun o => if Nat.eqb o 1 then [Detach 1] else []) [1; 2] 2).
    - simpl. auto.
    - intros p. destruct (Nat.eqb p 1); simpl; intros Hx;
        [destruct Hx as [E|[]]; discriminate | exact Hx]. }
  destruct H2 as [E|[]]. discriminate.
Qed.

(* without reactions the three loops agree *)
Lemma live_go_quiet : forall react suf pre,
  (forall o, In o (pre ++ suf) -> react o = []) ->
  dispatch_live_go (S (length suf)) react (length pre) (pre ++ suf) = Some (suf, pre ++ suf).
Proof.
  intros react. induction suf as [|a suf IH]; intros pre Hq.
  - simpl. rewrite app_nil_r. rewrite (proj2 (nth_error_None pre (length pre))) by lia. reflexivity.
  - change (dispatch_live_go (S (length (a :: suf))) react (length pre) (pre ++ a :: suf))
      with (match nth_error (pre ++ a :: suf) (length pre) with
            | None => Some ([], pre ++ a :: suf)
            | Some o =>
                match dispatch_live_go (S (length suf)) react (S (length pre))
                        (apply_actions (react o) (pre ++ a :: suf)) with
                | Some (u, fin) => Some (o :: u, fin)
                | None => None
                end
            end).
    rewrite nth_error_app2 by lia. rewrite Nat.sub_diag. simpl nth_error. cbv beta iota.
    rewrite (Hq a) by (apply in_or_app; right; left; reflexivity). simpl apply_actions.
    replace (pre ++ a :: suf) with ((pre ++ [a]) ++ suf) by (rewrite <- app_assoc; reflexivity).
    replace (S (length pre)) with (length (pre ++ [a])) by (rewrite app_length; simpl; lia).
    rewrite IH; [reflexivity|].
    intros o Ho. apply Hq. rewrite <- app_assoc in Ho. exact Ho.
Qed.

Lemma fixed_go_quiet : forall react snap cur,
  (forall o, In o snap -> react o = [] /\ In o cur) ->
  dispatch_fixed_go react snap cur = (snap, cur).
Proof.
  intros react. induction snap as [|a snap IH]; intros cur Hq; simpl; [reflexivity|].
  destruct (Hq a (or_introl eq_refl)) as [Hr Hin]. apply mem_In in Hin. rewrite Hin, Hr. simpl.
  rewrite IH; [reflexivity|]. intros o Ho. apply Hq. right; exact Ho.
Qed.

Theorem live_eq_fixed_when_quiet : forall react l,
  (forall o, In o l -> react o = []) ->
  dispatch_live (S (length l)) react l = Some (dispatch_fixed react l).
Proof.
  intros react l Hq. unfold dispatch_live, dispatch_fixed.
  pose proof (live_go_quiet react l [] Hq) as Hl. simpl in Hl. simpl. rewrite Hl.
  rewrite fixed_go_quiet; [reflexivity|]. intros o Ho. split; auto.
Qed.

(* The old loop is also right when observers only detach observers that come AFTER them
   (every observer attached once, nobody attaches): the detached ones vanish from the live
   list before the index reaches them, which is what the membership test achieves. *)
Definition detaches_later_only (react : reaction) (l : list nat) : Prop :=
  forall o, In o l -> forall a, In a (react o) ->
    exists x, a = Detach x /\ exists l1 l2, l = l1 ++ o :: l2 /\ In x l2.

Lemma remove1_app_notin : forall x pre s, ~ In x pre -> remove1 x (pre ++ s) = pre ++ remove1 x s.
Proof.
  intros x pre s. induction pre as [|y pre IH]; intros Hn; simpl; [reflexivity|].
  destruct (Nat.eqb_spec x y).
  - exfalso. apply Hn. left. congruence.
  - rewrite IH; [reflexivity|]. intros H. apply Hn. right; exact H.
Qed.

Lemma subseq_remove1 : forall x u l, subseq u l -> subseq (remove1 x u) l.
Proof.
  intros x u l H. induction H; simpl.
  - constructor.
  - apply subseq_skip. exact IHsubseq.
  - destruct (Nat.eqb x x0).
    + apply subseq_skip. exact H.
    + apply subseq_take. exact IHsubseq.
Qed.

Lemma detaches_later_only_tail : forall react r rest,
  NoDup (r :: rest) -> detaches_later_only react (r :: rest) -> detaches_later_only react rest.
Proof.
  intros react r rest Hnd H o Ho a Ha.
  destruct (H o (or_intror Ho) a Ha) as [x [E [l1 [l2 [Hl Hx]]]]].
  exists x. split; [exact E|]. destruct l1 as [|y l1]; simpl in Hl; inversion Hl; subst.
  - inversion Hnd; subst. contradiction.
  - exists l1, l2. split; [reflexivity | exact Hx].
Qed.

Lemma detaches_later_only_head : forall react r rest,
  NoDup (r :: rest) -> detaches_later_only react (r :: rest) ->
  forall a, In a (react r) -> exists x, a = Detach x /\ In x rest.
Proof.
  intros react r rest Hnd H a Ha.
  destruct (H r (or_introl eq_refl) a Ha) as [x [E [l1 [l2 [Hl Hx]]]]].
  exists x. split; [exact E|]. destruct l1 as [|y l1]; simpl in Hl; inversion Hl; subst.
  - exact Hx.
  - inversion Hnd; subst. exfalso. apply H2. apply in_or_app. right. left. reflexivity.
Qed.

Lemma apply_detaches_later : forall acts pre r rest suf,
  (forall a, In a acts -> exists x, a = Detach x /\ In x rest) ->
  (forall y, In y pre -> ~ In y (r :: rest)) -> NoDup (r :: rest) -> subseq suf rest ->
  exists suf', apply_actions acts (pre ++ r :: suf) = pre ++ r :: suf' /\ subseq suf' rest.
Proof.
  induction acts as [|a acts IH]; intros pre r rest suf Hacts Hdis Hnd Hsub.
  - exists suf. split; [reflexivity | exact Hsub].
  - destruct (Hacts a (or_introl eq_refl)) as [x [E Hx]]. subst a.
    rewrite apply_actions_cons. simpl apply_action.
    assert (Hxp : ~ In x pre) by (intros H; apply (Hdis x H); right; exact Hx).
    assert (Hxr : x <> r) by (intros E; subst x; inversion Hnd; contradiction).
    rewrite remove1_app_notin by exact Hxp. simpl.
    destruct (Nat.eqb_spec x r) as [E|_]; [contradiction|].
    apply IH; auto.
    + intros a Ha. apply Hacts. right; exact Ha.
    + apply subseq_remove1. exact Hsub.
Qed.

Lemma live_go_eq_fixed_go : forall react rest pre suf fuel,
  NoDup rest -> (forall y, In y pre -> ~ In y rest) -> subseq suf rest ->
  detaches_later_only react rest -> length rest < fuel ->
  dispatch_live_go fuel react (length pre) (pre ++ suf)
  = Some (dispatch_fixed_go react rest (pre ++ suf)).
Proof.
  intros react. induction rest as [|r rest IH]; intros pre suf fuel Hnd Hdis Hsub Hc Hf.
  - inversion Hsub; subst. destruct fuel as [|f]; [inversion Hf|]. simpl.
    rewrite (proj2 (nth_error_None (pre ++ []) (length pre))) by (rewrite app_nil_r; lia).
    reflexivity.
  - assert (Hnd' : NoDup rest) by (inversion Hnd; assumption).
    assert (Hr : ~ In r rest) by (inversion Hnd; assumption).
    pose proof (detaches_later_only_tail react r rest Hnd Hc) as Hc'.
    inversion Hsub; subst.
    + (* r is no longer attached: both loops pass over it *)
      assert (Hm : mem r (pre ++ suf) = false).
      { apply mem_not_In. intros H. apply in_app_or in H. destruct H as [H|H].
        - apply (Hdis r H). left; reflexivity.
        - apply Hr. eapply subseq_In; eauto. }
      simpl. rewrite Hm. apply IH; auto.
      * intros y Hy H. apply (Hdis y Hy). right; exact H.
      * simpl in Hf. lia.
    + (* r is attached: both loops update it *)
      rename u into suf0.
      assert (Hm : mem r (pre ++ r :: suf0) = true).
      { apply mem_In. apply in_or_app. right. left. reflexivity. }
      destruct fuel as [|f]; [inversion Hf|].
      destruct (apply_detaches_later (react r) pre r rest suf0
                  (detaches_later_only_head react r rest Hnd Hc) Hdis Hnd H1) as [suf' [Happ Hsub']].
      change (dispatch_live_go (S f) react (length pre) (pre ++ r :: suf0))
        with (match nth_error (pre ++ r :: suf0) (length pre) with
              | None => Some ([], pre ++ r :: suf0)
              | Some o =>
                  match dispatch_live_go f react (S (length pre))
                          (apply_actions (react o) (pre ++ r :: suf0)) with
                  | Some (u, fin) => Some (o :: u, fin)
                  | None => None
                  end
              end).
      rewrite nth_error_app2 by lia. rewrite Nat.sub_diag. simpl nth_error. cbv beta iota.
      simpl dispatch_fixed_go. rewrite Hm, Happ.
      replace (pre ++ r :: suf') with ((pre ++ [r]) ++ suf') by (rewrite <- app_assoc; reflexivity).
      replace (S (length pre)) with (length (pre ++ [r])) by (rewrite app_length; simpl; lia).
      rewrite (IH (pre ++ [r]) suf' f); auto.
      * destruct (dispatch_fixed_go react rest ((pre ++ [r]) ++ suf')); reflexivity.
      * intros y Hy H. apply in_app_or in Hy. destruct Hy as [Hy|[Hy|[]]].
        -- apply (Hdis y Hy). right; exact H.
        -- subst y. contradiction.
      * simpl in Hf. lia.
Qed.

Theorem live_eq_fixed_when_detaching_later_only : forall react l,
  NoDup l -> detaches_later_only react l ->
  dispatch_live (S (length l)) react l = Some (dispatch_fixed react l).
Proof.
  intros react l Hnd Hc. unfold dispatch_live, dispatch_fixed.
  apply (live_go_eq_fixed_go react l [] l (S (length l))); auto.
  apply subseq_refl.
Qed.

(* ------------------------------------------------------------------ *)
(* the theorems are not vacuous                                       *)
(* ------------------------------------------------------------------ *)
(* 1 replaces itself by 5, 2 detaches 3 (attached later), 4 re-attaches 1 and detaches 2 *)
Definition react_ex : reaction := fun o =>
  match o with
  | 1 => [Detach 1; Attach 5]
  | 2 => [Detach 3]
  | 4 => [Attach 1; Detach 2]
  | _ => []
  end.

Example ex_react_ex : dispatch_fixed react_ex [1; 2; 3; 4] = ([1; 2; 4], [4; 5; 1]).
Proof. vm_compute. reflexivity. Qed.

(* 4 is detached by nobody: [fixed_nobody_skipped] applies (its premises hold of react_ex) *)
Example ex_nobody_skipped_applies : In 4 (fst (dispatch_fixed react_ex [1; 2; 3; 4])).
Proof.
  apply fixed_nobody_skipped.
  - simpl. auto.
  - intros p H. unfold react_ex in H.
    do 5 (destruct p as [|p]; [simpl in H; repeat (destruct H as [H|H]; [discriminate|]); exact H|]).
    exact H.
Qed.

(* 3 was detached by 2 before its turn: [fixed_turn_left_out] applies *)
Example ex_left_out_applies :
  fst (dispatch_fixed react_ex ([1; 2] ++ 3 :: [4])) = [1; 2] ++ [4].
Proof.
  rewrite fixed_turn_left_out.
  - vm_compute. reflexivity.
  - vm_compute. intros H. repeat (destruct H as [H|H]; [discriminate|]). exact H.
Qed.

(* 5 is attached during the notification: in the list afterwards, not updated *)
Example ex_attached_during_applies : In 5 (snd (dispatch_fixed react_ex [1; 2; 3; 4])).
Proof.
  apply (fixed_attached_during_is_attached_after react_ex [1; 2; 3; 4] [] 1 [2; 4] [Detach 1] 5 []).
  - vm_compute. reflexivity.
  - reflexivity.
  - intros [].
  - intros q Hq H. simpl in Hq.
    destruct Hq as [E|[E|[]]]; subst q; simpl in H;
      repeat (destruct H as [H|H]; [discriminate|]); exact H.
Qed.

(* a sequence: 7 stays attached while the others come and go *)
Example ex_sequence_applies :
  received 7 0 (fst (run_notifs dispatch_fixed
     (react_of_table [((1, 0), [Detach 1; Attach 5]); ((5, 1), [Detach 2]); ((7, 1), [Attach 1])])
     0 [Notify; Ext (Attach 9); Notify; Ext (Detach 9); Notify] [1; 7; 2])) = [0; 1; 2].
Proof. vm_compute. reflexivity. Qed.

(* observers that only detach later ones: 1 detaches 3, 2 detaches 4 and 5 *)
Example ex_detaches_later_only_applies :
  dispatch_live 6 (fun o => match o with 1 => [Detach 3] | 2 => [Detach 4; Detach 5] | _ => [] end)
                [1; 2; 3; 4; 5]
  = Some ([1; 2], [1; 2]).
Proof.
  rewrite (live_eq_fixed_when_detaching_later_only _ [1; 2; 3; 4; 5]).
  - vm_compute. reflexivity.
  - repeat constructor; simpl; intuition discriminate.
  - intros o Ho a Ha. simpl in Ho.
    destruct Ho as [E|[E|[E|[E|[E|[]]]]]]; subst o; simpl in Ha.
    + destruct Ha as [E|[]]; subst a. exists 3. split; [reflexivity|].
      exists [], [2; 3; 4; 5]. split; [reflexivity | simpl; auto].
    + destruct Ha as [E|[E|[]]]; subst a.
      * exists 4. split; [reflexivity|]. exists [1], [3; 4; 5]. split; [reflexivity | simpl; auto].
      * exists 5. split; [reflexivity|]. exists [1], [3; 4; 5]. split; [reflexivity | simpl; auto].
    + destruct Ha.
    + destruct Ha.
    + destruct Ha.
Qed.
