(* NetRun.v — running the net model on a `run` case, and the judgement the correspondence
   check evaluates for it.  Model support file. *)
From PFDL Require Export NetModel Monitors.

Definition env_of (c : runcase) : envcfg :=
  {| ec_orc := orc_of (rc_vals c); ec_imm := imm_of (rc_imm c);
     ec_react := fun k => nth k (rc_react c) None; ec_react_all := rc_react_all c;
     ec_mutate := rc_mutate c |}.

Definition net_fuel : nat := 4000.

(* identifiers are compared literally, which is meaningful in test-id mode only *)
Definition run_net (c : runcase) : res (list callrec) :=
  if rc_test_ids c then
    rbind (net_init (p_tasks (rc_prog c)) true) (fun s =>
    net_run_script (p_tasks (rc_prog c)) (env_of c) net_fuel s (rc_script c))
  else Unsupported.

(* ---- the generated net, for the structural comparison with the implementation's net ----
   signature of a net: number of places, start place, final place, and per transition (in
   creation order) its input places, its output places (as sorted lists: arcs are a set) and the signatures of its callbacks in registration order *)
Definition api_sig (s : NS) (a : nat) : list nat :=
  match nth_error (ns_apis s) a with
  | Some x => a_name x :: st_task (a_site x) :: st_path (a_site x)
  | None => []
  end.
Definition cb_sig (s : NS) (c : cb) : list nat :=
  match c with
  | CbTS a => 0 :: api_sig s a
  | CbTF a => 1 :: api_sig s a
  | CbSS a => 2 :: api_sig s a
  | CbSF a => 3 :: api_sig s a
  | CbCond _ pt pf ctx => 4 :: pt :: pf :: api_sig s ctx
  | CbWhile _ pt pf ctx => 5 :: pt :: pf :: api_sig s ctx
  | CbCount key _ pt pf ctx => 6 :: pt :: pf :: st_task key :: st_path key
  | CbParLoop v _ ctx cl _ ph t1 t2 => [7; v; ph; t1; t2; c_name cl]
  end.
Fixpoint ins_sorted (x : nat) (l : list nat) : list nat :=
  match l with
  | [] => [x]
  | y :: r => if Nat.leb x y then x :: l else y :: ins_sorted x r
  end.
Definition sort_nat (l : list nat) : list nat := fold_right ins_sorted [] l.

Definition net_sig_of (s : NS) : nat * nat * nat * list (list nat * list nat * list (list nat)) :=
  (List.length (ns_places s), ns_start_place s, ns_final_place s,
   map (fun tc => (sort_nat (tr_pre (fst tc)), sort_nat (tr_post (fst tc)), map (cb_sig s) (snd tc)))
       (combine (ns_trans s) (ns_cbs s))).

Definition sig_eqb (a b : nat * nat * nat * list (list nat * list nat * list (list nat))) : bool :=
  let '(pa, sa, fa, ta) := a in
  let '(pb, sb, fb, tb) := b in
  Nat.eqb pa pb && Nat.eqb sa sb && Nat.eqb fa fb
  && list_eqb (fun x y => list_eqb Nat.eqb (fst (fst x)) (fst (fst y))
                          && list_eqb Nat.eqb (snd (fst x)) (snd (fst y))
                          && list_eqb (list_eqb Nat.eqb) (snd x) (snd y)) ta tb.

(* 0 = equal; 1 = different; 2.. = the model does not produce a net *)
Definition judge_net_sig (c : runcase) (impl : nat * nat * nat * list (list nat * list nat * list (list nat))) : nat :=
  match net_init (p_tasks (rc_prog c)) true with
  | Ok s => if sig_eqb (net_sig_of s) impl then 0 else 1
  | Fuel => 2 | Exn _ => 3 | Unsupported => 4
  end.

Definition judge_net_with (p : proj) (mon : runcase -> list callrec -> bool)
           (c : runcase) (impl : list callrec) : verdict :=
  match run_net c with
  | Ok tr => {| v_model := 0; v_disagree := first_disagree p tr impl 0;
                v_full_disagree := first_disagree P_full tr impl 0;
                v_mon_impl := mon c impl; v_mon_model := mon c tr |}
  | Fuel => {| v_model := 2; v_disagree := None; v_full_disagree := None;
               v_mon_impl := mon c impl; v_mon_model := true |}
  | Exn _ => {| v_model := 3; v_disagree := None; v_full_disagree := None;
                v_mon_impl := mon c impl; v_mon_model := true |}
  | Unsupported => {| v_model := 4; v_disagree := None; v_full_disagree := None;
                      v_mon_impl := mon c impl; v_mon_model := true |}
  end.
