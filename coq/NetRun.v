(* NetRun.v — running the net model on a `run` case, and the judgement the correspondence
   check evaluates for it.  Model support file. *)
From PFDL Require Export NetModel Monitors.

Definition env_of (c : runcase) : envcfg :=
  {| ec_orc := orc_of (rc_vals c); ec_imm := imm_of (rc_imm c);
     ec_react := fun k => nth k (rc_react c) None; ec_react_all := rc_react_all c;
     ec_mutate := rc_mutate c |}.

Definition net_fuel : nat := 4000.

(* identifiers are compared literally, which is meaningful in test-id mode only *)
Definition run_net (c : runcase) : res (list callrec) :=
  if rc_test_ids c then
    rbind (net_init (p_tasks (rc_prog c)) true) (fun s =>
    net_run_script (p_tasks (rc_prog c)) (env_of c) net_fuel s (rc_script c))
  else Unsupported.

(* the generated net, for the structural comparison with the implementation's net *)
Definition gen_net (c : runcase) : res (list (option nat) * list trans * list (list cb) * nat * nat) :=
  rbind (net_init (p_tasks (rc_prog c)) true) (fun s =>
  Ok (ns_places s, ns_trans s, ns_cbs s, ns_start_place s, ns_final_place s)).

Definition judge_net_with (p : proj) (mon : runcase -> list callrec -> bool)
           (c : runcase) (impl : list callrec) : verdict :=
  match run_net c with
  | Ok tr => {| v_model := 0; v_disagree := first_disagree p tr impl 0;
                v_full_disagree := first_disagree P_full tr impl 0;
                v_mon_impl := mon c impl; v_mon_model := mon c tr |}
  | Fuel => {| v_model := 2; v_disagree := None; v_full_disagree := None;
               v_mon_impl := mon c impl; v_mon_model := true |}
  | Exn _ => {| v_model := 3; v_disagree := None; v_full_disagree := None;
                v_mon_impl := mon c impl; v_mon_model := true |}
  | Unsupported => {| v_model := 4; v_disagree := None; v_full_disagree := None;
                      v_mon_impl := mon c impl; v_mon_model := true |}
  end.
