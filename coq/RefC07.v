(* RefC07.v — every run of the reference semantics satisfies the lifecycle monitor
   holds_C07: started / finished notifications are balanced, nested, attributed to the
   right instance, identifiers are fresh, the production task is first, service-finished
   is issued in the call that delivers the completion, and nothing is left open when the
   order is final.  Proof file. *)
From PFDL Require Import RefSem RunCase Monitors RefBase RefClosure RefShape RefC01.
From Coq Require Import Lia Permutation.

(* ===================================================================== *)
(* 1. what function 0 was told, as a function of the bookkeeping state     *)
(* ===================================================================== *)
Definition N (g : G) : list notif := map fst (ee_notifs (rev (g_log g))).

Lemma ee_app : forall a b, ee_notifs (a ++ b) = ee_notifs a ++ ee_notifs b.
Proof. intros. unfold ee_notifs. apply flat_map_app. Qed.

Lemma ee_listeners : forall n r ls,
    ee_notifs (map (fun l => ENotif l n r) ls) = repeat (n, r) (count_occ Nat.eq_dec ls 0).
Proof.
  intros n r ls. induction ls as [|l ls IH]; [reflexivity|].
  cbn [map]. rewrite ee_cons. cbn [count_occ]. destruct l as [|l].
  - destruct (Nat.eq_dec 0 0); [|congruence]. cbn [repeat app]. rewrite IH. reflexivity.
  - destruct (Nat.eq_dec (S l) 0); [discriminate|]. cbn [app]. exact IH.
Qed.

Lemma ee_obs : forall (f : nat -> entry) os,
    (forall o, match f o with ENotif _ _ _ => False | _ => True end) -> ee_notifs (map f os) = [].
Proof.
  intros f os H. induction os as [|o os IH]; [reflexivity|].
  cbn [map]. rewrite ee_cons, IH. specialize (H o). destruct (f o); try reflexivity. contradiction.
Qed.

Lemma N_log : forall g g' new, g_log g' = rev new ++ g_log g -> N g' = N g ++ map fst (ee_notifs new).
Proof.
  intros g g' new H. unfold N. rewrite H, rev_app_distr, rev_involutive, ee_app, map_app. reflexivity.
Qed.

Lemma N_same : forall g g', g_log g' = g_log g -> N g' = N g.
Proof. intros g g' H. unfold N. rewrite H. reflexivity. Qed.

Lemma emit_N : forall n flag g u g',
    emit_gen n flag g = Ok (u, g') -> lst_all (g_ls g) ->
    N g' = N g ++ [n].
Proof.
  intros n flag g u g' H Hl. unfold emit_gen in H. apply log_entries_eff in H.
  destruct H as (_ & _ & _ & _ & _ & _ & _ & _ & H9).
  rewrite (N_log _ _ _ H9), ee_app, ee_listeners, (Hl (n_kind n)), ee_obs by (intro; exact I).
  reflexivity.
Qed.

Lemma emit_frame : forall n flag g u g',
    emit_gen n flag g = Ok (u, g') ->
    g_ls g' = g_ls g /\ g_tid g' = g_tid g /\ g_sid g' = g_sid g.
Proof.
  intros n flag g u g' H. apply emit_gen_facts in H.
  destruct H as (H1 & H2 & H3 & H4 & H5 & _). auto.
Qed.

Section Quiet.
  Variable orc : oracle.

  Lemma queries_N : forall vs ctx g u g', log_queries vs ctx g = Ok (u, g') -> N g' = N g.
  Proof.
    induction vs as [|v vs IH]; intros ctx g u g' H; cbn [log_queries] in H.
    - mstep. reflexivity.
    - mstep as u1 g1 E1. unfold log_entry in E1. apply log_entries_eff in E1.
      destruct E1 as (_ & _ & _ & _ & _ & _ & _ & _ & H9).
      rewrite (IH _ _ _ _ H). rewrite (N_log _ _ _ H9). cbn. apply app_nil_r.
  Qed.

  Lemma decide_N : forall e ctx g b g', decide_m orc e ctx g = Ok (b, g') -> N g' = N g.
  Proof.
    intros e ctx g b g' H. unfold decide_m in H.
    destruct (decide expected_ops orc e (g_q g)) as [[b0 k']| | |]; try discriminate.
    mstep as u1 g1 E1. apply queries_N in E1. mstep as u2 g2 E2. unfold set_q in E2. inv E2. mstep.
    exact E1.
  Qed.

  Lemma limit_N : forall l ctx g n g', read_limit orc l ctx g = Ok (n, g') -> N g' = N g.
  Proof.
    intros l ctx g n g' H. destruct l as [k|v p]; cbn [read_limit] in H.
    - mstep. reflexivity.
    - destruct (orc (g_q g) v) as [x|]; [|discriminate].
      destruct (resolve x p) as [[q| | |]| | |]; try discriminate.
      destruct (Pos.eqb (Qden q) 1); [|discriminate].
      mstep as u1 g1 E1. unfold log_entry in E1. apply log_entries_eff in E1.
      destruct E1 as (_ & _ & _ & _ & _ & _ & _ & _ & H9).
      mstep as u2 g2 E2. unfold set_q in E2. inv E2. mstep.
      change (N (g1 <| g_q := S (g_q g) |>)) with (N g1).
      rewrite (N_log _ _ _ H9). cbn. apply app_nil_r.
  Qed.
End Quiet.

(* the three macro steps that notify *)
Lemma service_N : forall (imm : nat -> bool) n at_ ins ctx ie g st g',
    (id <- fresh_s ;;
     await id ;;;
     emit (mk SS n at_ id (Some ctx) (subst_params ie ins)) ;;;
     k <- tick_ss ;;
     if imm k
     then unawait id ;;; emit (mk SF n at_ id (Some ctx) (subst_params ie ins)) ;;; ret RDone
     else ret (RAwait id)) g = Ok (st, g') ->
    g_ls g' = g_ls g /\ g_tid g' = g_tid g /\ g_sid g' = S (g_sid g) /\
    (lst_all (g_ls g) ->
     (st = RAwait (g_sid g) /\ N g' = N g ++ [mk SS n at_ (g_sid g) (Some ctx) (subst_params ie ins)]) \/
     (st = RDone /\ N g' = N g ++ [mk SS n at_ (g_sid g) (Some ctx) (subst_params ie ins);
                                    mk SF n at_ (g_sid g) (Some ctx) (subst_params ie ins)])).
Proof.
  intros imm n at_ ins ctx ie g st g' H.
  mstep as id g1 E1. unfold fresh_s in E1. inv E1.
  mstep as u2 g2 E2. unfold await, set_awaited in E2. inv E2.
  mstep as u3 g3 E3. pose proof (emit_frame _ _ _ _ _ E3) as (A1 & A2 & A3).
  pose proof (emit_N _ _ _ _ _ E3) as A4. cbn in A1, A2, A3.
  mstep as k g4 E4. unfold tick_ss in E4. inv E4.
  destruct (imm (g_ss g3)).
  - mstep as u5 g5 E5. unfold unawait in E5.
    match type of E5 with match ?X with _ => _ end = _ => destruct X as [l|] end; [|discriminate].
    unfold set_awaited in E5. inv E5.
    mstep as u6 g6 E6. pose proof (emit_frame _ _ _ _ _ E6) as (B1 & B2 & B3).
    pose proof (emit_N _ _ _ _ _ E6) as B4. cbn in B1, B2, B3. mstep.
    split; [congruence|]. split; [congruence|]. split; [congruence|].
    intro Hl. right. split; [reflexivity|].
    rewrite B4 by (cbn; rewrite A1; exact Hl).
    match goal with |- N ?x ++ _ = _ => change (N x) with (N g3) end.
    rewrite A4 by exact Hl.
    match goal with |- (N ?x ++ _) ++ _ = _ => change (N x) with (N g) end.
    rewrite <- app_assoc. reflexivity.
  - mstep. split; [exact A1|]. split; [exact A2|]. split; [exact A3|].
    intro Hl. left. split; [reflexivity|].
    match goal with |- N ?x = _ => change (N x) with (N g3) end.
    rewrite A4 by exact Hl. reflexivity.
Qed.

Lemma tstart_N : forall t at_ ctx ps g id g1 u g2,
    fresh_t g = Ok (id, g1) -> emit (mk TS t at_ id ctx ps) g1 = Ok (u, g2) ->
    id = g_tid g /\ g_ls g2 = g_ls g /\ g_tid g2 = S (g_tid g) /\ g_sid g2 = g_sid g /\
    (lst_all (g_ls g) -> N g2 = N g ++ [mk TS t at_ (g_tid g) ctx ps]).
Proof.
  intros t at_ ctx ps g id g1 u g2 E1 E2. unfold fresh_t in E1. inv E1.
  pose proof (emit_frame _ _ _ _ _ E2) as (A1 & A2 & A3). pose proof (emit_N _ _ _ _ _ E2) as A4.
  cbn in A1, A2, A3. split; [reflexivity|]. split; [exact A1|]. split; [exact A2|]. split; [exact A3|].
  intro Hl. rewrite A4 by exact Hl. reflexivity.
Qed.

(* ===================================================================== *)
(* 2. the monitor's side: steps of [life_step] on well-formed states       *)
(* ===================================================================== *)
Definition inst (id : nat) (ctx : option nat) (nm : name) (at_ : site) : open_inst :=
  {| oi_id := id; oi_ctx := ctx; oi_name := nm; oi_site := at_ |}.

Definition site_dec : forall a b : site, {a = b} + {a <> b}.
Proof. decide equality; [apply (list_eq_dec Nat.eq_dec)|apply Nat.eq_dec]. Defined.

Definition oi_dec : forall a b : open_inst, {a = b} + {a <> b}.
Proof.
  decide equality; try apply site_dec; try apply Nat.eq_dec.
  decide equality. apply Nat.eq_dec.
Defined.

Lemma list_eqb_nat_eq : forall a b, list_eqb Nat.eqb a b = true <-> a = b.
Proof.
  induction a as [|x a IH]; intros [|y b]; cbn; split; intro H; try discriminate; try reflexivity.
  - apply andb_true_iff in H. destruct H as [H1 H2]. apply Nat.eqb_eq in H1. apply IH in H2. congruence.
  - inv H. rewrite Nat.eqb_refl. cbn. apply IH. reflexivity.
Qed.

Lemma oi_eqb_eq : forall a b, oi_eqb a b = true <-> a = b.
Proof.
  intros [i1 c1 n1 [t1 p1]] [i2 c2 n2 [t2 p2]]. unfold oi_eqb, site_eqb. cbn.
  split; intro H.
  - apply andb_true_iff in H. destruct H as [H H4]. apply andb_true_iff in H. destruct H as [H H3].
    apply andb_true_iff in H. destruct H as [H1 H2]. apply andb_true_iff in H4. destruct H4 as [H4 H5].
    apply Nat.eqb_eq in H1, H3, H4. apply list_eqb_nat_eq in H5.
    assert (c1 = c2).
    { destruct c1, c2; cbn in H2; try discriminate; [apply Nat.eqb_eq in H2; congruence|reflexivity]. }
    congruence.
  - inv H. rewrite !Nat.eqb_refl. cbn.
    assert (list_eqb Nat.eqb p2 p2 = true) as -> by (apply list_eqb_nat_eq; reflexivity).
    destruct c2; cbn; [rewrite Nat.eqb_refl|]; reflexivity.
Qed.

Lemma remove_first_perm : forall A (p : A -> bool) l l',
    remove_first p l = Some l' -> exists y, p y = true /\ Permutation l ([y] ++ l').
Proof.
  induction l as [|x l IH]; intros l' H; cbn in H; [discriminate|].
  destruct (p x) eqn:E.
  - inv H. exists x. split; [exact E|apply Permutation_refl].
  - destruct (remove_first p l) as [t|]; [|discriminate]. inv H.
    destruct (IH _ eq_refl) as (y & Hy & Hp). exists y. split; [exact Hy|].
    cbn. eapply perm_trans; [apply perm_skip; exact Hp|]. cbn. apply perm_swap.
Qed.

Lemma remove_first_some : forall A (p : A -> bool) l y,
    In y l -> p y = true -> exists l', remove_first p l = Some l'.
Proof.
  induction l as [|x l IH]; intros y Hi Hp; [contradiction|]. cbn.
  destruct (p x) eqn:E; [eexists; reflexivity|].
  destruct Hi as [->|Hi]; [congruence|].
  destruct (IH _ Hi Hp) as (l' & ->). eexists; reflexivity.
Qed.

Lemma remove_inst : forall x l rest,
    Permutation l ([x] ++ rest) ->
    exists l', remove_first (oi_eqb x) l = Some l' /\ Permutation l' rest.
Proof.
  intros x l rest Hp.
  assert (Hi : In x l).
  { eapply Permutation_in; [apply Permutation_sym; exact Hp|]. left; reflexivity. }
  destruct (remove_first_some _ (oi_eqb x) l x Hi (proj2 (oi_eqb_eq x x) eq_refl)) as (l' & Hr).
  exists l'. split; [exact Hr|].
  destruct (remove_first_perm _ _ _ _ Hr) as (y & Hy & Hq). apply oi_eqb_eq in Hy. subst y.
  apply Permutation_cons_inv with (a := x). cbn in *.
  eapply perm_trans; [apply Permutation_sym; exact Hq|exact Hp].
Qed.

Lemma mem_lt_false : forall l n, Forall (fun x => x < n) l -> mem n l = false.
Proof.
  induction l as [|x l IH]; intros n H; [reflexivity|]. inversion H; subst. cbn.
  rewrite (IH _ H3). destruct (Nat.eqb n x) eqn:E; [apply Nat.eqb_eq in E; lia|reflexivity].
Qed.

Definition sel (tk : bool) (L : life) : list open_inst := if tk then lf_tasks L else lf_svcs L.

Definition copen (ctx : nat) (l : list open_inst) : Prop := exists o, In o l /\ oi_id o = ctx.

Lemma copen_ctx_open : forall ctx L, copen ctx (lf_tasks L) -> ctx_open (Some ctx) L = true.
Proof.
  intros ctx L (o & Hi & He). cbn. apply existsb_exists. exists o. split; [exact Hi|].
  apply Nat.eqb_eq. exact He.
Qed.

Lemma copen_perm : forall ctx l l', Permutation l l' -> copen ctx l -> copen ctx l'.
Proof. intros ctx l l' Hp (o & Hi & He). exists o. split; [eapply Permutation_in; eassumption|exact He]. Qed.

Record W (L : life) (nt ns : nat) : Prop := {
  w_seen : lf_seen_any L = true;
  w_ut : Forall (fun x => x < nt) (lf_used_t L);
  w_us : Forall (fun x => x < ns) (lf_used_s L);
  w_ctx : forall tk o c, In o (sel tk L) -> oi_ctx o = Some c -> c < nt;
  w_ids : Forall (fun o => oi_id o < nt) (lf_tasks L);
  w_nd : NoDup (map oi_id (lf_tasks L))
}.

Lemma Forall_lt_mono : forall A (f : A -> nat) l a b,
    a <= b -> Forall (fun x => f x < a) l -> Forall (fun x => f x < b) l.
Proof. intros A f l a b Hab H. eapply Forall_impl; [|exact H]. cbn. intros; lia. Qed.

Lemma W_mono : forall L nt ns nt' ns', W L nt ns -> nt <= nt' -> ns <= ns' -> W L nt' ns'.
Proof.
  intros L nt ns nt' ns' [] H1 H2. constructor; auto.
  - eapply (Forall_lt_mono _ (fun x => x)); eassumption.
  - eapply (Forall_lt_mono _ (fun x => x)); eassumption.
  - intros tk o c Hi Hc. specialize (w_ctx0 _ _ _ Hi Hc). lia.
  - eapply Forall_lt_mono; eassumption.
Qed.

Lemma NoDup_app_r : forall A (a b : list A), NoDup (a ++ b) -> NoDup b.
Proof. induction a as [|x a IH]; intros b H; [exact H|]. inversion H; subst. apply IH. assumption. Qed.

(* a monitor state whose open lists are sub-multisets of a well-formed one *)
Lemma W_sub : forall L L1 nt ns (R : bool -> list open_inst) (X : bool -> list open_inst),
    W L nt ns ->
    lf_seen_any L1 = true -> lf_used_t L1 = lf_used_t L -> lf_used_s L1 = lf_used_s L ->
    (forall tk, Permutation (sel tk L) (X tk ++ R tk)) ->
    (forall tk, Permutation (sel tk L1) (R tk)) ->
    W L1 nt ns.
Proof.
  intros L L1 nt ns R X [] Hs Ht Hu HL H1.
  assert (Hin : forall tk o, In o (sel tk L1) -> In o (sel tk L)).
  { intros tk o Hi. eapply Permutation_in; [apply Permutation_sym; apply HL|].
    apply in_or_app. right. eapply Permutation_in; [apply H1|exact Hi]. }
  constructor; try congruence.
  - intros tk o c Hi Hc. eapply w_ctx0; [apply Hin; exact Hi|exact Hc].
  - apply Forall_forall. intros o Hi. rewrite Forall_forall in w_ids0. apply w_ids0. apply (Hin true). exact Hi.
  - assert (P : Permutation (map oi_id (lf_tasks L)) (map oi_id (X true) ++ map oi_id (lf_tasks L1))).
    { rewrite <- map_app. apply Permutation_map. eapply perm_trans; [apply (HL true)|].
      apply Permutation_app_head. apply Permutation_sym. apply (H1 true). }
    pose proof (Permutation_NoDup P w_nd0) as ND. apply NoDup_app_r in ND. exact ND.
Qed.

Lemma life_TS : forall L nt ns t at_ ctx ps,
    W L nt ns -> copen ctx (lf_tasks L) ->
    exists L1, life_step L (mk TS t at_ nt (Some ctx) ps) = Some L1 /\ W L1 (S nt) ns /\
               forall tk, Permutation (sel tk L1) ((if tk then [inst nt (Some ctx) t at_] else []) ++ sel tk L).
Proof.
  intros L nt ns t at_ ctx ps HW Hc. pose proof HW as [].
  unfold life_step. cbn [mk n_kind n_ctx n_id].
  rewrite w_seen0, (copen_ctx_open _ _ Hc), (mem_lt_false _ _ w_ut0). cbn [andb negb].
  eexists. split; [reflexivity|]. split.
  - constructor; cbn; auto.
    + constructor; [lia|]. eapply (Forall_lt_mono _ (fun x => x)); [|eassumption]. lia.
    + intros tk o c Hi Hcx. destruct tk; cbn in Hi.
      * destruct Hi as [<-|Hi].
        -- cbn in Hcx. inv Hcx. destruct Hc as (o & Hi & He). rewrite Forall_forall in w_ids0.
           specialize (w_ids0 _ Hi). lia.
        -- specialize (w_ctx0 true _ _ Hi Hcx). lia.
      * specialize (w_ctx0 false _ _ Hi Hcx). lia.
    + constructor; [cbn; lia|]. eapply Forall_lt_mono; [|eassumption]. lia.
    + constructor; [|exact w_nd0]. intro Hi. apply in_map_iff in Hi. destruct Hi as (o & He & Hi).
      rewrite Forall_forall in w_ids0. specialize (w_ids0 _ Hi). lia.
  - intros [|]; cbn; apply Permutation_refl.
Qed.

Lemma life_SS : forall L nt ns n at_ ctx ps,
    W L nt ns -> copen ctx (lf_tasks L) ->
    exists L1, life_step L (mk SS n at_ ns (Some ctx) ps) = Some L1 /\ W L1 nt (S ns) /\
               forall tk, Permutation (sel tk L1) ((if tk then [] else [inst ns (Some ctx) n at_]) ++ sel tk L).
Proof.
  intros L nt ns n at_ ctx ps HW Hc. pose proof HW as [].
  unfold life_step. cbn [mk n_kind n_ctx n_id].
  rewrite (copen_ctx_open _ _ Hc), (mem_lt_false _ _ w_us0). cbn [andb negb].
  eexists. split; [reflexivity|]. split.
  - constructor; cbn; auto.
    + constructor; [lia|]. eapply (Forall_lt_mono _ (fun x => x)); [|eassumption]. lia.
    + intros tk o c Hi Hcx. destruct tk; cbn in Hi.
      * apply (w_ctx0 true _ _ Hi Hcx).
      * destruct Hi as [<-|Hi].
        -- cbn in Hcx. inv Hcx. destruct Hc as (o & Hi & He). rewrite Forall_forall in w_ids0.
           specialize (w_ids0 _ Hi). lia.
        -- apply (w_ctx0 false _ _ Hi Hcx).
  - intros [|]; cbn; apply Permutation_refl.
Qed.

Lemma life_SF : forall L nt ns n at_ id ctx ps (R : bool -> list open_inst),
    W L nt ns ->
    (forall tk, Permutation (sel tk L) ((if tk then [] else [inst id ctx n at_]) ++ R tk)) ->
    exists L1, life_step L (mk SF n at_ id ctx ps) = Some L1 /\ W L1 nt ns /\
               forall tk, Permutation (sel tk L1) (R tk).
Proof.
  intros L nt ns n at_ id ctx ps R HW HP.
  unfold life_step. cbn [mk n_kind]. unfold oi_of. cbn [mk n_id n_ctx n_name n_site].
  destruct (remove_inst _ _ _ (HP false)) as (l' & Hr & Hq). fold (inst id ctx n at_).
  cbn [sel] in Hr. rewrite Hr. eexists. split; [reflexivity|].
  assert (HP1 : forall tk, Permutation
       (sel tk {| lf_tasks := lf_tasks L; lf_svcs := l'; lf_used_t := lf_used_t L;
                  lf_used_s := lf_used_s L; lf_seen_any := true |}) (R tk)).
  { intros [|]; cbn; [exact (HP true)|exact Hq]. }
  split; [|exact HP1].
  eapply W_sub; [exact HW|reflexivity|reflexivity|reflexivity|exact HP|exact HP1].
Qed.

Lemma life_TF : forall L nt ns t at_ id ctx ps (R : bool -> list open_inst),
    W L nt ns ->
    (forall tk, Permutation (sel tk L) ((if tk then [inst id ctx t at_] else []) ++ R tk)) ->
    (forall tk o, In o (R tk) -> oi_ctx o <> Some id) ->
    exists L1, life_step L (mk TF t at_ id ctx ps) = Some L1 /\ W L1 nt ns /\
               forall tk, Permutation (sel tk L1) (R tk).
Proof.
  intros L nt ns t at_ id ctx ps R HW HP Hsep.
  unfold life_step. cbn [mk n_kind]. unfold oi_of. cbn [mk n_id n_ctx n_name n_site].
  destruct (remove_inst _ _ _ (HP true)) as (l' & Hr & Hq). fold (inst id ctx t at_).
  cbn [sel] in Hr. rewrite Hr.
  assert (HP1 : forall tk, Permutation
       (sel tk {| lf_tasks := l'; lf_svcs := lf_svcs L; lf_used_t := lf_used_t L;
                  lf_used_s := lf_used_s L; lf_seen_any := true |}) (R tk)).
  { intros [|]; cbn; [exact Hq|exact (HP false)]. }
  assert (Hc : forall tk, existsb (fun o => option_eqb Nat.eqb (oi_ctx o) (Some id))
     (sel tk {| lf_tasks := l'; lf_svcs := lf_svcs L; lf_used_t := lf_used_t L;
                  lf_used_s := lf_used_s L; lf_seen_any := true |}) = false).
  { intro tk. match goal with |- ?X = false => destruct X eqn:E end; [|reflexivity].
    apply existsb_exists in E. destruct E as (o & Hi & He). exfalso.
    apply (Hsep tk o); [eapply Permutation_in; [apply HP1|exact Hi]|].
    destruct (oi_ctx o) as [c|]; cbn in He; [|discriminate]. apply Nat.eqb_eq in He. congruence. }
  unfold has_open_child. pose proof (Hc true) as C1. pose proof (Hc false) as C2. cbn [sel lf_tasks lf_svcs] in C1, C2.
  cbn [lf_tasks lf_svcs]. rewrite C1, C2. cbn [orb].
  eexists. split; [reflexivity|]. split; [|exact HP1].
  eapply W_sub; [exact HW|reflexivity|reflexivity|reflexivity|exact HP|exact HP1].
Qed.

Lemma life_run_app : forall a b L,
    life_run L (a ++ b) = match life_run L a with Some L1 => life_run L1 b | None => None end.
Proof.
  induction a as [|n a IH]; intros b L; [reflexivity|]. cbn [app life_run].
  destruct (life_step L n); [apply IH|reflexivity].
Qed.

Definition Acc (L0 : life) (g : G) (L : life) : Prop := life_run L0 (N g) = Some L.

Lemma Acc_app : forall L0 g g' L L' ns,
    Acc L0 g L -> N g' = N g ++ ns -> life_run L ns = Some L' -> Acc L0 g' L'.
Proof. unfold Acc. intros L0 g g' L L' ns H1 H2 H3. rewrite H2, life_run_app, H1. exact H3. Qed.

Lemma Acc_same : forall L0 g g' L, Acc L0 g L -> N g' = N g -> Acc L0 g' L.
Proof. unfold Acc. intros. congruence. Qed.

(* permutation goals over lists of instances, by counting *)
Ltac perm :=
  try (let tk := fresh "tk" in intro tk;
       repeat match goal with H : forall _ : bool, Permutation _ _ |- _ => specialize (H tk) end);
  apply (proj2 (Permutation_count_occ oi_dec _ _));
  let x := fresh "x" in intro x;
  repeat match goal with
         | H : Permutation ?a ?b |- _ =>
           generalize (proj1 (Permutation_count_occ oi_dec a b) H x); clear H
         end;
  rewrite ?count_occ_app; intros; lia.

(* ===================================================================== *)
(* 3. the open instances of a run-time state                               *)
(* ===================================================================== *)
(* [opn true]: task instances started and not finished; [opn false]: services announced
   and not finished; read off the state tree next to the program tree *)
Fixpoint opn (tk : bool) (ctx : nat) (s : xstmt) (st : rst) {struct st} : list open_inst :=
  match st, s with
  | RAwait id, XService n at_ _ => if tk then [] else [inst id (Some ctx) n at_]
  | RCall id i st', XCall t at_ _ body =>
    (if tk then [inst id (Some ctx) t at_] else []) ++
    match nth_error body i with Some s' => opn tk id s' st' | None => [] end
  | RPar sts, XParallel bs =>
    (fix zip (sts : list rst) (bs : list xstmt) {struct sts} : list open_inst :=
       match sts, bs with
       | st1 :: sr, b :: br => opn tk ctx b st1 ++ zip sr br
       | _, _ => []
       end) sts bs
  | RCond b i st', XCond _ p fl =>
    match nth_error (if b then p else fl) i with Some s' => opn tk ctx s' st' | None => [] end
  | RLoop _ i st', XWhile _ body =>
    match nth_error body i with Some s' => opn tk ctx s' st' | None => [] end
  | RLoop _ i st', XCount _ _ body =>
    match nth_error body i with Some s' => opn tk ctx s' st' | None => [] end
  | RParLoop sts, XParLoop _ _ c =>
    (fix go (sts : list rst) : list open_inst :=
       match sts with
       | st1 :: sr => opn tk ctx c st1 ++ go sr
       | [] => []
       end) sts
  | _, _ => []
  end.

Fixpoint opn_list (tk : bool) (ctx : nat) (bs : list xstmt) (sts : list rst) : list open_inst :=
  match sts, bs with
  | st1 :: sr, b :: br => opn tk ctx b st1 ++ opn_list tk ctx br sr
  | _, _ => []
  end.

Definition opn_opt (tk : bool) (ctx : nat) (ss : list xstmt) (r : option (nat * rst)) : list open_inst :=
  match r with
  | Some (i, st) => match nth_error ss i with Some s => opn tk ctx s st | None => [] end
  | None => []
  end.

Lemma opn_par : forall tk ctx bs sts, opn tk ctx (XParallel bs) (RPar sts) = opn_list tk ctx bs sts.
Proof.
  intros tk ctx bs sts. cbn [opn]. revert bs. induction sts as [|st sr IH]; intros [|b br]; try reflexivity.
  cbn [opn_list]. rewrite <- IH. reflexivity.
Qed.

Lemma opn_parloop : forall tk ctx v lim c sts,
    opn tk ctx (XParLoop v lim c) (RParLoop sts) = flat_map (opn tk ctx c) sts.
Proof.
  intros tk ctx v lim c sts. cbn [opn]. induction sts as [|st sr IH]; [reflexivity|].
  cbn [flat_map]. rewrite <- IH. reflexivity.
Qed.

Lemma opn_list_const : forall tk ctx c (l : list xstmt) sts,
    List.length sts = List.length l -> Forall (fun b => b = c) l ->
    opn_list tk ctx l sts = flat_map (opn tk ctx c) sts.
Proof.
  intros tk ctx c l sts. revert l. induction sts as [|st sr IH]; intros [|b br] Hl Hf; try discriminate; [reflexivity|].
  inversion Hf; subst. cbn [opn_list flat_map]. rewrite IH; auto.
Qed.

Lemma insts_snd : forall ie v c n, map snd (insts ie v c n) = repeat c n.
Proof.
  intros ie v c n. unfold insts. rewrite map_map. cbn [snd].
  generalize 0. induction n as [|n IH]; intro k; [reflexivity|]. cbn. rewrite IH. reflexivity.
Qed.

Lemma opn_list_insts : forall tk ctx ie v c n sts,
    List.length sts = n -> opn_list tk ctx (map snd (insts ie v c n)) sts = flat_map (opn tk ctx c) sts.
Proof.
  intros. rewrite insts_snd. apply opn_list_const.
  - rewrite repeat_length. assumption.
  - apply Forall_forall. intros x Hx. apply repeat_spec in Hx. exact Hx.
Qed.

Lemma opn_done : forall tk ctx s st, is_done st = true -> opn tk ctx s st = [].
Proof. intros tk ctx s st H. destruct st; try discriminate. reflexivity. Qed.

Lemma opn_list_done : forall tk ctx bs sts, all_done sts = true -> opn_list tk ctx bs sts = [].
Proof.
  intros tk ctx bs sts. revert bs. induction sts as [|st sr IH]; intros bs H; [destruct bs; reflexivity|].
  cbn in H. apply andb_true_iff in H. destruct H as [H1 H2]. destruct bs as [|b br]; [reflexivity|].
  cbn [opn_list]. rewrite (opn_done _ _ _ _ H1), IH; auto.
Qed.

Lemma flat_map_done : forall tk ctx c sts, all_done sts = true -> flat_map (opn tk ctx c) sts = [].
Proof.
  intros tk ctx c sts. induction sts as [|st sr IH]; intro H; [reflexivity|].
  cbn in H. apply andb_true_iff in H. destruct H as [H1 H2]. cbn [flat_map].
  rewrite (opn_done _ _ _ _ H1), IH; auto.
Qed.

Lemma map_snd_pair : forall (ie : ienv) (bs : list xstmt), map snd (map (fun b => (ie, b)) bs) = bs.
Proof. intros. rewrite map_map. cbn. apply map_id. Qed.

(* the context of every open instance of a tree is the surrounding task or a task of the tree *)
Definition ctx_in (ctx : nat) (B : bool -> list open_inst) : Prop :=
  forall tk o, In o (B tk) ->
               oi_ctx o = Some ctx \/ exists t, oi_ctx o = Some t /\ In t (map oi_id (B true)).

Lemma ctx_in_app : forall ctx A B, ctx_in ctx A -> ctx_in ctx B -> ctx_in ctx (fun tk => A tk ++ B tk).
Proof.
  intros ctx A B HA HB tk o Hi. apply in_app_iff in Hi. destruct Hi as [Hi|Hi].
  - destruct (HA _ _ Hi) as [H|(t & H1 & H2)]; [left; exact H|right].
    exists t. split; [exact H1|]. rewrite map_app. apply in_or_app. left. exact H2.
  - destruct (HB _ _ Hi) as [H|(t & H1 & H2)]; [left; exact H|right].
    exists t. split; [exact H1|]. rewrite map_app. apply in_or_app. right. exact H2.
Qed.

Lemma ctx_in_nil : forall ctx, ctx_in ctx (fun _ => []).
Proof. intros ctx tk o []. Qed.

Lemma opn_ctx : forall st s ctx, ctx_in ctx (fun tk => opn tk ctx s st).
Proof.
  induction st using rst_ind'; intros s0 ctx; destruct s0 as [n at_ ins|t at_ ins body|bs|e p fl|e b0|v lim b0|v lim c];
    try apply ctx_in_nil.
  - (* await *) intros tk o Hi. cbn [opn] in Hi. destruct tk; [contradiction|].
    destruct Hi as [<-|[]]. left. reflexivity.
  - (* call *) intros tk o Hi. cbn [opn] in Hi. apply in_app_iff in Hi. destruct Hi as [Hi|Hi].
    + destruct tk; [|contradiction]. destruct Hi as [<-|[]]. left. reflexivity.
    + right. cbn [opn]. destruct (nth_error body i) as [s'|]; [|contradiction].
      destruct (IHst s' id _ _ Hi) as [H|(t0 & H1 & H2)].
      * exists id. split; [exact H|]. left. reflexivity.
      * exists t0. split; [exact H1|]. cbn [app map]. right. exact H2.
  - (* par *)
    assert (Q : forall bs0, ctx_in ctx (fun tk => opn_list tk ctx bs0 sts)).
    { induction H as [|st sr Hst Hsr IH]; intros [|b br]; try apply ctx_in_nil.
      cbn [opn_list]. apply (ctx_in_app ctx (fun tk => opn tk ctx b st) (fun tk => opn_list tk ctx br sr)).
      - apply Hst.
      - apply IH. }
    intros tk o Hi. rewrite opn_par in Hi. destruct (Q bs _ _ Hi) as [Hl|(t0 & H1 & H2)]; [left; exact Hl|right].
    exists t0. split; [exact H1|]. rewrite opn_par. exact H2.
  - cbn [opn]. destruct (nth_error (if b then p else fl) i); [apply IHst|apply ctx_in_nil].
  - cbn [opn]. destruct (nth_error b0 i); [apply IHst|apply ctx_in_nil].
  - cbn [opn]. destruct (nth_error b0 i); [apply IHst|apply ctx_in_nil].
  - assert (Q : ctx_in ctx (fun tk => flat_map (opn tk ctx c) sts)).
    { induction H as [|st sr Hst Hsr IH]; [apply ctx_in_nil|].
      cbn [flat_map]. apply (ctx_in_app ctx (fun tk => opn tk ctx c st) (fun tk => flat_map (opn tk ctx c) sr)).
      - apply Hst.
      - apply IH. }
    intros tk o Hi. rewrite opn_parloop in Hi. destruct (Q _ _ Hi) as [Hl|(t0 & H1 & H2)]; [left; exact Hl|right].
    exists t0. split; [exact H1|]. rewrite opn_parloop. exact H2.
Qed.

Lemma opn_list_ctx : forall sts bs ctx, ctx_in ctx (fun tk => opn_list tk ctx bs sts).
Proof.
  induction sts as [|st sr IH]; intros [|b br] ctx; try apply ctx_in_nil.
  cbn [opn_list]. apply (ctx_in_app ctx (fun tk => opn tk ctx b st) (fun tk => opn_list tk ctx br sr)).
  - apply opn_ctx.
  - apply IH.
Qed.
