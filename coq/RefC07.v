(* RefC07.v — every run of the reference semantics satisfies the lifecycle monitor
   holds_C07: started / finished notifications are balanced, nested, attributed to the
   right instance, identifiers are fresh, the production task is first, service-finished
   is issued in the call that delivers the completion, and nothing is left open when the
   order is final.  Proof file. *)
From PFDL Require Import RefSem RunCase Monitors RefBase RefClosure RefShape RefC01 Examples.
From Coq Require Import Lia Permutation.

(* ===================================================================== *)
(* 1. what function 0 was told, as a function of the bookkeeping state     *)
(* ===================================================================== *)
Definition N (g : G) : list notif := map fst (ee_notifs (rev (g_log g))).

Lemma ee_app : forall a b, ee_notifs (a ++ b) = ee_notifs a ++ ee_notifs b.
Proof. intros. unfold ee_notifs. apply flat_map_app. Qed.

Lemma ee_listeners : forall n r ls,
    ee_notifs (map (fun l => ENotif l n r) ls) = repeat (n, r) (count_occ Nat.eq_dec ls 0).
Proof.
  intros n r ls. induction ls as [|l ls IH]; [reflexivity|].
  cbn [map]. rewrite ee_cons. cbn [count_occ]. destruct l as [|l].
  - destruct (Nat.eq_dec 0 0); [|congruence]. cbn [repeat app]. rewrite IH. reflexivity.
  - destruct (Nat.eq_dec (S l) 0); [discriminate|]. cbn [app]. exact IH.
Qed.

Lemma ee_obs : forall (f : nat -> entry) os,
    (forall o, match f o with ENotif _ _ _ => False | _ => True end) -> ee_notifs (map f os) = [].
Proof.
  intros f os H. induction os as [|o os IH]; [reflexivity|].
  cbn [map]. rewrite ee_cons, IH. specialize (H o). destruct (f o); try reflexivity. contradiction.
Qed.

Lemma N_log : forall g g' new, g_log g' = rev new ++ g_log g -> N g' = N g ++ map fst (ee_notifs new).
Proof.
  intros g g' new H. unfold N. rewrite H, rev_app_distr, rev_involutive, ee_app, map_app. reflexivity.
Qed.

Lemma N_same : forall g g', g_log g' = g_log g -> N g' = N g.
Proof. intros g g' H. unfold N. rewrite H. reflexivity. Qed.

Lemma emit_N : forall n flag g u g',
    emit_gen n flag g = Ok (u, g') -> lst_all (g_ls g) ->
    N g' = N g ++ [n].
Proof.
  intros n flag g u g' H Hl. unfold emit_gen in H. apply log_entries_eff in H.
  destruct H as (_ & _ & _ & _ & _ & _ & _ & _ & H9).
  rewrite (N_log _ _ _ H9), ee_app, ee_listeners, (Hl (n_kind n)), ee_obs by (intro; exact I).
  reflexivity.
Qed.

Lemma emit_frame : forall n flag g u g',
    emit_gen n flag g = Ok (u, g') ->
    g_ls g' = g_ls g /\ g_tid g' = g_tid g /\ g_sid g' = g_sid g.
Proof.
  intros n flag g u g' H. apply emit_gen_facts in H.
  destruct H as (H1 & H2 & H3 & H4 & H5 & _). auto.
Qed.

Section Quiet.
  Variable orc : oracle.

  Lemma queries_N : forall vs ctx g u g', log_queries vs ctx g = Ok (u, g') -> N g' = N g.
  Proof.
    induction vs as [|v vs IH]; intros ctx g u g' H; cbn [log_queries] in H.
    - mstep. reflexivity.
    - mstep as u1 g1 E1. unfold log_entry in E1. apply log_entries_eff in E1.
      destruct E1 as (_ & _ & _ & _ & _ & _ & _ & _ & H9).
      rewrite (IH _ _ _ _ H). rewrite (N_log _ _ _ H9). cbn. apply app_nil_r.
  Qed.

  Lemma decide_N : forall e ctx g b g', decide_m orc e ctx g = Ok (b, g') -> N g' = N g.
  Proof.
    intros e ctx g b g' H. unfold decide_m in H.
    destruct (decide expected_ops orc e (g_q g)) as [[b0 k']| | |]; try discriminate.
    mstep as u1 g1 E1. apply queries_N in E1. mstep as u2 g2 E2. unfold set_q in E2. inv E2. mstep.
    exact E1.
  Qed.

  Lemma limit_N : forall l ctx g n g', read_limit orc l ctx g = Ok (n, g') -> N g' = N g.
  Proof.
    intros l ctx g n g' H. destruct l as [k|v p]; cbn [read_limit] in H.
    - mstep. reflexivity.
    - destruct (orc (g_q g) v) as [x|]; [|discriminate].
      destruct (resolve x p) as [[q| | |]| | |]; try discriminate.
      destruct (Pos.eqb (Qden q) 1); [|discriminate].
      mstep as u1 g1 E1. unfold log_entry in E1. apply log_entries_eff in E1.
      destruct E1 as (_ & _ & _ & _ & _ & _ & _ & _ & H9).
      mstep as u2 g2 E2. unfold set_q in E2. inv E2. mstep.
      change (N (g1 <| g_q := S (g_q g) |>)) with (N g1).
      rewrite (N_log _ _ _ H9). cbn. apply app_nil_r.
  Qed.
End Quiet.

(* the three macro steps that notify *)
Lemma service_N : forall (imm : nat -> bool) n at_ ins ctx ie g st g',
    (id <- fresh_s ;;
     await id ;;;
     emit (mk SS n at_ id (Some ctx) (subst_params ie ins)) ;;;
     k <- tick_ss ;;
     if imm k
     then unawait id ;;; emit (mk SF n at_ id (Some ctx) (subst_params ie ins)) ;;; ret RDone
     else ret (RAwait id)) g = Ok (st, g') ->
    g_ls g' = g_ls g /\ g_tid g' = g_tid g /\ g_sid g' = S (g_sid g) /\
    (lst_all (g_ls g) ->
     (st = RAwait (g_sid g) /\ N g' = N g ++ [mk SS n at_ (g_sid g) (Some ctx) (subst_params ie ins)]) \/
     (st = RDone /\ N g' = N g ++ [mk SS n at_ (g_sid g) (Some ctx) (subst_params ie ins);
                                    mk SF n at_ (g_sid g) (Some ctx) (subst_params ie ins)])).
Proof.
  intros imm n at_ ins ctx ie g st g' H.
  mstep as id g1 E1. unfold fresh_s in E1. inv E1.
  mstep as u2 g2 E2. unfold await, set_awaited in E2. inv E2.
  mstep as u3 g3 E3. pose proof (emit_frame _ _ _ _ _ E3) as (A1 & A2 & A3).
  pose proof (emit_N _ _ _ _ _ E3) as A4. cbn in A1, A2, A3.
  mstep as k g4 E4. unfold tick_ss in E4. inv E4.
  destruct (imm (g_ss g3)).
  - mstep as u5 g5 E5. unfold unawait in E5.
    match type of E5 with match ?X with _ => _ end = _ => destruct X as [l|] end; [|discriminate].
    unfold set_awaited in E5. inv E5.
    mstep as u6 g6 E6. pose proof (emit_frame _ _ _ _ _ E6) as (B1 & B2 & B3).
    pose proof (emit_N _ _ _ _ _ E6) as B4. cbn in B1, B2, B3. mstep.
    split; [congruence|]. split; [congruence|]. split; [congruence|].
    intro Hl. right. split; [reflexivity|].
    rewrite B4 by (cbn; rewrite A1; exact Hl).
    match goal with |- N ?x ++ _ = _ => change (N x) with (N g3) end.
    rewrite A4 by exact Hl.
    match goal with |- (N ?x ++ _) ++ _ = _ => change (N x) with (N g) end.
    rewrite <- app_assoc. reflexivity.
  - mstep. split; [exact A1|]. split; [exact A2|]. split; [exact A3|].
    intro Hl. left. split; [reflexivity|].
    match goal with |- N ?x = _ => change (N x) with (N g3) end.
    rewrite A4 by exact Hl. reflexivity.
Qed.

Lemma tstart_N : forall t at_ ctx ps g id g1 u g2,
    fresh_t g = Ok (id, g1) -> emit (mk TS t at_ id ctx ps) g1 = Ok (u, g2) ->
    id = g_tid g /\ g_ls g2 = g_ls g /\ g_tid g2 = S (g_tid g) /\ g_sid g2 = g_sid g /\
    (lst_all (g_ls g) -> N g2 = N g ++ [mk TS t at_ (g_tid g) ctx ps]).
Proof.
  intros t at_ ctx ps g id g1 u g2 E1 E2. unfold fresh_t in E1. inv E1.
  pose proof (emit_frame _ _ _ _ _ E2) as (A1 & A2 & A3). pose proof (emit_N _ _ _ _ _ E2) as A4.
  cbn in A1, A2, A3. split; [reflexivity|]. split; [exact A1|]. split; [exact A2|]. split; [exact A3|].
  intro Hl. rewrite A4 by exact Hl. reflexivity.
Qed.

(* ===================================================================== *)
(* 2. the monitor's side: steps of [life_step] on well-formed states       *)
(* ===================================================================== *)
Definition inst (id : nat) (ctx : option nat) (nm : name) (at_ : site) : open_inst :=
  {| oi_id := id; oi_ctx := ctx; oi_name := nm; oi_site := at_ |}.

Definition site_dec : forall a b : site, {a = b} + {a <> b}.
Proof. decide equality; [apply (list_eq_dec Nat.eq_dec)|apply Nat.eq_dec]. Defined.

Definition oi_dec : forall a b : open_inst, {a = b} + {a <> b}.
Proof.
  decide equality; try apply site_dec; try apply Nat.eq_dec.
  decide equality. apply Nat.eq_dec.
Defined.

Lemma list_eqb_nat_eq : forall a b, list_eqb Nat.eqb a b = true <-> a = b.
Proof.
  induction a as [|x a IH]; intros [|y b]; cbn; split; intro H; try discriminate; try reflexivity.
  - apply andb_true_iff in H. destruct H as [H1 H2]. apply Nat.eqb_eq in H1. apply IH in H2. congruence.
  - inv H. rewrite Nat.eqb_refl. cbn. apply IH. reflexivity.
Qed.

Lemma oi_eqb_eq : forall a b, oi_eqb a b = true <-> a = b.
Proof.
  intros [i1 c1 n1 [t1 p1]] [i2 c2 n2 [t2 p2]]. unfold oi_eqb, site_eqb. cbn.
  split; intro H.
  - apply andb_true_iff in H. destruct H as [H H4]. apply andb_true_iff in H. destruct H as [H H3].
    apply andb_true_iff in H. destruct H as [H1 H2]. apply andb_true_iff in H4. destruct H4 as [H4 H5].
    apply Nat.eqb_eq in H1, H3, H4. apply list_eqb_nat_eq in H5.
    assert (c1 = c2).
    { destruct c1, c2; cbn in H2; try discriminate; [apply Nat.eqb_eq in H2; congruence|reflexivity]. }
    congruence.
  - inv H. rewrite !Nat.eqb_refl. cbn.
    assert (list_eqb Nat.eqb p2 p2 = true) as -> by (apply list_eqb_nat_eq; reflexivity).
    destruct c2; cbn; [rewrite Nat.eqb_refl|]; reflexivity.
Qed.

Lemma remove_first_perm : forall A (p : A -> bool) l l',
    remove_first p l = Some l' -> exists y, p y = true /\ Permutation l ([y] ++ l').
Proof.
  induction l as [|x l IH]; intros l' H; cbn in H; [discriminate|].
  destruct (p x) eqn:E.
  - inv H. exists x. split; [exact E|apply Permutation_refl].
  - destruct (remove_first p l) as [t|]; [|discriminate]. inv H.
    destruct (IH _ eq_refl) as (y & Hy & Hp). exists y. split; [exact Hy|].
    cbn. eapply perm_trans; [apply perm_skip; exact Hp|]. cbn. apply perm_swap.
Qed.

Lemma remove_first_some : forall A (p : A -> bool) l y,
    In y l -> p y = true -> exists l', remove_first p l = Some l'.
Proof.
  induction l as [|x l IH]; intros y Hi Hp; [contradiction|]. cbn.
  destruct (p x) eqn:E; [eexists; reflexivity|].
  destruct Hi as [->|Hi]; [congruence|].
  destruct (IH _ Hi Hp) as (l' & ->). eexists; reflexivity.
Qed.

Lemma remove_inst : forall x l rest,
    Permutation l ([x] ++ rest) ->
    exists l', remove_first (oi_eqb x) l = Some l' /\ Permutation l' rest.
Proof.
  intros x l rest Hp.
  assert (Hi : In x l).
  { eapply Permutation_in; [apply Permutation_sym; exact Hp|]. left; reflexivity. }
  destruct (remove_first_some _ (oi_eqb x) l x Hi (proj2 (oi_eqb_eq x x) eq_refl)) as (l' & Hr).
  exists l'. split; [exact Hr|].
  destruct (remove_first_perm _ _ _ _ Hr) as (y & Hy & Hq). apply oi_eqb_eq in Hy. subst y.
  apply Permutation_cons_inv with (a := x). cbn in *.
  eapply perm_trans; [apply Permutation_sym; exact Hq|exact Hp].
Qed.

Lemma mem_lt_false : forall l n, Forall (fun x => x < n) l -> mem n l = false.
Proof.
  induction l as [|x l IH]; intros n H; [reflexivity|]. inversion H; subst. cbn.
  rewrite (IH _ H3). destruct (Nat.eqb n x) eqn:E; [apply Nat.eqb_eq in E; lia|reflexivity].
Qed.

Definition sel (tk : bool) (L : life) : list open_inst := if tk then lf_tasks L else lf_svcs L.

Definition copen (ctx : nat) (l : list open_inst) : Prop := exists o, In o l /\ oi_id o = ctx.

Lemma copen_ctx_open : forall ctx L, copen ctx (lf_tasks L) -> ctx_open (Some ctx) L = true.
Proof.
  intros ctx L (o & Hi & He). cbn. apply existsb_exists. exists o. split; [exact Hi|].
  apply Nat.eqb_eq. exact He.
Qed.

Lemma copen_perm : forall ctx l l', Permutation l l' -> copen ctx l -> copen ctx l'.
Proof. intros ctx l l' Hp (o & Hi & He). exists o. split; [eapply Permutation_in; eassumption|exact He]. Qed.

Record W (L : life) (nt ns : nat) : Prop := {
  w_seen : lf_seen_any L = true;
  w_ut : Forall (fun x => x < nt) (lf_used_t L);
  w_us : Forall (fun x => x < ns) (lf_used_s L);
  w_ctx : forall tk o c, In o (sel tk L) -> oi_ctx o = Some c -> c < nt;
  w_ids : Forall (fun o => oi_id o < nt) (lf_tasks L);
  w_nd : NoDup (map oi_id (lf_tasks L))
}.

Lemma Forall_lt_mono : forall A (f : A -> nat) l a b,
    a <= b -> Forall (fun x => f x < a) l -> Forall (fun x => f x < b) l.
Proof. intros A f l a b Hab H. eapply Forall_impl; [|exact H]. cbn. intros; lia. Qed.

Lemma W_mono : forall L nt ns nt' ns', W L nt ns -> nt <= nt' -> ns <= ns' -> W L nt' ns'.
Proof.
  intros L nt ns nt' ns' [] H1 H2. constructor; auto.
  - eapply (Forall_lt_mono _ (fun x => x)); eassumption.
  - eapply (Forall_lt_mono _ (fun x => x)); eassumption.
  - intros tk o c Hi Hc. specialize (w_ctx0 _ _ _ Hi Hc). lia.
  - eapply Forall_lt_mono; eassumption.
Qed.

Lemma NoDup_app_r : forall A (a b : list A), NoDup (a ++ b) -> NoDup b.
Proof. induction a as [|x a IH]; intros b H; [exact H|]. inversion H; subst. apply IH. assumption. Qed.

(* a monitor state whose open lists are sub-multisets of a well-formed one *)
Lemma W_sub : forall L L1 nt ns (R : bool -> list open_inst) (X : bool -> list open_inst),
    W L nt ns ->
    lf_seen_any L1 = true -> lf_used_t L1 = lf_used_t L -> lf_used_s L1 = lf_used_s L ->
    (forall tk, Permutation (sel tk L) (X tk ++ R tk)) ->
    (forall tk, Permutation (sel tk L1) (R tk)) ->
    W L1 nt ns.
Proof.
  intros L L1 nt ns R X [] Hs Ht Hu HL H1.
  assert (Hin : forall tk o, In o (sel tk L1) -> In o (sel tk L)).
  { intros tk o Hi. eapply Permutation_in; [apply Permutation_sym; apply HL|].
    apply in_or_app. right. eapply Permutation_in; [apply H1|exact Hi]. }
  constructor; try congruence.
  - intros tk o c Hi Hc. eapply w_ctx0; [apply Hin; exact Hi|exact Hc].
  - apply Forall_forall. intros o Hi. rewrite Forall_forall in w_ids0. apply w_ids0. apply (Hin true). exact Hi.
  - assert (P : Permutation (map oi_id (lf_tasks L)) (map oi_id (X true) ++ map oi_id (lf_tasks L1))).
    { rewrite <- map_app. apply Permutation_map. eapply perm_trans; [apply (HL true)|].
      apply Permutation_app_head. apply Permutation_sym. apply (H1 true). }
    pose proof (Permutation_NoDup P w_nd0) as ND. apply NoDup_app_r in ND. exact ND.
Qed.

Lemma life_TS : forall L nt ns t at_ ctx ps,
    W L nt ns -> copen ctx (lf_tasks L) ->
    exists L1, life_step L (mk TS t at_ nt (Some ctx) ps) = Some L1 /\ W L1 (S nt) ns /\
               forall tk, Permutation (sel tk L1) ((if tk then [inst nt (Some ctx) t at_] else []) ++ sel tk L).
Proof.
  intros L nt ns t at_ ctx ps HW Hc. pose proof HW as [].
  unfold life_step. cbn [mk n_kind n_ctx n_id].
  rewrite w_seen0, (copen_ctx_open _ _ Hc), (mem_lt_false _ _ w_ut0). cbn [andb negb].
  eexists. split; [reflexivity|]. split.
  - constructor; cbn; auto.
    + constructor; [lia|]. eapply (Forall_lt_mono _ (fun x => x)); [|eassumption]. lia.
    + intros tk o c Hi Hcx. destruct tk; cbn in Hi.
      * destruct Hi as [<-|Hi].
        -- cbn in Hcx. inv Hcx. destruct Hc as (o & Hi & He). rewrite Forall_forall in w_ids0.
           specialize (w_ids0 _ Hi). lia.
        -- specialize (w_ctx0 true _ _ Hi Hcx). lia.
      * specialize (w_ctx0 false _ _ Hi Hcx). lia.
    + constructor; [cbn; lia|]. eapply Forall_lt_mono; [|eassumption]. lia.
    + constructor; [|exact w_nd0]. intro Hi. apply in_map_iff in Hi. destruct Hi as (o & He & Hi).
      rewrite Forall_forall in w_ids0. specialize (w_ids0 _ Hi). lia.
  - intros [|]; cbn; apply Permutation_refl.
Qed.

Lemma life_SS : forall L nt ns n at_ ctx ps,
    W L nt ns -> copen ctx (lf_tasks L) ->
    exists L1, life_step L (mk SS n at_ ns (Some ctx) ps) = Some L1 /\ W L1 nt (S ns) /\
               forall tk, Permutation (sel tk L1) ((if tk then [] else [inst ns (Some ctx) n at_]) ++ sel tk L).
Proof.
  intros L nt ns n at_ ctx ps HW Hc. pose proof HW as [].
  unfold life_step. cbn [mk n_kind n_ctx n_id].
  rewrite (copen_ctx_open _ _ Hc), (mem_lt_false _ _ w_us0). cbn [andb negb].
  eexists. split; [reflexivity|]. split.
  - constructor; cbn; auto.
    + constructor; [lia|]. eapply (Forall_lt_mono _ (fun x => x)); [|eassumption]. lia.
    + intros tk o c Hi Hcx. destruct tk; cbn in Hi.
      * apply (w_ctx0 true _ _ Hi Hcx).
      * destruct Hi as [<-|Hi].
        -- cbn in Hcx. inv Hcx. destruct Hc as (o & Hi & He). rewrite Forall_forall in w_ids0.
           specialize (w_ids0 _ Hi). lia.
        -- apply (w_ctx0 false _ _ Hi Hcx).
  - intros [|]; cbn; apply Permutation_refl.
Qed.

Lemma life_SF : forall L nt ns n at_ id ctx ps (R : bool -> list open_inst),
    W L nt ns ->
    (forall tk, Permutation (sel tk L) ((if tk then [] else [inst id ctx n at_]) ++ R tk)) ->
    exists L1, life_step L (mk SF n at_ id ctx ps) = Some L1 /\ W L1 nt ns /\
               forall tk, Permutation (sel tk L1) (R tk).
Proof.
  intros L nt ns n at_ id ctx ps R HW HP.
  unfold life_step. cbn [mk n_kind]. unfold oi_of. cbn [mk n_id n_ctx n_name n_site].
  destruct (remove_inst _ _ _ (HP false)) as (l' & Hr & Hq). fold (inst id ctx n at_).
  cbn [sel] in Hr. rewrite Hr. eexists. split; [reflexivity|].
  assert (HP1 : forall tk, Permutation
       (sel tk {| lf_tasks := lf_tasks L; lf_svcs := l'; lf_used_t := lf_used_t L;
                  lf_used_s := lf_used_s L; lf_seen_any := true |}) (R tk)).
  { intros [|]; cbn; [exact (HP true)|exact Hq]. }
  split; [|exact HP1].
  eapply W_sub; [exact HW|reflexivity|reflexivity|reflexivity|exact HP|exact HP1].
Qed.

Lemma life_TF : forall L nt ns t at_ id ctx ps (R : bool -> list open_inst),
    W L nt ns ->
    (forall tk, Permutation (sel tk L) ((if tk then [inst id ctx t at_] else []) ++ R tk)) ->
    (forall tk o, In o (R tk) -> oi_ctx o <> Some id) ->
    exists L1, life_step L (mk TF t at_ id ctx ps) = Some L1 /\ W L1 nt ns /\
               forall tk, Permutation (sel tk L1) (R tk).
Proof.
  intros L nt ns t at_ id ctx ps R HW HP Hsep.
  unfold life_step. cbn [mk n_kind]. unfold oi_of. cbn [mk n_id n_ctx n_name n_site].
  destruct (remove_inst _ _ _ (HP true)) as (l' & Hr & Hq). fold (inst id ctx t at_).
  cbn [sel] in Hr. rewrite Hr.
  assert (HP1 : forall tk, Permutation
       (sel tk {| lf_tasks := l'; lf_svcs := lf_svcs L; lf_used_t := lf_used_t L;
                  lf_used_s := lf_used_s L; lf_seen_any := true |}) (R tk)).
  { intros [|]; cbn; [exact Hq|exact (HP false)]. }
  assert (Hc : forall tk, existsb (fun o => option_eqb Nat.eqb (oi_ctx o) (Some id))
     (sel tk {| lf_tasks := l'; lf_svcs := lf_svcs L; lf_used_t := lf_used_t L;
                  lf_used_s := lf_used_s L; lf_seen_any := true |}) = false).
  { intro tk. match goal with |- ?X = false => destruct X eqn:E end; [|reflexivity].
    apply existsb_exists in E. destruct E as (o & Hi & He). exfalso.
    apply (Hsep tk o); [eapply Permutation_in; [apply HP1|exact Hi]|].
    destruct (oi_ctx o) as [c|]; cbn in He; [|discriminate]. apply Nat.eqb_eq in He. congruence. }
  unfold has_open_child. pose proof (Hc true) as C1. pose proof (Hc false) as C2. cbn [sel lf_tasks lf_svcs] in C1, C2.
  cbn [lf_tasks lf_svcs]. rewrite C1, C2. cbn [orb].
  eexists. split; [reflexivity|]. split; [|exact HP1].
  eapply W_sub; [exact HW|reflexivity|reflexivity|reflexivity|exact HP|exact HP1].
Qed.

Lemma life_run_app : forall a b L,
    life_run L (a ++ b) = match life_run L a with Some L1 => life_run L1 b | None => None end.
Proof.
  induction a as [|n a IH]; intros b L; [reflexivity|]. cbn [app life_run].
  destruct (life_step L n); [apply IH|reflexivity].
Qed.

Definition Acc (L0 : life) (g : G) (L : life) : Prop := life_run L0 (N g) = Some L.

Lemma Acc_app : forall L0 g g' L L' ns,
    Acc L0 g L -> N g' = N g ++ ns -> life_run L ns = Some L' -> Acc L0 g' L'.
Proof. unfold Acc. intros L0 g g' L L' ns H1 H2 H3. rewrite H2, life_run_app, H1. exact H3. Qed.

Lemma Acc_same : forall L0 g g' L, Acc L0 g L -> N g' = N g -> Acc L0 g' L.
Proof. unfold Acc. intros. congruence. Qed.

Lemma cnt_nil : forall x, count_occ oi_dec [] x = 0.
Proof. reflexivity. Qed.

(* permutation goals over lists of instances, by counting *)
Ltac perm :=
  try (let tk := fresh "tk" in intro tk;
       repeat match goal with H : forall _ : bool, Permutation _ _ |- _ => specialize (H tk) end);
  apply (proj2 (Permutation_count_occ oi_dec _ _));
  let x := fresh "x" in intro x;
  repeat match goal with
         | H : Permutation ?a ?b |- _ =>
           generalize (proj1 (Permutation_count_occ oi_dec a b) H x); clear H
         end;
  rewrite ?count_occ_app, ?cnt_nil; intros; lia.

(* ===================================================================== *)
(* 3. the open instances of a run-time state                               *)
(* ===================================================================== *)
(* [opn true]: task instances started and not finished; [opn false]: services announced
   and not finished; read off the state tree next to the program tree *)
Fixpoint opn (tk : bool) (ctx : nat) (s : xstmt) (st : rst) {struct st} : list open_inst :=
  match st, s with
  | RAwait id, XService n at_ _ => if tk then [] else [inst id (Some ctx) n at_]
  | RCall id i st', XCall t at_ _ body =>
    (if tk then [inst id (Some ctx) t at_] else []) ++
    match nth_error body i with Some s' => opn tk id s' st' | None => [] end
  | RPar sts, XParallel bs =>
    (fix zip (sts : list rst) (bs : list xstmt) {struct sts} : list open_inst :=
       match sts, bs with
       | st1 :: sr, b :: br => opn tk ctx b st1 ++ zip sr br
       | _, _ => []
       end) sts bs
  | RCond b i st', XCond _ p fl =>
    match nth_error (if b then p else fl) i with Some s' => opn tk ctx s' st' | None => [] end
  | RLoop _ i st', XWhile _ body =>
    match nth_error body i with Some s' => opn tk ctx s' st' | None => [] end
  | RLoop _ i st', XCount _ _ body =>
    match nth_error body i with Some s' => opn tk ctx s' st' | None => [] end
  | RParLoop sts, XParLoop _ _ c =>
    (fix go (sts : list rst) : list open_inst :=
       match sts with
       | st1 :: sr => opn tk ctx c st1 ++ go sr
       | [] => []
       end) sts
  | _, _ => []
  end.

Fixpoint opn_list (tk : bool) (ctx : nat) (bs : list xstmt) (sts : list rst) : list open_inst :=
  match sts, bs with
  | st1 :: sr, b :: br => opn tk ctx b st1 ++ opn_list tk ctx br sr
  | _, _ => []
  end.

Definition opn_opt (tk : bool) (ctx : nat) (ss : list xstmt) (r : option (nat * rst)) : list open_inst :=
  match r with
  | Some (i, st) => match nth_error ss i with Some s => opn tk ctx s st | None => [] end
  | None => []
  end.

Lemma opn_par : forall tk ctx bs sts, opn tk ctx (XParallel bs) (RPar sts) = opn_list tk ctx bs sts.
Proof.
  intros tk ctx bs sts. cbn [opn]. revert bs. induction sts as [|st sr IH]; intros [|b br]; try reflexivity.
  cbn [opn_list]. rewrite <- IH. reflexivity.
Qed.

Lemma opn_parloop : forall tk ctx v lim c sts,
    opn tk ctx (XParLoop v lim c) (RParLoop sts) = flat_map (opn tk ctx c) sts.
Proof.
  intros tk ctx v lim c sts. cbn [opn]. induction sts as [|st sr IH]; [reflexivity|].
  cbn [flat_map]. rewrite <- IH. reflexivity.
Qed.

Lemma opn_list_const : forall tk ctx c (l : list xstmt) sts,
    List.length sts = List.length l -> Forall (fun b => b = c) l ->
    opn_list tk ctx l sts = flat_map (opn tk ctx c) sts.
Proof.
  intros tk ctx c l sts. revert l. induction sts as [|st sr IH]; intros [|b br] Hl Hf; try discriminate; [reflexivity|].
  inversion Hf; subst. cbn [opn_list flat_map]. rewrite IH; auto.
Qed.

Lemma insts_snd : forall ie v c n, map snd (insts ie v c n) = repeat c n.
Proof.
  intros ie v c n. unfold insts. rewrite map_map. cbn [snd].
  generalize 0. induction n as [|n IH]; intro k; [reflexivity|]. cbn. rewrite IH. reflexivity.
Qed.

Lemma opn_list_insts : forall tk ctx ie v c n sts,
    List.length sts = n -> opn_list tk ctx (map snd (insts ie v c n)) sts = flat_map (opn tk ctx c) sts.
Proof.
  intros. rewrite insts_snd. apply opn_list_const.
  - rewrite repeat_length. assumption.
  - apply Forall_forall. intros x Hx. apply repeat_spec in Hx. exact Hx.
Qed.

Lemma opn_done : forall tk ctx s st, is_done st = true -> opn tk ctx s st = [].
Proof. intros tk ctx s st H. destruct st; try discriminate. reflexivity. Qed.

Lemma opn_list_done : forall tk ctx bs sts, all_done sts = true -> opn_list tk ctx bs sts = [].
Proof.
  intros tk ctx bs sts. revert bs. induction sts as [|st sr IH]; intros bs H; [destruct bs; reflexivity|].
  cbn in H. apply andb_true_iff in H. destruct H as [H1 H2]. destruct bs as [|b br]; [reflexivity|].
  cbn [opn_list]. rewrite (opn_done _ _ _ _ H1), IH; auto.
Qed.

Lemma flat_map_done : forall tk ctx c sts, all_done sts = true -> flat_map (opn tk ctx c) sts = [].
Proof.
  intros tk ctx c sts. induction sts as [|st sr IH]; intro H; [reflexivity|].
  cbn in H. apply andb_true_iff in H. destruct H as [H1 H2]. cbn [flat_map].
  rewrite (opn_done _ _ _ _ H1), IH; auto.
Qed.

Lemma map_snd_pair : forall (ie : ienv) (bs : list xstmt), map snd (map (fun b => (ie, b)) bs) = bs.
Proof. intros. rewrite map_map. cbn. apply map_id. Qed.

(* the context of every open instance of a tree is the surrounding task or a task of the tree *)
Definition ctx_in (ctx : nat) (B : bool -> list open_inst) : Prop :=
  forall tk o, In o (B tk) ->
               oi_ctx o = Some ctx \/ exists t, oi_ctx o = Some t /\ In t (map oi_id (B true)).

Lemma ctx_in_app : forall ctx A B, ctx_in ctx A -> ctx_in ctx B -> ctx_in ctx (fun tk => A tk ++ B tk).
Proof.
  intros ctx A B HA HB tk o Hi. apply in_app_iff in Hi. destruct Hi as [Hi|Hi].
  - destruct (HA _ _ Hi) as [H|(t & H1 & H2)]; [left; exact H|right].
    exists t. split; [exact H1|]. rewrite map_app. apply in_or_app. left. exact H2.
  - destruct (HB _ _ Hi) as [H|(t & H1 & H2)]; [left; exact H|right].
    exists t. split; [exact H1|]. rewrite map_app. apply in_or_app. right. exact H2.
Qed.

Lemma ctx_in_nil : forall ctx, ctx_in ctx (fun _ => []).
Proof. intros ctx tk o []. Qed.

Lemma opn_ctx : forall st s ctx, ctx_in ctx (fun tk => opn tk ctx s st).
Proof.
  induction st using rst_ind'; intros s0 ctx; destruct s0 as [n at_ ins|t at_ ins body|bs|e p fl|e b0|v lim b0|v lim c];
    try apply ctx_in_nil.
  - (* await *) intros tk o Hi. cbn [opn] in Hi. destruct tk; [contradiction|].
    destruct Hi as [<-|[]]. left. reflexivity.
  - (* call *) intros tk o Hi. cbn [opn] in Hi. apply in_app_iff in Hi. destruct Hi as [Hi|Hi].
    + destruct tk; [|contradiction]. destruct Hi as [<-|[]]. left. reflexivity.
    + right. cbn [opn]. destruct (nth_error body i) as [s'|]; [|contradiction].
      destruct (IHst s' id _ _ Hi) as [H|(t0 & H1 & H2)].
      * exists id. split; [exact H|]. left. reflexivity.
      * exists t0. split; [exact H1|]. cbn [app map]. right. exact H2.
  - (* par *)
    assert (Q : forall bs0, ctx_in ctx (fun tk => opn_list tk ctx bs0 sts)).
    { induction H as [|st sr Hst Hsr IH]; intros [|b br]; try apply ctx_in_nil.
      cbn [opn_list]. apply (ctx_in_app ctx (fun tk => opn tk ctx b st) (fun tk => opn_list tk ctx br sr)).
      - apply Hst.
      - apply IH. }
    intros tk o Hi. rewrite opn_par in Hi. destruct (Q bs _ _ Hi) as [Hl|(t0 & H1 & H2)]; [left; exact Hl|right].
    exists t0. split; [exact H1|]. rewrite opn_par. exact H2.
  - cbn [opn]. destruct (nth_error (if b then p else fl) i); [apply IHst|apply ctx_in_nil].
  - cbn [opn]. destruct (nth_error b0 i); [apply IHst|apply ctx_in_nil].
  - cbn [opn]. destruct (nth_error b0 i); [apply IHst|apply ctx_in_nil].
  - assert (Q : ctx_in ctx (fun tk => flat_map (opn tk ctx c) sts)).
    { induction H as [|st sr Hst Hsr IH]; [apply ctx_in_nil|].
      cbn [flat_map]. apply (ctx_in_app ctx (fun tk => opn tk ctx c st) (fun tk => flat_map (opn tk ctx c) sr)).
      - apply Hst.
      - apply IH. }
    intros tk o Hi. rewrite opn_parloop in Hi. destruct (Q _ _ Hi) as [Hl|(t0 & H1 & H2)]; [left; exact Hl|right].
    exists t0. split; [exact H1|]. rewrite opn_parloop. exact H2.
Qed.

Lemma opn_list_ctx : forall sts bs ctx, ctx_in ctx (fun tk => opn_list tk ctx bs sts).
Proof.
  induction sts as [|st sr IH]; intros [|b br] ctx; try apply ctx_in_nil.
  cbn [opn_list]. apply (ctx_in_app ctx (fun tk => opn tk ctx b st) (fun tk => opn_list tk ctx br sr)).
  - apply opn_ctx.
  - apply IH.
Qed.

(* frames: instances outside a tree never name a task of the tree as their context *)
Definition sep (F : bool -> list open_inst) (ids : list nat) : Prop :=
  forall tk o t, In o (F tk) -> In t ids -> oi_ctx o <> Some t.

Lemma sep_sub : forall F ids ids', sep F ids -> incl ids' ids -> sep F ids'.
Proof. intros F ids ids' H Hi tk o t Ho Ht. apply (H tk o t Ho). apply Hi. exact Ht. Qed.

Lemma sep_extend : forall (F B : bool -> list open_inst) (idsA : list nat) ctx,
    sep F idsA -> ctx_in ctx B -> ~ In ctx idsA ->
    (forall t, In t (map oi_id (B true)) -> ~ In t idsA) ->
    sep (fun tk => B tk ++ F tk) idsA.
Proof.
  intros F B idsA ctx HF HB Hc Hd tk o t Ho Ht. apply in_app_iff in Ho. destruct Ho as [Ho|Ho].
  - destruct (HB _ _ Ho) as [H|(t0 & H1 & H2)]; rewrite ?H, ?H1; intro X; inv X.
    + exact (Hc Ht).
    + exact (Hd _ H2 Ht).
  - exact (HF tk o t Ho Ht).
Qed.

Lemma NoDup_app_disj : forall (a b : list nat) t, NoDup (a ++ b) -> In t a -> In t b -> False.
Proof.
  induction a as [|x a IH]; intros b t H Ha Hb; [contradiction|]. cbn in H. inversion H; subst.
  destruct Ha as [->|Ha].
  - apply H2. apply in_or_app. right. exact Hb.
  - eapply IH; eassumption.
Qed.

Lemma nd_disj : forall (l a b : list open_inst) t,
    NoDup (map oi_id l) -> Permutation l (a ++ b) -> In t (map oi_id a) -> In t (map oi_id b) -> False.
Proof.
  intros l a b t Hn Hp Ha Hb. apply (Permutation_map oi_id) in Hp. rewrite map_app in Hp.
  eapply NoDup_app_disj; [eapply Permutation_NoDup; eassumption|exact Ha|exact Hb].
Qed.

(* ===================================================================== *)
(* 4. the start family: the monitor accepts, the new open instances are    *)
(*    exactly those of the returned state                                  *)
(* ===================================================================== *)
Definition Fr (g g' : G) : Prop := g_ls g' = g_ls g /\ g_tid g <= g_tid g' /\ g_sid g <= g_sid g'.

Lemma Eff_Fr : forall g g' ids, Eff g g' ids -> Fr g g'.
Proof. intros g g' ids []. repeat split; assumption. Qed.

Lemma copen_grow : forall ctx L L1 (A : bool -> list open_inst),
    copen ctx (lf_tasks L) -> (forall tk, Permutation (sel tk L1) (A tk ++ sel tk L)) -> copen ctx (lf_tasks L1).
Proof.
  intros ctx L L1 A (o & Hi & He) HP. exists o. split; [|exact He].
  eapply Permutation_in; [apply Permutation_sym; apply (HP true)|]. apply in_or_app. right. exact Hi.
Qed.

Definition SPost (L0 L : life) (g' : G) (new : bool -> list open_inst) : Prop :=
  exists L', Acc L0 g' L' /\ W L' (g_tid g') (g_sid g') /\
             forall tk, Permutation (sel tk L') (new tk ++ sel tk L).

Section Life.
  Variable orc : oracle.
  Variable imm : nat -> bool.

  Lemma start_list_length : forall f ctx l g sts g',
      start_list orc imm f ctx l g = Ok (sts, g') -> List.length sts = List.length l.
  Proof.
    induction f as [|f IH]; intros ctx l g sts g' H; [discriminate|]. cbn [start_list] in H.
    destruct l as [|[ie b] r]; [mstep; reflexivity|].
    mstep as st g1 E1. mstep as sts1 g2 E2. mstep. cbn. f_equal. eapply IH. exact E2.
  Qed.

  (* a quiet step in front of a computation *)
  Lemma pre_quiet : forall g g1 L0 L,
      Fr g g1 -> N g1 = N g ->
      lst_all (g_ls g) -> Acc L0 g L -> W L (g_tid g) (g_sid g) ->
      lst_all (g_ls g1) /\ Acc L0 g1 L /\ W L (g_tid g1) (g_sid g1).
  Proof.
    intros g g1 L0 L (F1 & F2 & F3) HN Hl HA HW. split; [rewrite F1; exact Hl|].
    split; [eapply Acc_same; eassumption|]. eapply W_mono; eassumption.
  Qed.

  Lemma start_life : forall f,
      (forall ctx ie s g st g' L0 L,
          start_stmt orc imm f ctx ie s g = Ok (st, g') ->
          lst_all (g_ls g) -> Acc L0 g L -> W L (g_tid g) (g_sid g) -> copen ctx (lf_tasks L) ->
          SPost L0 L g' (fun tk => opn tk ctx s st)) /\
      (forall ctx ie ss i g r g' L0 L,
          run_block orc imm f ctx ie ss i g = Ok (r, g') ->
          lst_all (g_ls g) -> Acc L0 g L -> W L (g_tid g) (g_sid g) -> copen ctx (lf_tasks L) ->
          SPost L0 L g' (fun tk => opn_opt tk ctx ss r)) /\
      (forall ctx l g sts g' L0 L,
          start_list orc imm f ctx l g = Ok (sts, g') ->
          lst_all (g_ls g) -> Acc L0 g L -> W L (g_tid g) (g_sid g) -> copen ctx (lf_tasks L) ->
          SPost L0 L g' (fun tk => opn_list tk ctx (map snd l) sts)) /\
      (forall ctx ie s k g st g' L0 L,
          loop_test orc imm f ctx ie s k g = Ok (st, g') ->
          lst_all (g_ls g) -> Acc L0 g L -> W L (g_tid g) (g_sid g) -> copen ctx (lf_tasks L) ->
          SPost L0 L g' (fun tk => opn tk ctx s st)).
  Proof.
    induction f as [|f IH]; [split; [|split; [|split]]; intros; discriminate|].
    destruct IH as (IHs & IHb & IHl & IHt).
    split; [|split; [|split]].
    - (* start_stmt *)
      intros ctx ie s g st g' L0 L H Hl HA HW Hc. cbn [start_stmt] in H.
      destruct s as [n at_ ins|t at_ ins body|bs|e p fl|e b|v lim b|v lim c].
      + (* service *)
        destruct (service_N _ _ _ _ _ _ _ _ _ H) as (A1 & A2 & A3 & A4).
        destruct (life_SS L _ _ n at_ ctx (subst_params ie ins) HW Hc) as (L1 & S1 & W1 & P1).
        destruct (A4 Hl) as [[-> HN]|[-> HN]].
        * exists L1. split; [|split].
          -- eapply Acc_app; [exact HA|exact HN|]. cbn [life_run]. rewrite S1. reflexivity.
          -- rewrite A2, A3. exact W1.
          -- exact P1.
        * destruct (life_SF L1 _ _ n at_ (g_sid g) (Some ctx) (subst_params ie ins) (fun tk => sel tk L) W1 P1)
            as (L2 & S2 & W2 & P2).
          exists L2. split; [|split].
          -- eapply Acc_app; [exact HA|exact HN|]. cbn [life_run]. rewrite S1, S2. reflexivity.
          -- rewrite A2, A3. exact W2.
          -- exact P2.
      + (* call *)
        mstep as id g1 E1. mstep as u2 g2 E2.
        destruct (tstart_N _ _ _ _ _ _ _ _ _ E1 E2) as (-> & B1 & B2 & B3 & B4). specialize (B4 Hl).
        destruct (life_TS L _ _ t at_ ctx (subst_params ie ins) HW Hc) as (L1 & S1 & W1 & P1).
        mstep as r g3 E3.
        pose proof (Eff_Fr _ _ _ (proj1 (proj2 (start_eff orc imm f)) _ _ _ _ _ _ _ E3)) as (F1 & F2 & F3).
        assert (HA1 : Acc L0 g2 L1).
        { eapply Acc_app; [exact HA|exact B4|]. cbn [life_run]. rewrite S1. reflexivity. }
        assert (Hc1 : copen (g_tid g) (lf_tasks L1)).
        { exists (inst (g_tid g) (Some ctx) t at_). split; [|reflexivity].
          eapply Permutation_in; [apply Permutation_sym; apply (P1 true)|]. left. reflexivity. }
        assert (W1' : W L1 (g_tid g2) (g_sid g2)) by (rewrite B2, B3; exact W1).
        assert (Hl2 : lst_all (g_ls g2)) by (rewrite B1; exact Hl).
        destruct (IHb _ _ _ _ _ _ _ _ _ E3 Hl2 HA1 W1' Hc1) as (L3 & A3 & W3 & P3).
        destruct r as [[i sti]|].
        * mstep. exists L3. split; [exact A3|]. split; [exact W3|].
          intro tk. change (opn tk ctx (XCall t at_ ins body) (RCall (g_tid g) i sti))
            with ((if tk then [inst (g_tid g) (Some ctx) t at_] else []) ++ opn_opt tk (g_tid g) body (Some (i, sti))).
          revert tk. perm.
        * mstep as u4 g4 E4. destruct (emit_frame _ _ _ _ _ E4) as (C1 & C2 & C3).
          pose proof (emit_N _ _ _ _ _ E4 ltac:(rewrite F1; exact Hl2)) as C4.
          destruct (life_TF L3 _ _ t at_ (g_tid g) (Some ctx) (subst_params ie ins) (fun tk => sel tk L) W3)
            as (L4 & S4 & W4 & P4).
          { cbn [opn_opt] in P3. perm. }
          { intros tk o Hi Hx. pose proof (w_ctx _ _ _ HW _ _ _ Hi Hx). lia. }
          mstep. exists L4. split; [|split].
          -- eapply Acc_app; [exact A3|exact C4|]. cbn [life_run]. rewrite S4. reflexivity.
          -- rewrite C2, C3. exact W4.
          -- exact P4.
      + (* parallel *)
        mstep as sts g1 E1.
        destruct (IHl _ _ _ _ _ _ _ E1 Hl HA HW Hc) as (L1 & A1 & W1 & P1).
        rewrite map_snd_pair in P1.
        destruct (all_done sts) eqn:D; mstep; exists L1; (split; [exact A1|]); (split; [exact W1|]).
        * intro tk. specialize (P1 tk). rewrite (opn_list_done _ _ _ _ D) in P1. exact P1.
        * intro tk. rewrite opn_par. apply P1.
      + (* condition *)
        mstep as bb g1 E1.
        destruct (pre_quiet _ _ _ _ (Eff_Fr _ _ _ (decide_m_eff _ _ _ _ _ _ E1)) (decide_N _ _ _ _ _ _ E1) Hl HA HW)
          as (Hl1 & HA1 & HW1).
        mstep as r g2 E2.
        destruct (IHb _ _ _ _ _ _ _ _ _ E2 Hl1 HA1 HW1 Hc) as (L2 & A2 & W2 & P2).
        destruct r as [[i sti]|]; mstep; exists L2; (split; [exact A2|]); (split; [exact W2|]); exact P2.
      + eapply IHt; eassumption.
      + eapply IHt; eassumption.
      + (* parallel loop *)
        mstep as n g1 E1.
        destruct (pre_quiet _ _ _ _ (Eff_Fr _ _ _ (read_limit_eff _ _ _ _ _ _ E1)) (limit_N _ _ _ _ _ _ E1) Hl HA HW)
          as (Hl1 & HA1 & HW1).
        mstep as sts g2 E2.
        destruct (IHl _ _ _ _ _ _ _ E2 Hl1 HA1 HW1 Hc) as (L2 & A2 & W2 & P2).
        pose proof (start_list_length _ _ _ _ _ _ E2) as Len. unfold insts in Len. rewrite map_length, seq_length in Len.
        destruct (all_done sts) eqn:D; mstep; exists L2; (split; [exact A2|]); (split; [exact W2|]).
        * intro tk. specialize (P2 tk). rewrite (opn_list_insts _ _ _ _ _ _ _ Len), (flat_map_done _ _ _ _ D) in P2. exact P2.
        * intro tk. specialize (P2 tk). rewrite (opn_list_insts _ _ _ _ _ _ _ Len) in P2. rewrite opn_parloop. exact P2.
    - (* run_block *)
      intros ctx ie ss i g r g' L0 L H Hl HA HW Hc. cbn [run_block] in H.
      destruct (nth_error ss i) as [s1|] eqn:Hn.
      + mstep as st g1 E1.
        pose proof (Eff_Fr _ _ _ (proj1 (start_eff orc imm f) _ _ _ _ _ _ E1)) as (F1 & F2 & F3).
        destruct (IHs _ _ _ _ _ _ _ _ E1 Hl HA HW Hc) as (L1 & A1 & W1 & P1).
        destruct (is_done st) eqn:D.
        * assert (Hl1 : lst_all (g_ls g1)) by (rewrite F1; exact Hl).
          pose proof (copen_grow _ _ _ _ Hc P1) as Hc1.
          destruct (IHb _ _ _ _ _ _ _ _ _ H Hl1 A1 W1 Hc1) as (L2 & A2 & W2 & P2).
          exists L2. split; [exact A2|]. split; [exact W2|].
          assert (P1' : forall tk, Permutation (sel tk L1) ([] ++ sel tk L)).
          { intro tk. rewrite <- (opn_done tk ctx s1 st D). apply P1. }
          clear P1. perm.
        * mstep. exists L1. split; [exact A1|]. split; [exact W1|].
          intro tk. cbn [opn_opt]. rewrite Hn. apply P1.
      + mstep. exists L. split; [exact HA|]. split; [exact HW|]. intro tk. apply Permutation_refl.
    - (* start_list *)
      intros ctx l g sts g' L0 L H Hl HA HW Hc. cbn [start_list] in H.
      destruct l as [|[ie b] r].
      + mstep. exists L. split; [exact HA|]. split; [exact HW|]. intro tk. apply Permutation_refl.
      + mstep as st g1 E1.
        pose proof (Eff_Fr _ _ _ (proj1 (start_eff orc imm f) _ _ _ _ _ _ E1)) as (F1 & F2 & F3).
        destruct (IHs _ _ _ _ _ _ _ _ E1 Hl HA HW Hc) as (L1 & A1 & W1 & P1).
        mstep as sts1 g2 E2.
        assert (Hl1 : lst_all (g_ls g1)) by (rewrite F1; exact Hl).
        pose proof (copen_grow _ _ _ _ Hc P1) as Hc1.
        destruct (IHl _ _ _ _ _ _ _ E2 Hl1 A1 W1 Hc1) as (L2 & A2 & W2 & P2).
        mstep. exists L2. split; [exact A2|]. split; [exact W2|].
        cbn [map snd opn_list]. perm.
    - (* loop_test *)
      intros ctx ie s k g st g' L0 L H Hl HA HW Hc. cbn [loop_test] in H.
      destruct s as [n at_ ins|t at_ ins body|bs|e p fl|e b|v lim b|v lim c]; try discriminate.
      + mstep as bb g1 E1.
        destruct (pre_quiet _ _ _ _ (Eff_Fr _ _ _ (decide_m_eff _ _ _ _ _ _ E1)) (decide_N _ _ _ _ _ _ E1) Hl HA HW)
          as (Hl1 & HA1 & HW1).
        destruct bb.
        * mstep as r g2 E2.
          pose proof (Eff_Fr _ _ _ (proj1 (proj2 (start_eff orc imm f)) _ _ _ _ _ _ _ E2)) as (F1 & F2 & F3).
          destruct (IHb _ _ _ _ _ _ _ _ _ E2 Hl1 HA1 HW1 Hc) as (L2 & A2 & W2 & P2).
          destruct r as [[i sti]|].
          -- mstep. exists L2. split; [exact A2|]. split; [exact W2|]. exact P2.
          -- assert (Hl2 : lst_all (g_ls g2)) by (rewrite F1; exact Hl1).
             pose proof (copen_grow _ _ _ _ Hc P2) as Hc2.
             destruct (IHt _ _ _ _ _ _ _ _ _ H Hl2 A2 W2 Hc2) as (L3 & A3 & W3 & P3).
             exists L3. split; [exact A3|]. split; [exact W3|]. cbn [opn_opt] in P2. perm.
        * mstep. exists L. split; [exact HA1|]. split; [exact HW1|]. intro tk. apply Permutation_refl.
      + mstep as n g1 E1.
        destruct (pre_quiet _ _ _ _ (Eff_Fr _ _ _ (read_limit_eff _ _ _ _ _ _ E1)) (limit_N _ _ _ _ _ _ E1) Hl HA HW)
          as (Hl1 & HA1 & HW1).
        destruct (Z.of_nat k <? n)%Z.
        * mstep as r g2 E2.
          pose proof (Eff_Fr _ _ _ (proj1 (proj2 (start_eff orc imm f)) _ _ _ _ _ _ _ E2)) as (F1 & F2 & F3).
          destruct (IHb _ _ _ _ _ _ _ _ _ E2 Hl1 HA1 HW1 Hc) as (L2 & A2 & W2 & P2).
          destruct r as [[i sti]|].
          -- mstep. exists L2. split; [exact A2|]. split; [exact W2|]. exact P2.
          -- assert (Hl2 : lst_all (g_ls g2)) by (rewrite F1; exact Hl1).
             pose proof (copen_grow _ _ _ _ Hc P2) as Hc2.
             destruct (IHt _ _ _ _ _ _ _ _ _ H Hl2 A2 W2 Hc2) as (L3 & A3 & W3 & P3).
             exists L3. split; [exact A3|]. split; [exact W3|]. cbn [opn_opt] in P2. perm.
        * mstep. exists L. split; [exact HA1|]. split; [exact HW1|]. intro tk. apply Permutation_refl.
  Qed.

  (* ---- the deliver family ---- *)
  Lemma deliver_list_length : forall f ctx l sts id g sts' g',
      deliver_list orc imm f ctx l sts id g = Ok (Some sts', g') -> List.length sts' = List.length sts.
  Proof.
    induction f as [|f IH]; intros ctx l sts id g sts' g' H; [discriminate|]. cbn [deliver_list] in H.
    destruct l as [|[ie b] br]; [mstep; discriminate|].
    destruct sts as [|st sr]; [mstep; discriminate|].
    mstep as r1 g1 E1. destruct r1 as [st'|].
    - mstep. subst sts'. reflexivity.
    - mstep as r2 g2 E2. destruct r2 as [sr'|]; mstep; [|discriminate].
      subst sts'. cbn. f_equal. eapply IH. exact E2.
  Qed.

  Definition DPost (L0 : life) (g' : G) (F new : bool -> list open_inst) : Prop :=
    exists L', Acc L0 g' L' /\ W L' (g_tid g') (g_sid g') /\
               forall tk, Permutation (sel tk L') (new tk ++ F tk).

  Definition dpost {A} (L0 : life) (g' : G) (F : bool -> list open_inst)
             (new : A -> bool -> list open_inst) (r : option A) : Prop :=
    match r with
    | None => True
    | Some a => DPost L0 g' F (new a)
    end.

  Lemma dres_ls : forall A (len : A -> nat) g nb (r : option A) g', dres len g nb r g' -> g_ls g' = g_ls g.
  Proof. intros A len g nb [a|] g' H; cbn in H; [apply (d_ls _ _ _ _ H)|congruence]. Qed.

  Lemma copen_F : forall ctx L1 (A F : bool -> list open_inst),
      copen ctx (F true) -> (forall tk, Permutation (sel tk L1) (A tk ++ F tk)) -> copen ctx (lf_tasks L1).
  Proof.
    intros ctx L1 A F (o & Hi & He) HP. exists o. split; [|exact He].
    eapply Permutation_in; [apply Permutation_sym; apply (HP true)|]. apply in_or_app. right. exact Hi.
  Qed.

  Lemma deliver_life : forall f,
      (forall ctx ie s st id g r g' L0 L F,
          deliver orc imm f ctx ie s st id g = Ok (r, g') ->
          lst_all (g_ls g) -> Acc L0 g L -> W L (g_tid g) (g_sid g) ->
          (forall tk, Permutation (sel tk L) (opn tk ctx s st ++ F tk)) ->
          copen ctx (F true) -> sep F (map oi_id (opn true ctx s st)) ->
          dpost L0 g' F (fun st' tk => opn tk ctx s st') r) /\
      (forall ctx ie ss i sti id g r g' L0 L F,
          deliver_block orc imm f ctx ie ss i sti id g = Ok (r, g') ->
          lst_all (g_ls g) -> Acc L0 g L -> W L (g_tid g) (g_sid g) ->
          (forall tk, Permutation (sel tk L) (opn_opt tk ctx ss (Some (i, sti)) ++ F tk)) ->
          copen ctx (F true) -> sep F (map oi_id (opn_opt true ctx ss (Some (i, sti)))) ->
          dpost L0 g' F (fun r' tk => opn_opt tk ctx ss r') r) /\
      (forall ctx l sts id g r g' L0 L F,
          deliver_list orc imm f ctx l sts id g = Ok (r, g') ->
          lst_all (g_ls g) -> Acc L0 g L -> W L (g_tid g) (g_sid g) ->
          (forall tk, Permutation (sel tk L) (opn_list tk ctx (map snd l) sts ++ F tk)) ->
          copen ctx (F true) -> sep F (map oi_id (opn_list true ctx (map snd l) sts)) ->
          dpost L0 g' F (fun sts' tk => opn_list tk ctx (map snd l) sts') r).
  Proof.
    induction f as [|f IH]; [split; [|split]; intros; discriminate|].
    destruct IH as (IHd & IHb & IHl).
    split; [|split].
    - (* deliver *)
      intros ctx ie s st id g r g' L0 L F H Hl HA HW HP HF Hsep. cbn [deliver] in H.
      destruct s as [n at_ ins|t at_ ins body|bs|e p fl|e b|v lim b|v lim c];
        destruct st as [|id'|cid i sti|sts|bb i sti|k i sti|sts];
        try (mstep; exact I).
      + (* service *)
        destruct (Nat.eqb id id') eqn:Eq; [|mstep; exact I].
        apply Nat.eqb_eq in Eq. subst id'.
        mstep as u g1 E1. destruct (emit_frame _ _ _ _ _ E1) as (C1 & C2 & C3).
        pose proof (emit_N _ _ _ _ _ E1 Hl) as C4. mstep.
        destruct (life_SF L _ _ n at_ id (Some ctx) (subst_params ie ins) F HW HP) as (L1 & S1 & W1 & P1).
        exists L1. split; [|split].
        * eapply Acc_app; [exact HA|exact C4|]. cbn [life_run]. rewrite S1. reflexivity.
        * rewrite C2, C3. exact W1.
        * exact P1.
      + (* call *)
        mstep as r1 g1 E1.
        pose proof (dres_ls _ _ _ _ _ _ (proj1 (proj2 (deliver_eff orc imm f)) _ _ _ _ _ _ _ _ _ E1)) as Ls1.
        set (T := inst cid (Some ctx) t at_) in *.
        set (F' := fun tk : bool => (if tk then [T] else []) ++ F tk).
        assert (HP0 : forall tk, Permutation (sel tk L)
                 (((if tk then [T] else []) ++ opn_opt tk cid body (Some (i, sti))) ++ F tk)) by exact HP.
        assert (Hsep0 : sep F (cid :: map oi_id (opn_opt true cid body (Some (i, sti))))) by exact Hsep.
        assert (HP' : forall tk, Permutation (sel tk L) (opn_opt tk cid body (Some (i, sti)) ++ F' tk)).
        { unfold F'. clear - HP0. perm. }
        assert (HF' : copen cid (F' true)).
        { exists T. split; [left; reflexivity|reflexivity]. }
        assert (Hsep' : sep F' (map oi_id (opn_opt true cid body (Some (i, sti))))).
        { apply (sep_extend F (fun tk : bool => if tk then [T] else []) _ ctx).
          - eapply sep_sub; [exact Hsep0|]. intros x Hx. right. exact Hx.
          - intros tk o Hi. destruct tk; [|contradiction]. destruct Hi as [<-|[]]. left. reflexivity.
          - intro Hi. destruct HF as (o' & Ho' & Hid').
            eapply (nd_disj _ _ _ ctx (w_nd _ _ _ HW) (HP0 true)).
            + rewrite map_app. apply in_or_app. right. exact Hi.
            + rewrite <- Hid'. apply in_map. exact Ho'.
          - intros t0 Ht0 Hi. destruct Ht0 as [<-|[]].
            assert (Q : Permutation (lf_tasks L) ([T] ++ (opn_opt true cid body (Some (i, sti)) ++ F true))).
            { specialize (HP0 true). cbn [sel] in HP0. clear - HP0. perm. }
            eapply (nd_disj _ _ _ cid (w_nd _ _ _ HW) Q).
            + left. reflexivity.
            + rewrite map_app. apply in_or_app. left. exact Hi. }
        pose proof (IHb _ _ _ _ _ _ _ _ _ _ _ _ E1 Hl HA HW HP' HF' Hsep') as R1.
        destruct r1 as [[[j st']|]|]; cbn [dpost] in R1.
        * mstep. destruct R1 as (L1 & A1 & W1 & P1). exists L1. split; [exact A1|]. split; [exact W1|].
          intro tk. change (opn tk ctx (XCall t at_ ins body) (RCall cid j st'))
            with ((if tk then [T] else []) ++ opn_opt tk cid body (Some (j, st'))).
          unfold F' in P1. clear - P1. revert tk. perm.
        * destruct R1 as (L1 & A1 & W1 & P1).
          mstep as u g2 E2. destruct (emit_frame _ _ _ _ _ E2) as (C1 & C2 & C3).
          pose proof (emit_N _ _ _ _ _ E2 ltac:(rewrite Ls1; exact Hl)) as C4. mstep.
          destruct (life_TF L1 _ _ t at_ cid (Some ctx) (subst_params ie ins) F W1) as (L2 & S2 & W2 & P2).
          { fold T. unfold F' in P1. cbn [opn_opt] in P1. clear - P1. perm. }
          { intros tk o Hi. apply (Hsep0 tk o cid Hi). left. reflexivity. }
          exists L2. split; [|split].
          -- eapply Acc_app; [exact A1|exact C4|]. cbn [life_run]. rewrite S2. reflexivity.
          -- rewrite C2, C3. exact W2.
          -- exact P2.
        * mstep. exact I.
      + (* parallel *)
        mstep as r1 g1 E1.
        assert (HP' : forall tk, Permutation (sel tk L)
                   (opn_list tk ctx (map snd (map (fun b => (ie, b)) bs)) sts ++ F tk)).
        { intro tk. rewrite map_snd_pair, <- opn_par. apply HP. }
        assert (Hsep' : sep F (map oi_id (opn_list true ctx (map snd (map (fun b => (ie, b)) bs)) sts))).
        { rewrite map_snd_pair, <- opn_par. exact Hsep. }
        pose proof (IHl _ _ _ _ _ _ _ _ _ _ E1 Hl HA HW HP' HF Hsep') as R1.
        destruct r1 as [sts'|]; cbn [dpost] in R1; [|mstep; exact I].
        destruct R1 as (L1 & A1 & W1 & P1). rewrite map_snd_pair in P1.
        destruct (all_done sts') eqn:D; mstep; exists L1; (split; [exact A1|]); (split; [exact W1|]).
        * intro tk. specialize (P1 tk). rewrite (opn_list_done _ _ _ _ D) in P1. exact P1.
        * intro tk. rewrite opn_par. apply P1.
      + (* condition *)
        mstep as r1 g1 E1.
        pose proof (IHb _ _ _ _ _ _ _ _ _ _ _ _ E1 Hl HA HW HP HF Hsep) as R1.
        destruct r1 as [[[j st']|]|]; cbn [dpost] in R1; mstep; exact R1.
      + (* while *)
        mstep as r1 g1 E1.
        pose proof (dres_ls _ _ _ _ _ _ (proj1 (proj2 (deliver_eff orc imm f)) _ _ _ _ _ _ _ _ _ E1)) as Ls1.
        pose proof (IHb _ _ _ _ _ _ _ _ _ _ _ _ E1 Hl HA HW HP HF Hsep) as R1.
        destruct r1 as [[[j st']|]|]; cbn [dpost] in R1.
        * mstep. exact R1.
        * destruct R1 as (L1 & A1 & W1 & P1).
          mstep as st' g2 E2.
          destruct (proj2 (proj2 (proj2 (start_life f))) _ _ _ _ _ _ _ _ _ E2
                          ltac:(rewrite Ls1; exact Hl) A1 W1 (copen_F _ _ _ _ HF P1)) as (L2 & A2 & W2 & P2).
          mstep. exists L2. split; [exact A2|]. split; [exact W2|]. cbn [opn_opt] in P1. clear - P1 P2. perm.
        * mstep. exact I.
      + (* counting loop *)
        mstep as r1 g1 E1.
        pose proof (dres_ls _ _ _ _ _ _ (proj1 (proj2 (deliver_eff orc imm f)) _ _ _ _ _ _ _ _ _ E1)) as Ls1.
        pose proof (IHb _ _ _ _ _ _ _ _ _ _ _ _ E1 Hl HA HW HP HF Hsep) as R1.
        destruct r1 as [[[j st']|]|]; cbn [dpost] in R1.
        * mstep. exact R1.
        * destruct R1 as (L1 & A1 & W1 & P1).
          mstep as st' g2 E2.
          destruct (proj2 (proj2 (proj2 (start_life f))) _ _ _ _ _ _ _ _ _ E2
                          ltac:(rewrite Ls1; exact Hl) A1 W1 (copen_F _ _ _ _ HF P1)) as (L2 & A2 & W2 & P2).
          mstep. exists L2. split; [exact A2|]. split; [exact W2|]. cbn [opn_opt] in P1. clear - P1 P2. perm.
        * mstep. exact I.
      + (* parallel loop *)
        mstep as r1 g1 E1.
        assert (HP' : forall tk, Permutation (sel tk L)
                   (opn_list tk ctx (map snd (insts ie v c (List.length sts))) sts ++ F tk)).
        { intro tk. rewrite (opn_list_insts _ _ _ _ _ _ _ eq_refl), <- (opn_parloop tk ctx v lim). apply HP. }
        assert (Hsep' : sep F (map oi_id (opn_list true ctx (map snd (insts ie v c (List.length sts))) sts))).
        { rewrite (opn_list_insts _ _ _ _ _ _ _ eq_refl), <- (opn_parloop true ctx v lim). exact Hsep. }
        pose proof (IHl _ _ _ _ _ _ _ _ _ _ E1 Hl HA HW HP' HF Hsep') as R1.
        destruct r1 as [sts'|]; cbn [dpost] in R1; [|mstep; exact I].
        pose proof (deliver_list_length _ _ _ _ _ _ _ _ E1) as Len.
        destruct R1 as (L1 & A1 & W1 & P1).
        destruct (all_done sts') eqn:D; mstep; exists L1; (split; [exact A1|]); (split; [exact W1|]).
        * intro tk. specialize (P1 tk).
          rewrite (opn_list_insts _ _ _ _ _ _ _ Len), (flat_map_done _ _ _ _ D) in P1. exact P1.
        * intro tk. specialize (P1 tk). rewrite (opn_list_insts _ _ _ _ _ _ _ Len) in P1.
          rewrite opn_parloop. exact P1.
    - (* deliver_block *)
      intros ctx ie ss i sti id g r g' L0 L F H Hl HA HW HP HF Hsep. cbn [deliver_block] in H.
      cbn [opn_opt] in HP, Hsep.
      destruct (nth_error ss i) as [s1|] eqn:Hn; [|mstep; exact I].
      mstep as r1 g1 E1.
      pose proof (dres_ls _ _ _ _ _ _ (proj1 (deliver_eff orc imm f) _ _ _ _ _ _ _ _ E1)) as Ls1.
      pose proof (IHd _ _ _ _ _ _ _ _ _ _ _ E1 Hl HA HW HP HF Hsep) as R1.
      destruct r1 as [st'|]; cbn [dpost] in R1; [|mstep; exact I].
      destruct R1 as (L1 & A1 & W1 & P1).
      destruct (is_done st') eqn:D.
      + mstep as r' g2 E2.
        destruct (proj1 (proj2 (start_life f)) _ _ _ _ _ _ _ _ _ E2
                        ltac:(rewrite Ls1; exact Hl) A1 W1 (copen_F _ _ _ _ HF P1)) as (L2 & A2 & W2 & P2).
        mstep. exists L2. split; [exact A2|]. split; [exact W2|].
        assert (P1' : forall tk, Permutation (sel tk L1) ([] ++ F tk)).
        { intro tk. rewrite <- (opn_done tk ctx s1 st' D). apply P1. }
        clear - P1' P2. perm.
      + mstep. exists L1. split; [exact A1|]. split; [exact W1|].
        intro tk. cbn [opn_opt]. rewrite Hn. apply P1.
    - (* deliver_list *)
      intros ctx l sts id g r g' L0 L F H Hl HA HW HP HF Hsep. cbn [deliver_list] in H.
      destruct l as [|[ie b] br]; [mstep; exact I|].
      destruct sts as [|st sr]; [mstep; exact I|].
      cbn [map snd opn_list] in HP, Hsep. rewrite map_app in Hsep.
      set (A := fun tk : bool => opn tk ctx b st) in *.
      set (B := fun tk : bool => opn_list tk ctx (map snd br) sr) in *.
      assert (HPt : Permutation (lf_tasks L) (A true ++ (B true ++ F true))).
      { specialize (HP true). cbn [sel] in HP. unfold A, B. clear - HP. perm. }
      assert (HPt' : Permutation (lf_tasks L) (B true ++ (A true ++ F true))).
      { specialize (HP true). cbn [sel] in HP. unfold A, B. clear - HP. perm. }
      assert (NoA : ~ In ctx (map oi_id (A true))).
      { intro Hi. destruct HF as (o' & Ho' & Hid').
        eapply (nd_disj _ _ _ ctx (w_nd _ _ _ HW) HPt); [exact Hi|].
        rewrite map_app. apply in_or_app. right. rewrite <- Hid'. apply in_map. exact Ho'. }
      assert (NoB : ~ In ctx (map oi_id (B true))).
      { intro Hi. destruct HF as (o' & Ho' & Hid').
        eapply (nd_disj _ _ _ ctx (w_nd _ _ _ HW) HPt'); [exact Hi|].
        rewrite map_app. apply in_or_app. right. rewrite <- Hid'. apply in_map. exact Ho'. }
      mstep as r1 g1 E1.
      pose proof (proj1 (deliver_eff orc imm f) _ _ _ _ _ _ _ _ E1) as DE1.
      assert (HP1 : forall tk, Permutation (sel tk L) (A tk ++ (fun tk => B tk ++ F tk) tk)).
      { unfold A, B. clear - HP. perm. }
      assert (HF1 : copen ctx ((fun tk => B tk ++ F tk) true)).
      { destruct HF as (o' & Ho' & Hid'). exists o'. split; [apply in_or_app; right; exact Ho'|exact Hid']. }
      assert (Hsep1 : sep (fun tk => B tk ++ F tk) (map oi_id (A true))).
      { apply (sep_extend F B _ ctx).
        - eapply sep_sub; [exact Hsep|]. intros x Hx. apply in_or_app. left. exact Hx.
        - apply opn_list_ctx.
        - exact NoA.
        - intros t0 Ht0 Hi. eapply (nd_disj _ _ _ t0 (w_nd _ _ _ HW) HPt); [exact Hi|].
          rewrite map_app. apply in_or_app. left. exact Ht0. }
      pose proof (IHd _ _ _ _ _ _ _ _ _ _ _ E1 Hl HA HW HP1 HF1 Hsep1) as R1.
      destruct r1 as [st'|]; cbn [dpost dres] in R1, DE1.
      + mstep. destruct R1 as (L1 & A1 & W1 & P1). exists L1. split; [exact A1|]. split; [exact W1|].
        cbn [map snd opn_list]. unfold B in P1. cbn beta in P1. clear - P1. perm.
      + subst g1. mstep as r2 g2 E2.
        assert (HP2 : forall tk, Permutation (sel tk L) (B tk ++ (fun tk => A tk ++ F tk) tk)).
        { unfold A, B. clear - HP. perm. }
        assert (HF2 : copen ctx ((fun tk => A tk ++ F tk) true)).
        { destruct HF as (o' & Ho' & Hid'). exists o'. split; [apply in_or_app; right; exact Ho'|exact Hid']. }
        assert (Hsep2 : sep (fun tk => A tk ++ F tk) (map oi_id (B true))).
        { apply (sep_extend F A _ ctx).
          - eapply sep_sub; [exact Hsep|]. intros x Hx. apply in_or_app. right. exact Hx.
          - apply opn_ctx.
          - exact NoB.
          - intros t0 Ht0 Hi. eapply (nd_disj _ _ _ t0 (w_nd _ _ _ HW) HPt'); [exact Hi|].
            rewrite map_app. apply in_or_app. left. exact Ht0. }
        pose proof (IHl _ _ _ _ _ _ _ _ _ _ E2 Hl HA HW HP2 HF2 Hsep2) as R2.
        destruct r2 as [sr'|]; cbn [dpost] in R2; mstep; [|exact I].
        destruct R2 as (L2 & A2 & W2 & P2). exists L2. split; [exact A2|]. split; [exact W2|].
        cbn [map snd opn_list]. unfold A in P2. cbn beta in P2. clear - P2. perm.
  Qed.
End Life.

(* ===================================================================== *)
(* 5. service-finished is issued in the call that delivers the completion  *)
(* ===================================================================== *)
Definition sf_ok (c : apicall) (prev : option notif) (n : notif) : bool :=
  match n_kind n with
  | SF => (match c with AFinish id => Nat.eqb id (n_id n) | _ => false end)
          || (match prev with
              | Some p => is_kind SS p && Nat.eqb (n_id p) (n_id n)
              | None => false
              end)
  | _ => true
  end.

Fixpoint sfo (c : apicall) (prev : option notif) (ns : list notif) : bool :=
  match ns with
  | [] => true
  | n :: t => sf_ok c prev n && sfo c (Some n) t
  end.

Definition last_or (p : option notif) (l : list notif) : option notif :=
  fold_left (fun _ x => Some x) l p.

Lemma sfo_app : forall c a b p, sfo c p (a ++ b) = sfo c p a && sfo c (last_or p a) b.
Proof.
  induction a as [|n a IH]; intros b p; [reflexivity|]. cbn [app sfo last_or fold_left].
  rewrite IH, andb_assoc. reflexivity.
Qed.

Definition nofire (e : entry) : Prop :=
  match e with EFireIn _ | EFireOut _ _ => False | _ => True end.

Lemma sfp_sfo : forall c log p, Forall nofire log -> sf_in_place c [] p log = sfo c p (map fst (ee_notifs log)).
Proof.
  induction log as [|e log IH]; intros p H; [reflexivity|]. inversion H as [|? ? He Hr]; subst.
  rewrite ee_cons. destruct e as [[|l0] n r|o kk nm id fl|v cc|fi|fi fr]; cbn [sf_in_place app map fst];
    try (apply IH; exact Hr); try contradiction.
  cbn [sfo]. rewrite (IH _ Hr). f_equal. unfold sf_ok. destruct (n_kind n); try reflexivity.
  cbn [mem]. rewrite orb_false_r. reflexivity.
Qed.

Lemma render_nofire : forall ls obs evs, Forall nofire (flat_map (render ls obs) evs).
Proof.
  intros ls obs evs. induction evs as [|a evs IH]; [constructor|]. cbn [flat_map].
  apply Forall_app. split; [|exact IH]. destruct a as [n fl r|v c]; cbn [render].
  - apply Forall_app. split; apply Forall_forall; intros x Hx; apply in_map_iff in Hx;
      destruct Hx as (y & <- & _); exact I.
  - constructor; [exact I|constructor].
Qed.

Definition SfR (c : apicall) (g g' : G) : Prop :=
  g_ls g' = g_ls g /\ (lst_all (g_ls g) -> sfo c None (N g) = true -> sfo c None (N g') = true).

Lemma SfR_refl : forall c g, SfR c g g.
Proof. intros c g. split; auto. Qed.

Lemma SfR_trans : forall c g1 g2 g3, SfR c g1 g2 -> SfR c g2 g3 -> SfR c g1 g3.
Proof.
  intros c g1 g2 g3 (A1 & A2) (B1 & B2). split; [congruence|].
  intros Hl H. apply B2; [rewrite A1; exact Hl|]. apply A2; assumption.
Qed.

Lemma SfR_ext : forall c g g' ns,
    g_ls g' = g_ls g -> (lst_all (g_ls g) -> N g' = N g ++ ns) -> (forall p, sfo c p ns = true) -> SfR c g g'.
Proof.
  intros c g g' ns H1 H2 H3. split; [exact H1|]. intros Hl H. rewrite (H2 Hl), sfo_app, H, H3. reflexivity.
Qed.

Lemma SfR_emit : forall c n flag g u g',
    emit_gen n flag g = Ok (u, g') -> (forall p, sf_ok c p n = true) -> SfR c g g'.
Proof.
  intros c n flag g u g' H Hk. destruct (emit_frame _ _ _ _ _ H) as (A1 & _ & _).
  apply (SfR_ext c g g' [n]); [exact A1|intro Hl; eapply emit_N; eassumption|].
  intro p. cbn [sfo]. rewrite Hk. reflexivity.
Qed.

Section SfClosure.
  Variable orc : oracle.
  Variable imm : nat -> bool.
  Variable c : apicall.

  Lemma SfR_same : forall g g', g_ls g' = g_ls g -> N g' = N g -> SfR c g g'.
  Proof. intros g g' H1 H2. apply (SfR_ext c g g' []); auto. intros _. rewrite app_nil_r. exact H2. Qed.

  Lemma SfR_decide : forall e ctx g b g', decide_m orc e ctx g = Ok (b, g') -> SfR c g g'.
  Proof.
    intros e ctx g b g' H. apply SfR_same; [apply (e_ls _ _ _ (decide_m_eff _ _ _ _ _ _ H))|].
    eapply decide_N; eassumption.
  Qed.

  Lemma SfR_limit : forall l ctx g n g', read_limit orc l ctx g = Ok (n, g') -> SfR c g g'.
  Proof.
    intros l ctx g n g' H. apply SfR_same; [apply (e_ls _ _ _ (read_limit_eff _ _ _ _ _ _ H))|].
    eapply limit_N; eassumption.
  Qed.

  Lemma SfR_service : forall n at_ ins ctx ie g st g',
      (id <- fresh_s ;;
       await id ;;;
       emit (mk SS n at_ id (Some ctx) (subst_params ie ins)) ;;;
       k <- tick_ss ;;
       if imm k
       then unawait id ;;; emit (mk SF n at_ id (Some ctx) (subst_params ie ins)) ;;; ret RDone
       else ret (RAwait id)) g = Ok (st, g') -> SfR c g g'.
  Proof.
    intros n at_ ins ctx ie g st g' H. destruct (service_N _ _ _ _ _ _ _ _ _ H) as (A1 & _ & _ & A4).
    split; [exact A1|]. intros Hl Hs. destruct (A4 Hl) as [[_ HN]|[_ HN]]; rewrite HN, sfo_app, Hs; cbn [andb sfo].
    - reflexivity.
    - unfold sf_ok at 1 2. cbn [mk n_kind n_id]. unfold is_kind. cbn [mk n_kind nkind_eqb].
      rewrite Nat.eqb_refl, orb_true_r. reflexivity.
  Qed.

  Lemma SfR_tstart : forall t at_ ctx ps g id g1 u g2,
      fresh_t g = Ok (id, g1) -> emit (mk TS t at_ id ctx ps) g1 = Ok (u, g2) -> SfR c g g2.
  Proof.
    intros t at_ ctx ps g id g1 u g2 E1 E2. destruct (tstart_N _ _ _ _ _ _ _ _ _ E1 E2) as (-> & B1 & _ & _ & B4).
    apply (SfR_ext c g g2 _ B1 B4). intro p. reflexivity.
  Qed.

  Lemma SfR_tfin : forall t at_ id ctx ps flag g u g',
      emit_gen (mk TF t at_ id ctx ps) flag g = Ok (u, g') -> SfR c g g'.
  Proof. intros. eapply SfR_emit; [eassumption|]. intro p. reflexivity. Qed.

  Definition start_sf := start_closed orc imm (SfR c) (SfR_refl c) (SfR_trans c) SfR_decide SfR_limit SfR_service
                                      (fun t at_ ctx ps => @SfR_tstart t at_ (Some ctx) ps)
                                      (fun t at_ id ctx ps => @SfR_tfin t at_ id (Some ctx) ps false).
End SfClosure.

(* the closure principle of RefClosure for the deliver family, for one fixed delivered identifier *)
Section ClosureId.
  Variable orc : oracle.
  Variable imm : nat -> bool.
  Variable R : G -> G -> Prop.
  Variable R_refl : forall g, R g g.
  Variable R_trans : forall a b c, R a b -> R b c -> R a c.
  Variable R_block : forall f ctx ie ss i g r g', run_block orc imm f ctx ie ss i g = Ok (r, g') -> R g g'.
  Variable R_loop : forall f ctx ie s k g st g', loop_test orc imm f ctx ie s k g = Ok (st, g') -> R g g'.
  Variable R_tfin : forall t at_ id ctx ps g u g',
      emit (mk TF t at_ id (Some ctx) ps) g = Ok (u, g') -> R g g'.
  Variable d : nat.
  Variable R_sfin : forall n at_ ctx ps g u g',
      emit (mk SF n at_ d (Some ctx) ps) g = Ok (u, g') -> R g g'.

  Ltac tr := eapply R_trans; [eassumption|].

  Lemma deliver_closed_id : forall f,
      (forall ctx ie s st g r g', deliver orc imm f ctx ie s st d g = Ok (r, g') -> R g g') /\
      (forall ctx ie ss i sti g r g', deliver_block orc imm f ctx ie ss i sti d g = Ok (r, g') -> R g g') /\
      (forall ctx l sts g r g', deliver_list orc imm f ctx l sts d g = Ok (r, g') -> R g g').
  Proof.
    induction f as [|f IH]; [split; [|split]; intros; discriminate|].
    destruct IH as (IHd & IHb & IHl).
    split; [|split].
    - intros ctx ie s st g r g' H. cbn [deliver] in H.
      destruct s as [n at_ ins|t at_ ins body|bs|e p fl|e b|v lim b|v lim c];
        destruct st as [|id'|cid i sti|sts|bb i sti|k i sti|sts];
        try (mstep; apply R_refl).
      + destruct (Nat.eqb d id'); [|mstep; apply R_refl].
        mstep as u g1 E1. apply R_sfin in E1. mstep. exact E1.
      + mstep as r1 g1 E1. apply IHb in E1.
        destruct r1 as [[[j st']|]|].
        * mstep. exact E1.
        * mstep as u g2 E2. apply R_tfin in E2. mstep. tr. exact E2.
        * mstep. exact E1.
      + mstep as r1 g1 E1. apply IHl in E1.
        destruct r1 as [sts'|]; [destruct (all_done sts')|]; mstep; exact E1.
      + mstep as r1 g1 E1. apply IHb in E1.
        destruct r1 as [[[j st']|]|]; mstep; exact E1.
      + mstep as r1 g1 E1. apply IHb in E1.
        destruct r1 as [[[j st']|]|].
        * mstep. exact E1.
        * mstep as st' g2 E2. apply R_loop in E2. mstep. tr. exact E2.
        * mstep. exact E1.
      + mstep as r1 g1 E1. apply IHb in E1.
        destruct r1 as [[[j st']|]|].
        * mstep. exact E1.
        * mstep as st' g2 E2. apply R_loop in E2. mstep. tr. exact E2.
        * mstep. exact E1.
      + mstep as r1 g1 E1. apply IHl in E1.
        destruct r1 as [sts'|]; [destruct (all_done sts')|]; mstep; exact E1.
    - intros ctx ie ss i sti g r g' H. cbn [deliver_block] in H.
      destruct (nth_error ss i) as [s1|]; [|mstep; apply R_refl].
      mstep as r1 g1 E1. apply IHd in E1.
      destruct r1 as [st'|]; [|mstep; exact E1].
      destruct (is_done st').
      + mstep as r' g2 E2. apply R_block in E2. mstep. tr. exact E2.
      + mstep. exact E1.
    - intros ctx l sts g r g' H. cbn [deliver_list] in H.
      destruct l as [|[ie b] br]; [mstep; apply R_refl|].
      destruct sts as [|st sr]; [mstep; apply R_refl|].
      mstep as r1 g1 E1. apply IHd in E1.
      destruct r1 as [st'|].
      + mstep. exact E1.
      + mstep as r2 g2 E2. apply IHl in E2.
        destruct r2 as [sr'|]; mstep; (tr; exact E2).
  Qed.
End ClosureId.

Section SfDeliver.
  Variable orc : oracle.
  Variable imm : nat -> bool.
  Variable d : nat.

  Lemma SfR_sfin : forall n at_ ctx ps g u g',
      emit (mk SF n at_ d (Some ctx) ps) g = Ok (u, g') -> SfR (AFinish d) g g'.
  Proof.
    intros. eapply SfR_emit; [eassumption|]. intro p. unfold sf_ok. cbn [mk n_kind n_id].
    rewrite Nat.eqb_refl. reflexivity.
  Qed.

  Definition deliver_sf :=
    deliver_closed_id orc imm (SfR (AFinish d)) (SfR_refl _) (SfR_trans _)
                      (fun f => proj1 (proj2 (start_sf orc imm (AFinish d) f)))
                      (fun f => proj2 (proj2 (proj2 (start_sf orc imm (AFinish d) f))))
                      (fun t at_ id ctx ps => @SfR_tfin (AFinish d) t at_ id (Some ctx) ps false)
                      d SfR_sfin.
End SfDeliver.

(* ===================================================================== *)
(* 6. API calls and whole scripts                                          *)
(* ===================================================================== *)
Definition rootT : open_inst := inst 0 None production_task root_site.
Definition rootF (tk : bool) : list open_inst := if tk then [rootT] else [].

(* what the monitor checks for one call *)
Definition call_ok (c : apicall) (L : life) (r : callrec) (L' : life) : Prop :=
  sf_in_place c [] None (cr_log r) = true /\
  life_run L (map fst (ee_notifs (cr_log r))) = Some L' /\
  (negb (cr_final r) || match lf_tasks L', lf_svcs L' with [], [] => true | _, _ => false end) = true.

Section Api.
  Variable orc : oracle.
  Variable imm : nat -> bool.
  Variable body : list xstmt.

  Definition Inv (s : sched) (L : life) : Prop :=
    let g := sc_g s in
    lst_all (g_ls g) /\
    match sc_root s with
    | None => L = life0 /\ g_tid g = 0
    | Some RDone => lf_tasks L = [] /\ lf_svcs L = []
    | Some (RCall cid i st) =>
      cid = 0 /\ W L (g_tid g) (g_sid g) /\
      forall tk, Permutation (sel tk L) (opn_opt tk 0 body (Some (i, st)) ++ rootF tk)
    | Some _ => False
    end.

  Lemma quiet_step : forall s L b c ls obs,
      Inv s L -> lst_all ls ->
      let s' := {| sc_g := clear_log (sc_g s) <| g_ls := ls |> <| g_obs := obs |>; sc_root := sc_root s |} in
      call_ok c L (observe b s') L /\ Inv s' L.
  Proof.
    intros s L b c ls obs (Hl & Hr) Hls s'. split.
    - split; [reflexivity|]. split; [reflexivity|].
      unfold observe. cbn [cr_final sc_root s'].
      destruct (sc_root s) as [[|id|cid i st|sts|bb i st|k i st|sts]|]; try reflexivity.
      destruct Hr as [-> ->]. reflexivity.
    - split; [exact Hls|]. exact Hr.
  Qed.

  Lemma quiet_same : forall s L b c,
      Inv s L ->
      let s' := {| sc_g := clear_log (sc_g s); sc_root := sc_root s |} in
      call_ok c L (observe b s') L /\ Inv s' L.
  Proof.
    intros s L b c HI. exact (quiet_step _ _ b c (g_ls (sc_g s)) (g_obs (sc_g s)) HI (proj1 HI)).
  Qed.

  Lemma perm_nil_eq : forall (l : list open_inst), Permutation l [] -> l = [].
  Proof. intros l H. apply Permutation_nil. apply Permutation_sym. exact H. Qed.

  (* the production task is reported finished: everything is closed *)
  Lemma finish_root_step : forall c L0 L g u g',
      finish_root g = Ok (u, g') -> lst_all (g_ls g) ->
      Acc L0 g L -> W L (g_tid g) (g_sid g) -> (forall tk, Permutation (sel tk L) (rootF tk)) ->
      g_ls g' = g_ls g /\ SfR c g g' /\
      exists L', Acc L0 g' L' /\ lf_tasks L' = [] /\ lf_svcs L' = [].
  Proof.
    intros c L0 L g u g' H Hl HA HW HP. unfold finish_root in H.
    mstep as u1 g1 E1. unfold set_running in H. inv H.
    destruct (emit_frame _ _ _ _ _ E1) as (C1 & C2 & C3). pose proof (emit_N _ _ _ _ _ E1 Hl) as C4.
    split; [exact C1|]. split.
    - eapply SfR_trans; [eapply SfR_tfin; exact E1|]. apply SfR_same; reflexivity.
    - destruct (life_TF L _ _ production_task root_site 0 None [] (fun _ => []) HW) as (L1 & S1 & W1 & P1).
      + intro tk. rewrite app_nil_r. apply HP.
      + intros tk o [].
      + exists L1. split; [|split].
        * eapply Acc_app; [exact HA| |].
          -- change (N (g1 <| g_running := false |>)) with (N g1). exact C4.
          -- cbn [life_run]. rewrite S1. reflexivity.
        * apply perm_nil_eq. apply (P1 true).
        * apply perm_nil_eq. apply (P1 false).
  Qed.

  Lemma shape_nofire : forall f s c b s',
      api_call orc imm f body s c = Ok (b, s') -> Forall nofire (cr_log (observe b s')).
  Proof.
    intros f s c b s' H. destruct (api_shape _ _ _ _ _ _ _ _ H) as (((evs & -> & _) & _) & _).
    apply render_nofire.
  Qed.

  (* the accepted start *)
  Lemma start_step : forall f s st g',
      Inv s life0 -> sc_root s = None -> g_tid (sc_g s) = 0 ->
      (set_running true ;;;
       id <- fresh_t ;;
       emit (mk TS production_task root_site id None []) ;;;
       r <- run_block orc imm f id [] body 0 ;;
       match r with
       | None => finish_root ;;; ret RDone
       | Some (i, st) => ret (RCall id i st)
       end) (clear_log (sc_g s)) = Ok (st, g') ->
      let s' := {| sc_g := g'; sc_root := Some st |} in
      sfo AStart None (N g') = true /\
      exists L', life_run life0 (N g') = Some L' /\
                 (negb (root_done (Some st)) || match lf_tasks L', lf_svcs L' with [], [] => true | _, _ => false end) = true /\
                 Inv s' L'.
  Proof.
    intros f s st g' (Hl & _) Hroot Htid H s'.
    set (g0 := clear_log (sc_g s)) in *.
    mstep as u1 g1 E1. unfold set_running in E1. inv E1.
    set (g1 := g0 <| g_running := true |>) in *.
    assert (Hl1 : lst_all (g_ls g1)) by exact Hl.
    mstep as id g2 E2. mstep as u3 g3 E3.
    destruct (tstart_N _ _ _ _ _ _ _ _ _ E2 E3) as (-> & B1 & B2 & B3 & B4). specialize (B4 Hl1).
    pose proof (SfR_tstart AStart _ _ _ _ _ _ _ _ _ E2 E3) as Sf3.
    change (g_tid g1) with (g_tid (sc_g s)) in *. rewrite Htid in *.
    change (N g1) with (@nil notif) in B4. cbn [app] in B4.
    set (L1 := {| lf_tasks := [rootT]; lf_svcs := []; lf_used_t := [0]; lf_used_s := []; lf_seen_any := true |}).
    assert (A3 : Acc life0 g3 L1) by (unfold Acc; rewrite B4; reflexivity).
    assert (W3 : W L1 (g_tid g3) (g_sid g3)).
    { rewrite B2. constructor; cbn.
      - reflexivity.
      - constructor; [lia|constructor].
      - constructor.
      - intros tk o c0 Hi Hc. destruct tk; cbn in Hi; [|contradiction]. destruct Hi as [<-|[]]. discriminate.
      - constructor; [cbn; lia|constructor].
      - constructor; [intros []|constructor]. }
    assert (Hl3 : lst_all (g_ls g3)) by (rewrite B1; exact Hl1).
    assert (Hc3 : copen 0 (lf_tasks L1)) by (exists rootT; split; [left; reflexivity|reflexivity]).
    mstep as r g4 E4.
    pose proof (proj1 (proj2 (start_sf orc imm AStart f)) _ _ _ _ _ _ _ E4) as Sf4.
    pose proof (Eff_Fr _ _ _ (proj1 (proj2 (start_eff orc imm f)) _ _ _ _ _ _ _ E4)) as (F1 & F2 & F3).
    destruct (proj1 (proj2 (start_life orc imm f)) _ _ _ _ _ _ _ _ _ E4 Hl3 A3 W3 Hc3) as (L4 & A4 & W4 & P4).
    assert (Sf04 : sfo AStart None (N g4) = true).
    { apply (proj2 Sf4); [exact Hl3|]. apply (proj2 Sf3); [exact Hl1|reflexivity]. }
    destruct r as [[i sti]|].
    - mstep. split; [exact Sf04|]. exists L4. split; [exact A4|]. split; [reflexivity|].
      split; [cbn [sc_g s']; rewrite F1; exact Hl3|]. cbn [sc_root s'].
      split; [reflexivity|]. split; [exact W4|]. exact P4.
    - mstep as u5 g5 E5. mstep.
      destruct (finish_root_step AStart life0 L4 _ _ _ E5 ltac:(rewrite F1; exact Hl3) A4 W4 P4)
        as (G1 & Sf5 & L5 & A5 & T5 & S5).
      split; [apply (proj2 Sf5); [rewrite F1; exact Hl3|exact Sf04]|].
      exists L5. split; [exact A5|]. split; [rewrite T5, S5; reflexivity|].
      split; [cbn [sc_g s']; rewrite G1, F1; exact Hl3|]. cbn [sc_root s']. split; assumption.
  Qed.

  (* an accepted completion *)
  Lemma finish_step : forall f s L id i sti st g',
      Inv s L -> sc_root s = Some (RCall 0 i sti) ->
      (unawait id ;;;
       r <- deliver_block orc imm f 0 [] body i sti id ;;
       match r with
       | None => lift Unsupported
       | Some None => finish_root ;;; ret RDone
       | Some (Some (j, st')) => ret (RCall 0 j st')
       end) (clear_log (sc_g s)) = Ok (st, g') ->
      let s' := {| sc_g := g'; sc_root := Some st |} in
      sfo (AFinish id) None (N g') = true /\
      exists L', life_run L (N g') = Some L' /\
                 (negb (root_done (Some st)) || match lf_tasks L', lf_svcs L' with [], [] => true | _, _ => false end) = true /\
                 Inv s' L'.
  Proof.
    intros f s L id i sti st g' (Hl & Hr) Hroot H s'. rewrite Hroot in Hr. destruct Hr as (_ & HW & HP).
    set (g0 := clear_log (sc_g s)) in *.
    mstep as u1 g1 E1. unfold unawait in E1.
    match type of E1 with match ?X with _ => _ end = _ => destruct X as [aw1|] end; [|discriminate].
    unfold set_awaited in E1. inv E1.
    set (g1 := g0 <| g_awaited := aw1 |>) in *.
    assert (Hl1 : lst_all (g_ls g1)) by exact Hl.
    assert (A1 : Acc L g1 L) by reflexivity.
    assert (W1 : W L (g_tid g1) (g_sid g1)) by exact HW.
    mstep as r g2 E2.
    pose proof (proj1 (proj2 (deliver_sf orc imm id f)) _ _ _ _ _ _ _ _ E2) as Sf2.
    pose proof (dres_ls _ _ _ _ _ _ (proj1 (proj2 (deliver_eff orc imm f)) _ _ _ _ _ _ _ _ _ E2)) as Ls2.
    assert (Hsep : sep rootF (map oi_id (opn_opt true 0 body (Some (i, sti))))).
    { intros tk o t Hi _. destruct tk; [|contradiction]. destruct Hi as [<-|[]]. discriminate. }
    assert (HF : copen 0 (rootF true)) by (exists rootT; split; [left; reflexivity|reflexivity]).
    pose proof (proj1 (proj2 (deliver_life orc imm f)) _ _ _ _ _ _ _ _ _ _ _ _ E2 Hl1 A1 W1 HP HF Hsep) as R2.
    assert (Sf02 : sfo (AFinish id) None (N g2) = true) by (apply (proj2 Sf2); [exact Hl1|reflexivity]).
    destruct r as [[[j st']|]|]; cbn [dpost] in R2; [| |discriminate].
    - mstep. destruct R2 as (L2 & A2 & W2 & P2).
      split; [exact Sf02|]. exists L2. split; [exact A2|]. split; [reflexivity|].
      split; [cbn [sc_g s']; rewrite Ls2; exact Hl1|]. cbn [sc_root s'].
      split; [reflexivity|]. split; [exact W2|]. exact P2.
    - destruct R2 as (L2 & A2 & W2 & P2).
      mstep as u5 g5 E5. mstep.
      destruct (finish_root_step (AFinish id) L L2 _ _ _ E5 ltac:(rewrite Ls2; exact Hl1) A2 W2 P2)
        as (G1 & Sf5 & L5 & A5 & T5 & S5).
      split; [apply (proj2 Sf5); [rewrite Ls2; exact Hl1|exact Sf02]|].
      exists L5. split; [exact A5|]. split; [rewrite T5, S5; reflexivity|].
      split; [cbn [sc_g s']; rewrite G1, Ls2; exact Hl1|]. cbn [sc_root s']. split; assumption.
  Qed.

  Lemma api_step : forall f s L c b s',
      Inv s L -> api_call orc imm f body s c = Ok (b, s') ->
      exists L', call_ok c L (observe b s') L' /\ Inv s' L'.
  Proof.
    intros f s L c b s' HI H. pose proof (shape_nofire _ _ _ _ _ H) as NF.
    destruct c as [|id| |k l|o|o]; cbn [api_call] in H.
    - (* start *)
      destruct (sc_root s) as [r0|] eqn:Hroot.
      + inv H. destruct (quiet_same _ _ true AStart HI) as [Q1 Q2]. rewrite Hroot in *.
        exists L. split; [exact Q1|exact Q2].
      + match type of H with match ?X with _ => _ end = _ => destruct X as [[st g']| | |] eqn:E end;
          try discriminate. inv H.
        pose proof HI as (_ & Hr). rewrite Hroot in Hr. destruct Hr as [-> Htid].
        destruct (start_step f _ _ _ HI Hroot Htid E) as (S1 & L' & S2 & S3 & S4).
        exists L'. split; [|exact S4]. split; [|split].
        * rewrite (sfp_sfo _ _ _ NF). exact S1.
        * exact S2.
        * exact S3.
    - (* completion *)
      change (g_awaited (clear_log (sc_g s))) with (g_awaited (sc_g s)) in H.
      destruct (mem id (g_awaited (sc_g s))).
      + destruct (sc_root s) as [[|id'|cid i sti|sts|bb i sti|k i sti|sts]|] eqn:Hroot; try discriminate.
        match type of H with match ?X with _ => _ end = _ => destruct X as [[st g']| | |] eqn:E end;
          try discriminate. inv H.
        pose proof HI as (_ & Hr). rewrite Hroot in Hr. destruct Hr as (-> & _).
        destruct (finish_step f _ _ id _ _ _ _ HI Hroot E) as (S1 & L' & S2 & S3 & S4).
        exists L'. split; [|exact S4]. split; [|split].
        * rewrite (sfp_sfo _ _ _ NF). exact S1.
        * exact S2.
        * exact S3.
      + inv H. destruct (quiet_same _ _ false (AFinish id) HI) as [Q1 Q2].
        exists L. split; [exact Q1|exact Q2].
    - inv H. destruct (quiet_same _ _ false AJunk HI) as [Q1 Q2].
      exists L. split; [exact Q1|exact Q2].
    - (* register *)
      change (g_ls (clear_log (sc_g s))) with (g_ls (sc_g s)) in H.
      destruct (existsb (fun p => nkind_eqb (fst p) k && Nat.eqb (snd p) l) (g_ls (sc_g s))) eqn:Ex.
      + inv H. destruct (quiet_same _ _ false (ARegister k l) HI) as [Q1 Q2].
        exists L. split; [exact Q1|exact Q2].
      + inv H.
        destruct (quiet_step _ _ true (ARegister k l) (g_ls (sc_g s) ++ [(k, l)]) (g_obs (sc_g s)) HI
                             (register_keeps _ _ _ (proj1 HI) Ex)) as [Q1 Q2].
        exists L. split; [exact Q1|exact Q2].
    - inv H.
      destruct (quiet_step _ _ true (AAttach o) (g_ls (sc_g s)) (g_obs (sc_g s) ++ [o]) HI (proj1 HI)) as [Q1 Q2].
      exists L. split; [exact Q1|exact Q2].
    - change (g_obs (clear_log (sc_g s))) with (g_obs (sc_g s)) in H.
      destruct (remove_first (Nat.eqb o) (g_obs (sc_g s))) as [l|]; [|discriminate]. inv H.
      destruct (quiet_step _ _ true (ADetach o) (g_ls (sc_g s)) l HI (proj1 HI)) as [Q1 Q2].
      exists L. split; [exact Q1|exact Q2].
  Qed.

  Theorem C07_run : forall f cs s L tr,
      Inv s L -> run_script orc imm f body s cs = Ok tr -> life_calls L cs tr = true.
  Proof.
    intros f cs. induction cs as [|c cs IH]; intros s L tr HI H; cbn [run_script] in H.
    - inv H. reflexivity.
    - destruct (api_call orc imm f body s c) as [[b s']| | |] eqn:E; try discriminate.
      cbn [rbind] in H.
      destruct (run_script orc imm f body s' cs) as [t| | |] eqn:E2; try discriminate.
      cbn [rbind] in H. inv H.
      destruct (api_step _ _ _ _ _ _ HI E) as (L' & (S1 & S2 & S3) & S4).
      cbn [life_calls]. rewrite S1, S2, S3. cbn [andb]. eapply IH; eassumption.
  Qed.
End Api.

(* Every run of the reference semantics, for every program body, oracle, choice of
   immediate completions, amount of fuel and every script of API calls: if the model runs
   to the end of the script the lifecycle monitor accepts the trace. *)
Theorem C07_ref : forall orc imm body f cs tr,
    run_script orc imm f body sched0 cs = Ok tr -> holds_C07 cs tr = true.
Proof.
  intros orc imm body f cs tr H. unfold holds_C07.
  eapply C07_run; [|exact H].
  split; [apply lst_all_default|]. cbn. split; reflexivity.
Qed.

Theorem C07_ref_programs : forall (c : runcase) (tr : list callrec),
    run_ref c = Ok tr -> holds_C07 (rc_script c) tr = true.
Proof.
  intros c tr H. unfold run_ref in H.
  destruct (existsb _ (rc_react c)); [discriminate|].
  destruct (unfold_program (p_tasks (rc_prog c)) 200) as [body| | |]; try discriminate.
  cbn [rbind] in H. eapply C07_ref; exact H.
Qed.

(* the hypothesis is inhabited by a run through all statement kinds that reaches the end of
   the order (16 API calls, one service completed from inside its own notification) *)
Theorem C07_ref_nonvacuous :
  exists tr, run_ref ex_case = Ok tr /\ existsb (fun r => cr_final r) tr = true
             /\ holds_C07 (rc_script ex_case) tr = true.
Proof.
  destruct ex_runs as (tr & H & _ & Hf). exists tr. split; [exact H|]. split; [exact Hf|].
  exact (C07_ref_programs _ _ H).
Qed.
