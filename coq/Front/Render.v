(* Front/Render.v — printing a program: AST -> forest of logical lines -> token stream /
   physical lines under a layout (model support file: definitions only).

   [forest_of] is the structure of the program text: one node per logical line, its
   children are the block indented under it (harness/front_lines.py: forest, struct
   literals in the indented-block form).  [skel_forest] is the token stream the parser must
   see.  [render] lays the forest out as physical lines. *)
From PFDL.Front Require Export FrontEnd.

Inductive ltree := LNode (lex : list tok) (kids : list ltree).

(* ---- lexemes of the leaves of the grammar ---- *)
Definition toks_prim (p : prim) : list tok :=
  match p with
  | TNumber => [KNumberP] | TString => [KStringP] | TBoolean => [KBooleanP]
  | TStructName s => [TUpper s]
  end.

Definition toks_alen (l : alen) : list tok :=
  match l with
  | LenNone => [PArrL; PArrR]
  | LenNat n => [PArrL; TInt n; PArrR]
  | LenVar v => [PArrL; TLower v; PArrR]
  end.

Definition toks_vtype (t : vtype) : list tok :=
  match t with
  | TPlain p => toks_prim p
  | TArray p l => toks_prim p ++ toks_alen l
  end.

Definition toks_vardef (d : name * vtype) : list tok :=
  TLower (fst d) :: PColon :: toks_vtype (snd d).

Definition toks_pelem (e : pelem) : list tok :=
  match e with
  | PF a => [PDot; TLower a]
  | PIdxVar v => [PArrL; TLower v; PArrR]
  | PIdxLit k => [PArrL; TInt k; PArrR]
  | PIdxNone => [PArrL; PArrR]
  end.

Definition toks_path (p : list pelem) : list tok := flat_map toks_pelem p.

(* number: MINUS? (INTEGER | FLOAT) *)
Definition toks_posnum (q : Q) : tok :=
  match Qden q with
  | xH => TInt (Z.to_nat (Qnum q))
  | _ => TFloat q
  end.

Definition toks_num (q : Q) : list tok :=
  if (Qnum q <? 0)%Z then [OpMinus; toks_posnum (Qopp q)] else [toks_posnum q].

Definition tok_of_binop (o : binop) : tok :=
  match o with
  | OLt => OpLt | OLe => OpLe | OGt => OpGt | OGe => OpGe | OEq => OpEq | ONe => OpNe
  | OAnd => OpAnd | OOr => OpOr | OAdd => OpPlus | OSub => OpMinus | OMul => OpStar | ODiv => OpSlash
  end.

Fixpoint toks_expr (e : expr) : list tok :=
  match e with
  | ENum q => toks_num q
  | EBool true => [KTrue]
  | EBool false => [KFalse]
  | EStr s => [TStr s]
  | EPath v p => TLower v :: toks_path p
  | ENot x => OpNot :: toks_expr x
  | EParen x => PLParen :: toks_expr x ++ [PRParen]
  | EBin o l r => toks_expr l ++ tok_of_binop o :: toks_expr r
  end.

Fixpoint toks_json (top : bool) (j : json) : list tok :=
  match j with
  | JNum q => [JNumber q]
  | JBool true => [JTrue]
  | JBool false => [JFalse]
  | JStr s => [JString s]
  | JObj fs =>
    (if top then PJsonOpen else JOpen2)
    :: (fix pairs (l : list (name * json)) : list tok :=
          match l with
          | [] => []
          | [(k, v)] => JString k :: JColon :: toks_json false v
          | (k, v) :: r => JString k :: JColon :: toks_json false v ++ JComma :: pairs r
          end) fs
    ++ [JClose]
  | JArr es =>
    JArrL
    :: (fix elems (l : list json) : list tok :=
          match l with
          | [] => []
          | [v] => toks_json false v
          | v :: r => toks_json false v ++ JComma :: elems r
          end) es
    ++ [JArrR]
  end.

Definition toks_limit (l : limit) : list tok :=
  match l with
  | LimInt n => [TInt n]
  | LimPath v p => TLower v :: toks_path p
  end.

(* ---- the forest ---- *)
Definition leaf (lex : list tok) : ltree := LNode lex [].

Definition forest_param (p : param) : ltree :=
  match p with
  | PVar v => leaf [TLower v]
  | PPath v p => leaf (TLower v :: toks_path p)
  | PLit s j => LNode [TUpper s] [leaf (toks_json true j)]
  end.

Definition forest_io (ins : list param) (outs : outparams) : list ltree :=
  (match ins with [] => [] | _ => [LNode [KIn] (map forest_param ins)] end)
  ++ (match outs with [] => [] | _ => [LNode [KOut] (map (fun d => leaf (toks_vardef d)) outs)] end).

Definition forest_call (head : tok) (ins : list param) (outs : outparams) : ltree :=
  LNode [head] (forest_io ins outs).

Fixpoint forest_stmt (s : stmt) : list ltree :=
  match s with
  | SService n ins outs => [forest_call (TUpper n) ins outs]
  | SCall c => [forest_call (TLower (c_name c)) (c_ins c) (c_outs c)]
  | SParallel cs =>
    [LNode [KParallel] (map (fun c => forest_call (TLower (c_name c)) (c_ins c) (c_outs c)) cs)]
  | SWhile e body =>
    [LNode (KLoop :: KWhile :: toks_expr e)
           ((fix go (l : list stmt) := match l with [] => [] | x :: r => forest_stmt x ++ go r end) body)]
  | SCount par v lim body =>
    [LNode ((if par then [KParallel] else []) ++ KLoop :: TLower v :: KTo :: toks_limit lim)
           ((fix go (l : list stmt) := match l with [] => [] | x :: r => forest_stmt x ++ go r end) body)]
  | SCond e passed failed =>
    LNode [KCondition] [leaf (toks_expr e)]
    :: LNode [KPassed]
         ((fix go (l : list stmt) := match l with [] => [] | x :: r => forest_stmt x ++ go r end) passed)
    :: match failed with
       | [] => []
       | _ => [LNode [KFailed]
                 ((fix go (l : list stmt) := match l with [] => [] | x :: r => forest_stmt x ++ go r end) failed)]
       end
  end.

Definition forest_stmts (ss : list stmt) : list ltree := flat_map forest_stmt ss.

Definition forest_struct (s : structdef) : list ltree :=
  [ LNode [KStruct; TUpper (s_name s)] (map (fun d => leaf (toks_vardef d)) (s_attrs s));
    leaf [KEnd] ].

Definition forest_task (t : task) : list ltree :=
  [ LNode [KTask; TLower (t_name t)]
      ((match t_ins t with [] => [] | _ => [LNode [KIn] (map (fun d => leaf (toks_vardef d)) (t_ins t))] end)
       ++ forest_stmts (t_body t)
       ++ (match t_outs t with [] => [] | _ => [LNode [KOut] (map (fun n => leaf [TLower n]) (t_outs t))] end));
    leaf [KEnd] ].

(* structs first, then tasks (the Process keeps the two in separate dictionaries) *)
Definition forest_of (p : program) : list ltree :=
  flat_map forest_struct (p_structs p) ++ flat_map forest_task (p_tasks p).

(* ---- the token stream of a forest ---- *)
Fixpoint skel_tree (t : ltree) : list dtok :=
  match t with
  | LNode lex kids =>
    map DTok lex ++
    match kids with
    | [] => [DNL]
    | _ => DIndent :: (fix go (l : list ltree) := match l with [] => [] | x :: r => skel_tree x ++ go r end) kids
                   ++ [DDedent]
    end
  end.

Definition skel_forest (f : list ltree) : list dtok := flat_map skel_tree f.

(* ---- the structure (depth, lexemes) of a forest, in text order ---- *)
Fixpoint flatten_tree (d : nat) (t : ltree) : list (nat * list tok) :=
  match t with
  | LNode lex kids =>
    (d, lex) :: (fix go (l : list ltree) := match l with [] => [] | x :: r => flatten_tree (S d) x ++ go r end) kids
  end.

Definition flatten (d : nat) (f : list ltree) : list (nat * list tok) := flat_map (flatten_tree d) f.

(* ---- a family of layouts ---- *)
Record layout := {
  lay_step : nat -> nat;          (* a block at depth d is indented by 1 + lay_step d more than its parent *)
  lay_cr : bool;                  (* CR LF line ends *)
  lay_trail : nat;                (* trailing blanks on every line *)
  lay_comment : option nat;       (* a trailing comment on every line *)
  lay_before : list line;         (* lines put before every significant line ... *)
  lay_after : list line;          (* ... and at the end of the text (blank / comment-only) *)
  lay_final_nl : bool
}.

(* the filler lines carry no lexemes *)
Definition filler_ok (ls : list line) : bool :=
  forallb (fun l => match l_lex l with [] => true | _ => false end) ls.

Definition layout_wf (L : layout) : bool := filler_ok (lay_before L) && filler_ok (lay_after L).

Fixpoint indent_at (L : layout) (d : nat) : nat :=
  match d with
  | O => O
  | S d' => indent_at L d' + S (lay_step L d')
  end.

Definition render_line (L : layout) (dl : nat * list tok) : list line :=
  lay_before L ++
  [ {| l_indent := indent_at L (fst dl); l_lex := snd dl; l_comment := lay_comment L;
       l_trail := lay_trail L; l_cr := lay_cr L |} ].

Definition render_lines (L : layout) (ds : list (nat * list tok)) : text :=
  {| t_lines := flat_map (render_line L) ds ++ lay_after L; t_final_nl := lay_final_nl L |}.

Definition render (L : layout) (p : program) : text := render_lines L (flatten 0 (forest_of p)).

(* ---- side conditions of the round trip ---- *)
(* attribute_access: LOWER (DOT LOWER array?)+ *)
Fixpoint path_tail_ok (p : list pelem) : bool :=
  match p with
  | [] => true
  | PF _ :: r =>
    match r with
    | PF _ :: _ => path_tail_ok r
    | [] => true
    | _ :: r' => match r' with PF _ :: _ => path_tail_ok r' | [] => true | _ => false end
    end
  | _ => false
  end.

Definition path_ok (p : list pelem) : bool :=
  match p with PF _ :: _ => path_tail_ok p | _ => false end.

(* numbers are printed as MINUS? (INTEGER | FLOAT): any rational whose denominator is 1
   is an INTEGER; floats carry their value *)
Definition num_ok (q : Q) : bool := true.

(* struct literals: an object; keys of every object distinct; no list directly in a list *)
Fixpoint json_ok (j : json) : bool :=
  match j with
  | JObj fs =>
    negb (has_dup ((fix keys (l : list (name * json)) := match l with [] => [] | (k, _) :: r => k :: keys r end) fs))
    && (fix all (l : list (name * json)) := match l with [] => true | (_, v) :: r => json_ok v && all r end) fs
  | JArr es =>
    (fix all (l : list json) :=
       match l with
       | [] => true
       | JArr _ :: _ => false
       | v :: r => json_ok v && all r
       end) es
  | _ => true
  end.

Definition lit_ok (j : json) : bool := match j with JObj _ => json_ok j | _ => false end.

Definition param_ok (p : param) : bool :=
  match p with
  | PVar _ => true
  | PPath _ p => path_ok p
  | PLit _ j => lit_ok j
  end.

Definition vardefs_ok (ds : list (name * vtype)) : bool := negb (vardefs_bad ds).

Definition call_ok (c : call) : bool := forallb param_ok (c_ins c) && vardefs_ok (c_outs c).

Definition limit_ok (l : limit) : bool :=
  match l with LimInt _ => true | LimPath _ p => path_ok p end.

(* ---- expressions that print without ambiguity under a level table ---- *)
Section Normal.
  Variable T : level_table.
  Variable not_level : nat.

  Definition level_of (o : binop) : option (nat * nat) :=
    match op_class (tok_of_binop o) with
    | Some (_, c) => lookup_level c T
    | None => None
    end.

  (* an operator of level lv written directly after e is not captured by a sub-expression
     at the right edge of e *)
  Fixpoint follows_ok (e : expr) (lv : nat) : bool :=
    match e with
    | ENot x => (lv <? not_level) && follows_ok x lv
    | EBin o _ r =>
      match level_of o with
      | Some (_, rhs) => (lv <? rhs) && follows_ok r lv
      | None => false
      end
    | _ => true
    end.

  (* e is a tree the precedence-climbing parser builds when called with level p *)
  Fixpoint normal (p : nat) (e : expr) : bool :=
    match e with
    | ENum _ | EBool _ | EStr _ => true
    | EPath _ pth => path_ok pth
    | EParen x => normal impl_paren_level x
    | ENot x => normal not_level x
    | EBin o l r =>
      match level_of o with
      | Some (lv, rhs) => (p <=? lv) && normal p l && follows_ok l lv && normal rhs r
      | None => false
      end
    end.

  (* the expression of a Condition / while loop *)
  Definition expr_ok (e : expr) : bool :=
    match e with EStr _ => false | _ => normal 0 e end.

  Fixpoint stmt_ok (s : stmt) : bool :=
    match s with
    | SService _ ins outs => forallb param_ok ins && vardefs_ok outs
    | SCall c => call_ok c
    | SParallel cs => match cs with [] => false | _ => forallb call_ok cs end
    | SWhile e body =>
      expr_ok e && match body with [] => false | _ => true end
      && (fix all (l : list stmt) := match l with [] => true | x :: r => stmt_ok x && all r end) body
    | SCount _ _ lim body =>
      limit_ok lim && match body with [] => false | _ => true end
      && (fix all (l : list stmt) := match l with [] => true | x :: r => stmt_ok x && all r end) body
    | SCond e a b =>
      expr_ok e && match a with [] => false | _ => true end
      && (fix all (l : list stmt) := match l with [] => true | x :: r => stmt_ok x && all r end) a
      && (fix all (l : list stmt) := match l with [] => true | x :: r => stmt_ok x && all r end) b
    end.

  Definition struct_ok (s : structdef) : bool :=
    match s_attrs s with [] => false | _ => vardefs_ok (s_attrs s) end.

  Definition task_ok (t : task) : bool :=
    vardefs_ok (t_ins t) && match t_body t with [] => false | _ => forallb stmt_ok (t_body t) end.

  (* the guard of the round trip: the program is one the grammar can express (non-empty
     blocks, well-shaped attribute paths, struct literals that are objects, expressions in
     the parser's normal form) and the visitor accepts (no duplicate definitions, array
     lengths in definitions are integers) *)
  Definition prog_ok (p : program) : bool :=
    negb (has_dup (map s_name (p_structs p))) && negb (has_dup (map t_name (p_tasks p)))
    && forallb struct_ok (p_structs p) && forallb task_ok (p_tasks p).
End Normal.

Definition names_ok (p : program) : bool := prog_ok impl_levels impl_not_level p.

(* the full statement of the round trip, for the family of layouts [render] *)
Definition C12_roundtrip_statement : Prop :=
  forall L p, layout_wf L = true -> names_ok p = true -> front_end (render L p) = FOk p.

(* ... and for every text whose structure is that of the program *)
Definition C12_roundtrip_canon_statement : Prop :=
  forall t p, names_ok p = true -> canon t = Some (flatten 0 (forest_of p)) -> front_end t = FOk p.
