(* Front/ExprParseProofs.v — the precedence-climbing parser reads back every expression that
   is in the normal form of its level table ([Render.normal]), for ANY level table. *)
From PFDL.Front Require Import Render ParserProofs.
From Coq Require Import Lia.

Lemma fbind_inv : forall A B (m : fres A) (k : A -> fres B) v,
  fbind m k = FOk v -> exists a, m = FOk a /\ k a = FOk v.
Proof. intros A B [a| | | |] k v H; cbn in H; try discriminate. exists a. split; [reflexivity|exact H]. Qed.

(* ---- more fuel does not change a successful parse ---- *)
Lemma path_tail_mono : forall f ts v,
  parse_path_tail f ts = FOk v -> forall f', f <= f' -> parse_path_tail f' ts = FOk v.
Proof.
  induction f as [|f IH]; intros ts v H f' Hle; [discriminate|].
  destruct f' as [|f']; [lia|]. assert (Hle' : f <= f') by lia.
  cbn [parse_path_tail] in H |- *.
  destruct ts as [|[t| | | |] r]; try exact H.
  destruct t; try exact H.
  destruct r as [|[t2| | | |] r2]; try exact H.
  destruct t2; try exact H.
  destruct (starts_array r2).
  - apply fbind_inv in H. destruct H as [[l r1] [Ha H]]. rewrite Ha. cbn [fbind].
    apply fbind_inv in H. destruct H as [[p r3] [Hp H]]. rewrite (IH _ _ Hp f' Hle'). exact H.
  - apply fbind_inv in H. destruct H as [[p r3] [Hp H]]. rewrite (IH _ _ Hp f' Hle'). exact H.
Qed.

Lemma path_rest_mono : forall f ts v,
  parse_path_rest f ts = FOk v -> forall f', f <= f' -> parse_path_rest f' ts = FOk v.
Proof.
  intros f ts v H f' Hle. unfold parse_path_rest in *.
  destruct (starts_dot ts); [|discriminate]. eapply path_tail_mono; eauto.
Qed.

Section ExprRT.
  Variable T : level_table.
  Variable nlv : nat.
  Notation pexpr := (parse_expr T nlv).
  Notation pprim := (parse_primary T nlv).
  Notation pops := (parse_ops T nlv).

  (* unfolding equations *)
  Lemma parse_expr_S : forall f p ts,
    pexpr (S f) p ts = (do '(lhs, r) <- pprim f ts ;; pops f p lhs r).
  Proof. reflexivity. Qed.

  Lemma parse_ops_S : forall f p lhs ts,
    pops (S f) p lhs ts =
    match ts with
    | DTok t :: r =>
      match op_class t with
      | Some (o, c) =>
        match lookup_level c T with
        | Some (lv, rhs_level) =>
          if p <=? lv then
            do '(rhs, r1) <- pexpr f rhs_level r ;; pops f p (EBin o lhs rhs) r1
          else FOk (lhs, ts)
        | None => FSyntax
        end
      | None => FOk (lhs, ts)
      end
    | _ => FOk (lhs, ts)
    end.
  Proof. reflexivity. Qed.

  Lemma prim_paren : forall f r,
    pprim (S f) (DTok PLParen :: r) =
    (do '(e, r1) <- pexpr f impl_paren_level r ;;
     match r1 with DTok PRParen :: r2 => FOk (EParen e, r2) | _ => FSyntax end).
  Proof. reflexivity. Qed.

  Lemma prim_not : forall f r,
    pprim (S f) (DTok OpNot :: r) = (do '(e, r1) <- pexpr f nlv r ;; FOk (ENot e, r1)).
  Proof. reflexivity. Qed.

  Lemma prim_path : forall f v r,
    pprim (S f) (DTok (TLower v) :: r) = (do '(p, r1) <- parse_path_rest f r ;; FOk (EPath v p, r1)).
  Proof. reflexivity. Qed.

  Lemma mono : forall f,
    (forall p ts v, pexpr f p ts = FOk v -> forall f', f <= f' -> pexpr f' p ts = FOk v) /\
    (forall ts v, pprim f ts = FOk v -> forall f', f <= f' -> pprim f' ts = FOk v) /\
    (forall p lhs ts v, pops f p lhs ts = FOk v -> forall f', f <= f' -> pops f' p lhs ts = FOk v).
  Proof.
    induction f as [|f [IHe [IHp IHo]]].
    - repeat split; intros; discriminate.
    - repeat split.
      + intros p ts v H f' Hle. destruct f' as [|f']; [lia|]. assert (Hle' : f <= f') by lia.
        rewrite parse_expr_S in H |- *.
        apply fbind_inv in H. destruct H as [[lhs r] [Hp H]].
        rewrite (IHp _ _ Hp f' Hle'). cbn [fbind]. exact (IHo _ _ _ _ H f' Hle').
      + intros ts v H f' Hle. destruct f' as [|f']; [lia|]. assert (Hle' : f <= f') by lia.
        destruct ts as [|[t| | | |] r]; try discriminate H.
        destruct t; try discriminate H; try exact H.
        * (* ( *)
          rewrite prim_paren in H |- *.
          apply fbind_inv in H. destruct H as [[e r1] [He H]].
          rewrite (IHe _ _ _ He f' Hle'). exact H.
        * (* ! *)
          rewrite prim_not in H |- *.
          apply fbind_inv in H. destruct H as [[e r1] [He H]].
          rewrite (IHe _ _ _ He f' Hle'). exact H.
        * (* path *)
          rewrite prim_path in H |- *.
          apply fbind_inv in H. destruct H as [[pth r1] [Hp H]].
          rewrite (path_rest_mono _ _ _ Hp f' Hle'). exact H.
      + intros p lhs ts v H f' Hle. destruct f' as [|f']; [lia|]. assert (Hle' : f <= f') by lia.
        rewrite parse_ops_S in H |- *.
        destruct ts as [|[t| | | |] r]; try exact H.
        destruct (op_class t) as [[o c]|]; [|exact H].
        destruct (lookup_level c T) as [[lv rl]|]; [|exact H].
        destruct (p <=? lv); [|exact H].
        apply fbind_inv in H. destruct H as [[rhs r1] [He H]].
        rewrite (IHe _ _ _ He f' Hle'). cbn [fbind]. exact (IHo _ _ _ _ H f' Hle').
  Qed.

  Lemma ops_mono : forall f p lhs ts v f',
    pops f p lhs ts = FOk v -> f <= f' -> pops f' p lhs ts = FOk v.
  Proof. intros f p lhs ts v f' H Hle. destruct (mono f) as [_ [_ Ho]]. eauto. Qed.

  (* ---- primaries ---- *)
  Lemma q_of_nat_to_nat : forall n, (0 <= n)%Z -> q_of_nat (Z.to_nat n) = Qmake n 1.
  Proof. intros n H. unfold q_of_nat. rewrite Z2Nat.id by exact H. reflexivity. Qed.

  Lemma prim_num : forall q f r, pprim (S f) (map DTok (toks_num q) ++ r) = FOk (ENum q, r).
  Proof.
    intros [n d] f r. unfold toks_num. cbn [Qnum].
    destruct (n <? 0)%Z eqn:Hneg.
    - apply Z.ltb_lt in Hneg. unfold toks_posnum. cbn [Qopp Qden Qnum].
      destruct d as [d'|d'| ].
      + cbn [map app]. cbn [parse_primary]. unfold Qopp. cbn [Qnum Qden]. rewrite Z.opp_involutive. reflexivity.
      + cbn [map app]. cbn [parse_primary]. unfold Qopp. cbn [Qnum Qden]. rewrite Z.opp_involutive. reflexivity.
      + cbn [map app]. cbn [parse_primary]. rewrite q_of_nat_to_nat by lia.
        unfold Qopp. cbn [Qnum Qden]. rewrite Z.opp_involutive. reflexivity.
    - apply Z.ltb_ge in Hneg. unfold toks_posnum. cbn [Qden Qnum].
      destruct d as [d'|d'| ]; cbn [map app parse_primary]; try reflexivity.
      rewrite q_of_nat_to_nat by exact Hneg. reflexivity.
  Qed.

  (* ---- what may follow the text of an expression ---- *)
  Definition cont_ok (e : expr) (r : toks) : Prop :=
    match r with
    | DTok t :: _ =>
      t <> PDot /\ t <> PArrL /\
      match op_class t with
      | Some (_, c) =>
        match lookup_level c T with
        | Some (lv, _) => follows_ok T nlv e lv = true
        | None => True
        end
      | None => True
      end
    | _ => True
    end.

  Lemma cont_path_follow : forall e r, cont_ok e r -> path_follow r.
  Proof.
    intros e r H. unfold path_follow. destruct r as [|[t| | | |] r]; try (split; reflexivity).
    destruct H as [H1 [H2 _]]. destruct t; try (split; reflexivity); congruence.
  Qed.

  (* the operator loop stops at r with the tree e when the continuation (which starts at the
     same r, with an enclosing tree) succeeds and every operator at r has a level below q *)
  Lemma ops_stop : forall q e r,
    (forall t rest o c lv rl, r = DTok t :: rest -> op_class t = Some (o, c) ->
                              lookup_level c T = Some (lv, rl) -> lv < q) ->
    (forall t rest o c, r = DTok t :: rest -> op_class t = Some (o, c) -> lookup_level c T <> None) ->
    pops 1 q e r = FOk (e, r).
  Proof.
    intros q e r Hlt Hsome. rewrite parse_ops_S.
    destruct r as [|[t| | | |] rest]; try reflexivity.
    destruct (op_class t) as [[o c]|] eqn:Hoc; [|reflexivity].
    destruct (lookup_level c T) as [[lv rl]|] eqn:Hl.
    - specialize (Hlt t rest o c lv rl eq_refl Hoc Hl).
      replace (q <=? lv) with false by (symmetry; apply Nat.leb_gt; lia). reflexivity.
    - exfalso. exact (Hsome t rest o c eq_refl Hoc Hl).
  Qed.

  (* a successful continuation knows the level of the operator at r *)
  Lemma ops_ok_lookup : forall g p E r v t rest o c,
    pops g p E r = FOk v -> r = DTok t :: rest -> op_class t = Some (o, c) -> lookup_level c T <> None.
  Proof.
    intros g p E r v t rest o c H -> Hoc Hl. destruct g as [|g]; [discriminate|].
    rewrite parse_ops_S in H. rewrite Hoc, Hl in H. discriminate.
  Qed.

  Lemma op_class_binop : forall o, exists c, op_class (tok_of_binop o) = Some (o, c).
  Proof. intros []; eexists; reflexivity. Qed.

  Lemma binop_not_path : forall o, tok_of_binop o <> PDot /\ tok_of_binop o <> PArrL.
  Proof. intros []; split; discriminate. Qed.

  (* fuel needed to parse the text of e and reach the continuation *)
  Fixpoint need (e : expr) : nat :=
    match e with
    | ENot x => need x + 3
    | EParen x => need x + 3
    | EBin _ l r => need l + need r + 2
    | _ => length (toks_expr e) + 2
    end.

  Lemma atom_step : forall a p g r v f,
    (forall f0, pprim (S f0) (map DTok (toks_expr a) ++ r) = FOk (a, r)) ->
    pops g p a r = FOk v -> g + 2 <= f ->
    pexpr f p (map DTok (toks_expr a) ++ r) = FOk v.
  Proof.
    intros a p g r v f Hprim Hops Hf.
    destruct f as [|f]; [lia|]. rewrite parse_expr_S.
    destruct f as [|f]; [lia|]. rewrite Hprim. cbn [fbind].
    apply (ops_mono g); [exact Hops|lia].
  Qed.

  (* parsing the text of a normal expression e at level p hands e over to the operator loop *)
  Theorem expr_cont : forall e p g r v f,
    normal T nlv p e = true -> cont_ok e r ->
    pops g p e r = FOk v -> g + need e <= f ->
    pexpr f p (map DTok (toks_expr e) ++ r) = FOk v.
  Proof.
    induction e as [q|b|s|x pth|x IHx|x IHx|o l IHl r2 IHr]; intros p g r v f Hn Hc Hops Hf.
    - (* number *)
      apply (atom_step _ p g r v f); [intros; apply prim_num|exact Hops|cbn [need] in Hf; lia].
    - apply (atom_step _ p g r v f); [intros; destruct b; reflexivity|exact Hops|cbn [need] in Hf; lia].
    - apply (atom_step _ p g r v f); [intros; reflexivity|exact Hops|cbn [need] in Hf; lia].
    - (* attribute access *)
      cbn [normal] in Hn. cbn [need toks_expr length] in Hf.
      destruct f as [|f]; [lia|]. rewrite parse_expr_S.
      destruct f as [|f]; [lia|]. cbn [toks_expr map app]. rewrite prim_path.
      pose proof (toks_path_len pth).
      rewrite parse_path_rest_rt; [|exact Hn|exact (cont_path_follow _ _ Hc)|lia].
      cbn [fbind]. apply (ops_mono g); [exact Hops|lia].
    - (* ! x *)
      cbn [normal] in Hn. cbn [need] in Hf.
      destruct f as [|f]; [lia|]. rewrite parse_expr_S.
      destruct f as [|f]; [lia|]. cbn [toks_expr map app]. rewrite prim_not.
      assert (Hcx : cont_ok x r).
      { unfold cont_ok in *. destruct r as [|[t| | | |] rest]; try exact I.
        destruct Hc as [H1 [H2 H3]]. split; [exact H1|split; [exact H2|]].
        destruct (op_class t) as [[o c]|]; [|exact I].
        destruct (lookup_level c T) as [[lv rl]|]; [|exact I].
        cbn [follows_ok] in H3. apply andb_prop in H3. exact (proj2 H3). }
      rewrite (IHx nlv 1 r (x, r) f Hn Hcx).
      + cbn [fbind]. apply (ops_mono g); [exact Hops|lia].
      + apply ops_stop.
        * intros t rest o c lv rl -> Hoc Hl. unfold cont_ok in Hc. destruct Hc as [_ [_ H3]].
          rewrite Hoc, Hl in H3. cbn [follows_ok] in H3. apply andb_prop in H3.
          apply Nat.ltb_lt. exact (proj1 H3).
        * intros t rest o c Hr Hoc. exact (ops_ok_lookup _ _ _ _ _ _ _ _ _ Hops Hr Hoc).
      + lia.
    - (* ( x ) *)
      cbn [normal] in Hn. cbn [need] in Hf.
      destruct f as [|f]; [lia|]. rewrite parse_expr_S.
      destruct f as [|f]; [lia|]. cbn [toks_expr map app]. rewrite map_app. norm_app. cbn [map app].
      rewrite prim_paren.
      rewrite (IHx impl_paren_level 1 (DTok PRParen :: r) (x, DTok PRParen :: r) f Hn).
      + cbn [fbind]. apply (ops_mono g); [exact Hops|lia].
      + unfold cont_ok. split; [discriminate|split; [discriminate|exact I]].
      + reflexivity.
      + lia.
    - (* l o r2 *)
      cbn [normal] in Hn. destruct (level_of T o) as [[lv rhs]|] eqn:Hlv; [|discriminate].
      apply andb_prop in Hn. destruct Hn as [Hn Hnr]. apply andb_prop in Hn. destruct Hn as [Hn Hfl].
      apply andb_prop in Hn. destruct Hn as [Hp Hnl].
      cbn [need] in Hf.
      destruct (op_class_binop o) as [c Hoc]. unfold level_of in Hlv. rewrite Hoc in Hlv.
      cbn [toks_expr]. rewrite map_app. cbn [map]. norm_app.
      apply (IHl p (g + need r2 + 2) (DTok (tok_of_binop o) :: map DTok (toks_expr r2) ++ r) v f Hnl).
      + unfold cont_ok. destruct (binop_not_path o) as [H1 H2]. split; [exact H1|split; [exact H2|]].
        rewrite Hoc, Hlv. exact Hfl.
      + replace (g + need r2 + 2) with (S (g + need r2 + 1)) by lia.
        rewrite parse_ops_S. rewrite Hoc, Hlv, Hp.
        assert (Hcr : cont_ok r2 r).
        { unfold cont_ok in *. destruct r as [|[t| | | |] rest]; try exact I.
          destruct Hc as [H1 [H2 H3]]. split; [exact H1|split; [exact H2|]].
          destruct (op_class t) as [[o' c']|]; [|exact I].
          destruct (lookup_level c' T) as [[lv' rl']|]; [|exact I].
          cbn [follows_ok] in H3. unfold level_of in H3. rewrite Hoc, Hlv in H3.
          apply andb_prop in H3. exact (proj2 H3). }
        rewrite (IHr rhs 1 r (r2, r) (g + need r2 + 1) Hnr Hcr).
        * cbn [fbind]. apply (ops_mono g); [exact Hops|lia].
        * apply ops_stop.
          -- intros t rest o' c' lv' rl' -> Hoc' Hl'. unfold cont_ok in Hc. destruct Hc as [_ [_ H3]].
             rewrite Hoc', Hl' in H3. cbn [follows_ok] in H3. unfold level_of in H3. rewrite Hoc, Hlv in H3.
             apply andb_prop in H3. apply Nat.ltb_lt. exact (proj1 H3).
          -- intros t rest o' c' Hr Hoc'. exact (ops_ok_lookup _ _ _ _ _ _ _ _ _ Hops Hr Hoc').
        * lia.
      + lia.
  Qed.

  Lemma need_bound : forall e, need e <= 3 * length (toks_expr e).
  Proof.
    induction e as [q|b|s|x pth|x IHx|x IHx|o l IHl r2 IHr]; cbn [need].
    - assert (1 <= length (toks_expr (ENum q))).
      { cbn [toks_expr]. unfold toks_num. destruct (Qnum q <? 0)%Z; cbn [length]; lia. }
      lia.
    - destruct b; cbn [toks_expr length]; lia.
    - cbn [toks_expr length]. lia.
    - cbn [toks_expr length]. lia.
    - cbn [toks_expr length]. lia.
    - cbn [toks_expr length]. rewrite app_length. cbn [length]. lia.
    - cbn [toks_expr]. rewrite app_length. cbn [length]. lia.
  Qed.

  (* the expression of a while loop / Condition: what follows is INDENT or NL *)
  Theorem expr_roundtrip : forall e f r,
    expr_ok T nlv e = true -> layout_head r -> length (toks_expr e) < f ->
    pexpr (expr_fuel f) 0 (map DTok (toks_expr e) ++ r) = FOk (e, r).
  Proof.
    intros e f r Hok Hr Hf.
    assert (Hn : normal T nlv 0 e = true) by (destruct e; try exact Hok; discriminate).
    apply (expr_cont e 0 1 r (e, r) (expr_fuel f) Hn).
    - destruct r as [|[t| | | |] rest]; try exact I; contradiction.
    - destruct r as [|[t| | | |] rest]; try reflexivity; contradiction.
    - pose proof (need_bound e). unfold expr_fuel. lia.
  Qed.
End ExprRT.
