(* Front/RoundTrip.v — the front end reads back every program of the guard from every text
   that has the program's structure. *)
From PFDL.Front Require Import Render DenterProofs ParserProofs RenderProofs ExprParseProofs.

(* For EVERY text t (list of physical lines, any indentation widths — also different ones
   per block —, blank and comment-only lines anywhere, trailing blanks and comments, LF or
   CR LF per line, with or without final newline, struct literals broken over several
   lines) whose structure [canon t] is the forest of the program p, the front end
   (denter, parser with the precedence levels of the generated parser, visitor checks)
   returns exactly p — provided p satisfies the executable guard [names_ok]. *)
Theorem roundtrip_canon : C12_roundtrip_canon_statement.
Proof.
  unfold C12_roundtrip_canon_statement. intros t p Hok Hc.
  apply (roundtrip_canon_cond (expr_roundtrip impl_levels impl_not_level)); assumption.
Qed.

(* the parser alone, on the token stream of the program's forest *)
Theorem parse_tokens_roundtrip : forall p,
  names_ok p = true -> parse_tokens (skeleton (flatten 0 (forest_of p))) = FOk p.
Proof. exact (parse_tokens_rt (expr_roundtrip impl_levels impl_not_level)). Qed.

(* expressions under ANY level table: the precedence-climbing parser reads back every
   expression in the table's normal form *)
Theorem expr_roundtrip_any_table : forall T nlv e f r,
  expr_ok T nlv e = true -> layout_head r -> length (toks_expr e) < f ->
  parse_expr T nlv (expr_fuel f) 0 (map DTok (toks_expr e) ++ r) = FOk (e, r).
Proof. exact expr_roundtrip. Qed.
