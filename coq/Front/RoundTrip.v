(* Front/RoundTrip.v — the front end reads back every program of the guard from every text
   that has the program's structure. *)
From PFDL.Front Require Import Render DenterProofs ParserProofs RenderProofs ExprParseProofs.

(* For EVERY text t (list of physical lines, any indentation widths — also different ones
   per block —, blank and comment-only lines anywhere, trailing blanks and comments, LF or
   CR LF per line, with or without final newline, struct literals broken over several
   lines) whose structure [canon t] is the forest of the program p, the front end
   (denter, parser with the precedence levels of the generated parser, visitor checks)
   returns exactly p — provided p satisfies the executable guard [names_ok]. *)
Theorem roundtrip_canon : C12_roundtrip_canon_statement.
Proof.
  unfold C12_roundtrip_canon_statement. intros t p Hok Hc.
  apply (roundtrip_canon_cond (expr_roundtrip impl_levels impl_not_level)); assumption.
Qed.

(* the parser alone, on the token stream of the program's forest *)
Theorem parse_tokens_roundtrip : forall p,
  names_ok p = true -> parse_tokens (skeleton (flatten 0 (forest_of p))) = FOk p.
Proof. exact (parse_tokens_rt (expr_roundtrip impl_levels impl_not_level)). Qed.

(* expressions under ANY level table: the precedence-climbing parser reads back every
   expression in the table's normal form *)
Theorem expr_roundtrip_any_table : forall T nlv e f r,
  expr_ok T nlv e = true -> layout_head r -> length (toks_expr e) < f ->
  parse_expr T nlv (expr_fuel f) 0 (map DTok (toks_expr e) ++ r) = FOk (e, r).
Proof. exact expr_roundtrip. Qed.

(* ---- the guard is inhabited by a non-trivial program ---- *)
(* Struct 1 { 2: number; 3: 4[]; 5: 6[3] }   Struct 4 { 7: string }
   Task 0
     Service 8  In: var 9, path 9.3[10].7, literal 1 {2: -1.5, 3: [{7: "s"}], 5: []}   Out: 9: 1, 11: number[2]
     Parallel  call 12 (In: literal 4 {7: "x"})  call 12
     Loop While  9.2 + 1 * 2 < 3 And !(9.2 == 0) Or true
       Loop 10 To 9.2     Service 8
       Parallel Loop 10 To 3     call 12 (In: 9.3[10])
     Condition 9.2 / 2 - 1 >= -4 ... Passed: Service 8  Failed: call 12
   Task 12  In: 13: 4   Service 8 Out: 14: 1   Out: 14 *)
Definition example_program : program :=
  {| p_structs :=
       [ {| s_name := 1; s_attrs := [(2, TPlain TNumber); (3, TArray (TStructName 4) LenNone);
                                     (5, TArray (TStructName 6) (LenNat 3))] |};
         {| s_name := 4; s_attrs := [(7, TPlain TString)] |} ];
     p_tasks :=
       [ {| t_name := 0; t_ins := [];
            t_body :=
              [ SService 8
                  [ PVar 9; PPath 9 [PF 3; PIdxVar 10; PF 7];
                    PLit 1 (JObj [(2, JNum (Qmake (-3) 2)); (3, JArr [JObj [(7, JStr 15)]]); (5, JArr [])]) ]
                  [(9, TPlain (TStructName 1)); (11, TArray TNumber (LenNat 2))];
                SParallel [ {| c_name := 12; c_ins := [PLit 4 (JObj [(7, JStr 16)])]; c_outs := [] |};
                            {| c_name := 12; c_ins := [PVar 9]; c_outs := [(17, TPlain (TStructName 1))] |} ];
                SWhile (EBin OOr
                          (EBin OAnd
                             (EBin OLt (EBin OAdd (EPath 9 [PF 2]) (EBin OMul (ENum 1) (ENum 2))) (ENum 3))
                             (ENot (EParen (EBin OEq (EPath 9 [PF 2]) (ENum 0)))))
                          (EBool true))
                  [ SCount false 10 (LimPath 9 [PF 2]) [SService 8 [] []];
                    SCount true 10 (LimInt 3)
                      [SCall {| c_name := 12; c_ins := [PPath 9 [PF 3; PIdxVar 10]]; c_outs := [] |}] ];
                SCond (EBin OGe (EBin OSub (EBin ODiv (EPath 9 [PF 2]) (ENum 2)) (ENum 1)) (ENum (Qmake (-4) 1)))
                  [SService 8 [] []]
                  [SCall {| c_name := 12; c_ins := [PVar 9]; c_outs := [] |}] ];
            t_outs := [] |};
         {| t_name := 12; t_ins := [(13, TPlain (TStructName 4))];
            t_body := [SService 8 [] [(14, TPlain (TStructName 1))]];
            t_outs := [14] |} ] |}.

Example example_names_ok : names_ok example_program = true.
Proof. vm_compute. reflexivity. Qed.

(* 'a / b * c' grouped left to right is NOT in the normal form of the generated parser's
   table ('*' ranks above '/'), 'a * b / c' is; under the precedence the property states
   both are *)
Example div_then_mul_not_normal :
  expr_ok impl_levels impl_not_level (EBin OMul (EBin ODiv (ENum 8) (ENum 2)) (ENum 2)) = false
  /\ expr_ok impl_levels impl_not_level (EBin ODiv (EBin OMul (ENum 8) (ENum 2)) (ENum 2)) = true
  /\ expr_ok standard_levels impl_not_level (EBin OMul (EBin ODiv (ENum 8) (ENum 2)) (ENum 2)) = true.
Proof. vm_compute. repeat split; reflexivity. Qed.

(* the known finding D14 as it shows in the model: the text '8 / 2 * 2 == 8' (as the guard of
   a Condition) is read as 8 / (2 * 2) == 8 by the front end with the generated parser's
   levels, and as (8 / 2) * 2 == 8 with the levels the property states *)
Definition d14_text : text :=
  {| t_lines :=
       [ ln 0 [KTask; TLower 0];
         ln 4 [KCondition];
         ln 8 [TInt 8; OpSlash; TInt 2; OpStar; TInt 2; OpEq; TInt 8];
         ln 4 [KPassed];
         ln 8 [TUpper 1];
         ln 0 [KEnd] ];
     t_final_nl := true |}.

Definition d14_prog (guard : expr) : program :=
  {| p_structs := [];
     p_tasks := [ {| t_name := 0; t_ins := [];
                     t_body := [SCond guard [SService 1 [] []] []]; t_outs := [] |} ] |}.

Theorem standard_precedence_refuted :
  front_end d14_text
    = FOk (d14_prog (EBin OEq (EBin ODiv (ENum 8) (EBin OMul (ENum 2) (ENum 2))) (ENum 8)))
  /\ front_end_standard d14_text
    = FOk (d14_prog (EBin OEq (EBin OMul (EBin ODiv (ENum 8) (ENum 2)) (ENum 2)) (ENum 8))).
Proof. split; vm_compute; reflexivity. Qed.
