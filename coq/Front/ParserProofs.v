(* Front/ParserProofs.v — the parser reads back what Render prints (round trip on the token
   stream), rule by rule. *)
From PFDL.Front Require Import Render.
From Coq Require Import Lia.

(* ---- induction principles for the nested types ---- *)
Section StmtInd.
  Variable P : stmt -> Prop.
  Variable Hservice : forall n ins outs, P (SService n ins outs).
  Variable Hcall : forall c, P (SCall c).
  Variable Hparallel : forall cs, P (SParallel cs).
  Variable Hwhile : forall e body, Forall P body -> P (SWhile e body).
  Variable Hcount : forall par v lim body, Forall P body -> P (SCount par v lim body).
  Variable Hcond : forall e a b, Forall P a -> Forall P b -> P (SCond e a b).

  Fixpoint stmt_ind' (s : stmt) : P s :=
    let fix all (l : list stmt) : Forall P l :=
      match l with
      | [] => Forall_nil P
      | x :: r => Forall_cons x (stmt_ind' x) (all r)
      end in
    match s with
    | SService n ins outs => Hservice n ins outs
    | SCall c => Hcall c
    | SParallel cs => Hparallel cs
    | SWhile e body => Hwhile e body (all body)
    | SCount par v lim body => Hcount par v lim body (all body)
    | SCond e a b => Hcond e a b (all a) (all b)
    end.
End StmtInd.

Section JsonInd.
  Variable P : json -> Prop.
  Variable Hnum : forall q, P (JNum q).
  Variable Hbool : forall b, P (JBool b).
  Variable Hstr : forall s, P (JStr s).
  Variable Hobj : forall fs, Forall (fun kv => P (snd kv)) fs -> P (JObj fs).
  Variable Harr : forall es, Forall P es -> P (JArr es).

  Fixpoint json_ind' (j : json) : P j :=
    match j with
    | JNum q => Hnum q
    | JBool b => Hbool b
    | JStr s => Hstr s
    | JObj fs =>
      Hobj fs ((fix all (l : list (name * json)) : Forall (fun kv => P (snd kv)) l :=
                  match l with
                  | [] => Forall_nil _
                  | kv :: r => Forall_cons kv (json_ind' (snd kv)) (all r)
                  end) fs)
    | JArr es =>
      Harr es ((fix all (l : list json) : Forall P l :=
                  match l with
                  | [] => Forall_nil _
                  | x :: r => Forall_cons x (json_ind' x) (all r)
                  end) es)
    end.
End JsonInd.

(* ---- basics ---- *)
Lemma fbind_ok : forall A B (a : A) (f : A -> fres B), fbind (FOk a) f = f a.
Proof. reflexivity. Qed.

Definition no_nl_head (r : toks) : Prop := match r with DNL :: _ => False | _ => True end.

Lemma skip_nls_id : forall r, no_nl_head r -> skip_nls r = r.
Proof. intros [|[t| | | |] r] H; try reflexivity. contradiction. Qed.

Lemma nl_plus_one : forall r, no_nl_head r -> nl_plus (DNL :: r) = FOk r.
Proof. intros r H. cbn [nl_plus]. rewrite (skip_nls_id _ H). reflexivity. Qed.

(* ---- primitive, array, variable_type, variable_definition ---- *)
Lemma parse_prim_rt : forall p r, parse_prim (map DTok (toks_prim p) ++ r) = FOk (p, r).
Proof. intros [ | | |s] r; reflexivity. Qed.

Lemma parse_array_rt : forall l r, parse_array (map DTok (toks_alen l) ++ r) = FOk (l, r).
Proof. intros [ |n|v] r; reflexivity. Qed.

Lemma starts_array_alen : forall l r, starts_array (map DTok (toks_alen l) ++ r) = true.
Proof. intros [ |n|v] r; reflexivity. Qed.

Lemma parse_vtype_rt : forall t r,
  starts_array r = false -> parse_vtype (map DTok (toks_vtype t) ++ r) = FOk (t, r).
Proof.
  intros [p|p l] r Hr; unfold parse_vtype; cbn [toks_vtype].
  - rewrite parse_prim_rt. cbn [fbind]. rewrite Hr. reflexivity.
  - rewrite map_app, <- app_assoc. rewrite parse_prim_rt. cbn [fbind].
    rewrite starts_array_alen. rewrite parse_array_rt. reflexivity.
Qed.

Lemma parse_vardef_rt : forall d r,
  starts_array r = false -> parse_vardef (map DTok (toks_vardef d) ++ r) = FOk (d, r).
Proof.
  intros [n t] r Hr. unfold toks_vardef. cbn [fst snd map app parse_vardef].
  rewrite (parse_vtype_rt _ _ Hr). reflexivity.
Qed.

(* the lines of a block of variable definitions *)
Definition d_vardefs (ds : list (name * vtype)) : toks :=
  flat_map (fun d => map DTok (toks_vardef d) ++ [DNL]) ds.

Lemma starts_lower_vardefs : forall d ds r,
  starts_lower (d_vardefs (d :: ds) ++ r) = true.
Proof. intros [n t] ds r. reflexivity. Qed.

Lemma parse_vardefs_rt : forall ds f r,
  ds <> [] -> length ds <= f ->
  parse_vardefs f (d_vardefs ds ++ DDedent :: r) = FOk (ds, DDedent :: r).
Proof.
  induction ds as [|d ds IH]; intros f r Hne Hf; [congruence|].
  destruct f as [|f]; [cbn in Hf; lia|].
  cbn [parse_vardefs d_vardefs flat_map]. rewrite <- !app_assoc.
  rewrite parse_vardef_rt by reflexivity. cbn [fbind app].
  destruct ds as [|d2 ds].
  - cbn [flat_map app]. rewrite nl_plus_one by exact I. cbn [fbind starts_lower]. reflexivity.
  - rewrite nl_plus_one by (destruct d2; exact I). cbn [fbind].
    change (flat_map (fun d0 => map DTok (toks_vardef d0) ++ [DNL]) (d2 :: ds)) with (d_vardefs (d2 :: ds)).
    rewrite starts_lower_vardefs.
    rewrite IH; [reflexivity|congruence|cbn in Hf |- *; lia].
Qed.

Lemma parse_vardef_block_rt : forall ds f r,
  ds <> [] -> length ds <= f ->
  parse_vardef_block f (DIndent :: d_vardefs ds ++ DDedent :: r) = FOk (ds, r).
Proof.
  intros ds f r Hne Hf. unfold parse_vardef_block. cbn [expect_indent fbind].
  rewrite parse_vardefs_rt by assumption. reflexivity.
Qed.

(* ---- attribute_access ---- *)
Definition path_follow (r : toks) : Prop := starts_dot r = false /\ starts_array r = false.

Lemma path_tail_end : forall f r,
  starts_dot r = false -> parse_path_tail (S f) r = FOk ([], r).
Proof.
  intros f r H. cbn [parse_path_tail].
  destruct r as [|[t| | | |] r]; try reflexivity.
  destruct t; try reflexivity. discriminate.
Qed.

Lemma toks_idx_alen : forall e,
  match e with PF _ => False | _ => True end ->
  exists l, toks_pelem e = toks_alen l /\ pelem_of_len l = e.
Proof.
  intros [a|v|k| ] H; try contradiction.
  - exists (LenVar v). split; reflexivity.
  - exists (LenNat k). split; reflexivity.
  - exists LenNone. split; reflexivity.
Qed.

Lemma parse_path_tail_rt : forall n p f r,
  length p <= n -> path_tail_ok p = true -> path_follow r -> length p < f ->
  parse_path_tail f (map DTok (toks_path p) ++ r) = FOk (p, r).
Proof.
  induction n as [|n IH]; intros p f r Hn Hok [Hdot Harr] Hf.
  - destruct p; [|cbn in Hn; lia]. destruct f; [lia|]. cbn [toks_path flat_map map app].
    apply path_tail_end; assumption.
  - destruct p as [|e p].
    + destruct f; [cbn in Hf; lia|]. apply path_tail_end; assumption.
    + destruct e as [a|v|k| ]; try (cbn in Hok; discriminate).
      destruct f as [|f]; [cbn in Hf; lia|].
      cbn [toks_path flat_map toks_pelem map app parse_path_tail].
      destruct p as [|e2 p2].
      * (* last field *)
        cbn [flat_map map app]. rewrite Harr.
        destruct f as [|f]; [cbn in Hf; lia|].
        rewrite (path_tail_end f r Hdot). reflexivity.
      * destruct e2 as [b|v|k| ].
        -- (* next field follows directly *)
           change (flat_map toks_pelem (PF b :: p2)) with (toks_path (PF b :: p2)).
           assert (Hs : starts_array (map DTok (toks_path (PF b :: p2)) ++ r) = false) by reflexivity.
           rewrite Hs.
           rewrite (IH (PF b :: p2) f r); [reflexivity| | |split; assumption|].
           ++ cbn [length] in Hn |- *. lia.
           ++ cbn [path_tail_ok] in Hok. exact Hok.
           ++ cbn [length] in Hf |- *. lia.
        -- (* [v] *)
           cbn [flat_map toks_pelem map app starts_array parse_array fbind pelem_of_len].
           change (flat_map toks_pelem p2) with (toks_path p2).
           rewrite (IH p2 f r); [reflexivity| | |split; assumption|].
           ++ cbn [length] in Hn |- *. lia.
           ++ cbn [path_tail_ok] in Hok. destruct p2 as [|[ | | | ] p3]; try discriminate; try reflexivity. exact Hok.
           ++ cbn [length] in Hf |- *. lia.
        -- cbn [flat_map toks_pelem map app starts_array parse_array fbind pelem_of_len].
           change (flat_map toks_pelem p2) with (toks_path p2).
           rewrite (IH p2 f r); [reflexivity| | |split; assumption|].
           ++ cbn [length] in Hn |- *. lia.
           ++ cbn [path_tail_ok] in Hok. destruct p2 as [|[ | | | ] p3]; try discriminate; try reflexivity. exact Hok.
           ++ cbn [length] in Hf |- *. lia.
        -- cbn [flat_map toks_pelem map app starts_array parse_array fbind pelem_of_len].
           change (flat_map toks_pelem p2) with (toks_path p2).
           rewrite (IH p2 f r); [reflexivity| | |split; assumption|].
           ++ cbn [length] in Hn |- *. lia.
           ++ cbn [path_tail_ok] in Hok. destruct p2 as [|[ | | | ] p3]; try discriminate; try reflexivity. exact Hok.
           ++ cbn [length] in Hf |- *. lia.
Qed.

Lemma starts_dot_path : forall p r, path_ok p = true -> starts_dot (map DTok (toks_path p) ++ r) = true.
Proof. intros [|[a|v|k| ] p] r H; try discriminate. reflexivity. Qed.

Lemma path_ok_tail : forall p, path_ok p = true -> path_tail_ok p = true.
Proof. intros [|[a|v|k| ] p] H; try discriminate. exact H. Qed.

Lemma parse_path_rest_rt : forall p f r,
  path_ok p = true -> path_follow r -> length p < f ->
  parse_path_rest f (map DTok (toks_path p) ++ r) = FOk (p, r).
Proof.
  intros p f r Hok Hr Hf. unfold parse_path_rest. rewrite (starts_dot_path _ _ Hok).
  apply (parse_path_tail_rt (length p)); auto using path_ok_tail.
Qed.

(* ---- struct literals ---- *)
Fixpoint toks_pairs (l : list (name * json)) : list tok :=
  match l with
  | [] => []
  | [(k, v)] => JString k :: JColon :: toks_json false v
  | (k, v) :: r => JString k :: JColon :: toks_json false v ++ JComma :: toks_pairs r
  end.

Fixpoint toks_elems (l : list json) : list tok :=
  match l with
  | [] => []
  | [v] => toks_json false v
  | v :: r => toks_json false v ++ JComma :: toks_elems r
  end.

Lemma toks_json_obj : forall top fs,
  toks_json top (JObj fs) = (if top then PJsonOpen else JOpen2) :: toks_pairs fs ++ [JClose].
Proof.
  intros top fs. reflexivity.
Qed.

Lemma toks_json_arr : forall top es,
  toks_json top (JArr es) = JArrL :: toks_elems es ++ [JArrR].
Proof.
  intros top es. reflexivity.
Qed.

Definition json_keys (l : list (name * json)) : list name := map fst l.

Fixpoint json_all_ok (l : list json) : bool :=
  match l with
  | [] => true
  | JArr _ :: _ => false
  | v :: r => json_ok v && json_all_ok r
  end.

Fixpoint json_fields_ok (l : list (name * json)) : bool :=
  match l with [] => true | (_, v) :: r => json_ok v && json_fields_ok r end.

Lemma json_ok_obj : forall fs,
  json_ok (JObj fs) = negb (has_dup (json_keys fs)) && json_fields_ok fs.
Proof.
  intros fs. cbn [json_ok]. f_equal.
  - f_equal. f_equal. induction fs as [|[k v] r IH]; [reflexivity|]. cbn [json_keys map fst]. f_equal. exact IH.
  - induction fs as [|[k v] r IH]; [reflexivity|]. cbn [json_fields_ok]. f_equal. exact IH.
Qed.

Lemma json_ok_arr : forall es, json_ok (JArr es) = json_all_ok es.
Proof.
  intros es. cbn [json_ok]. induction es as [|v r IH]; [reflexivity|].
  destruct v; cbn [json_all_ok]; try (f_equal; exact IH). reflexivity.
Qed.

(* the first token of a JSON value is not one that closes the enclosing construct *)
Definition json_first (t : tok) : Prop :=
  match t with JNumber _ | JTrue | JFalse | JString _ | JOpen2 | JArrL => True | _ => False end.

Lemma toks_json_first : forall v, exists t rest, toks_json false v = t :: rest /\ json_first t.
Proof.
  intros [q|[|]|s|fs|es].
  - eexists; eexists; split; [reflexivity|exact I].
  - eexists; eexists; split; [reflexivity|exact I].
  - eexists; eexists; split; [reflexivity|exact I].
  - eexists; eexists; split; [reflexivity|exact I].
  - rewrite toks_json_obj. eexists; eexists; split; [reflexivity|exact I].
  - rewrite toks_json_arr. eexists; eexists; split; [reflexivity|exact I].
Qed.

Definition json_rt (v : json) : Prop :=
  forall f r, json_ok v = true -> length (toks_json false v) <= f ->
              parse_json_value f (map DTok (toks_json false v) ++ r) = FOk (v, r).

Lemma parse_json_elems_rt : forall es,
  Forall json_rt es -> es <> [] ->
  forall f r, json_all_ok es = true -> length (toks_elems es) + 1 <= f ->
  parse_json_elems f (map DTok (toks_elems es) ++ DTok JArrR :: r) = FOk (es, DTok JArrR :: r).
Proof.
  induction es as [|v es IH]; intros HP Hne f r Hok Hf; [congruence|].
  inversion HP as [|? ? Hv Hes]; subst.
  assert (Hvok : json_ok v = true /\ json_all_ok es = true).
  { destruct v; cbn [json_all_ok] in Hok; try (apply andb_prop in Hok; exact Hok). discriminate. }
  destruct Hvok as [Hvok Hesok].
  destruct f as [|f]; [lia|].
  destruct es as [|v2 es].
  - cbn [toks_elems] in *. cbn [parse_json_elems].
    rewrite (Hv f (DTok JArrR :: r) Hvok) by lia. reflexivity.
  - cbn [toks_elems] in Hf |- *. cbn [parse_json_elems].
    rewrite map_app, <- app_assoc. rewrite app_length in Hf. cbn [length] in Hf.
    rewrite (Hv f _ Hvok) by lia. cbn [fbind map app].
    change (match v2 :: es with [] => [] | [v0] => toks_json false v0 | v0 :: (_ :: _) as r0 => toks_json false v0 ++ JComma :: toks_elems r0 end)
      with (toks_elems (v2 :: es)).
    rewrite (IH Hes ltac:(congruence) f r Hesok) by (cbn [toks_elems] in *; lia).
    reflexivity.
Qed.

Lemma parse_json_pairs_rt : forall fs,
  Forall (fun kv => json_rt (snd kv)) fs -> fs <> [] ->
  forall f r, json_fields_ok fs = true -> length (toks_pairs fs) <= f ->
  parse_json_pairs f (map DTok (toks_pairs fs) ++ DTok JClose :: r) = FOk (fs, DTok JClose :: r).
Proof.
  induction fs as [|[k v] fs IH]; intros HP Hne f r Hok Hf; [congruence|].
  inversion HP as [|? ? Hv Hfs]; subst. cbn [snd] in Hv.
  cbn [json_fields_ok] in Hok. apply andb_prop in Hok. destruct Hok as [Hvok Hfsok].
  destruct f as [|f]; [destruct fs; cbn in Hf; lia|].
  destruct fs as [|kv2 fs].
  - cbn [toks_pairs] in *. cbn [map app parse_json_pairs]. cbn [length] in Hf.
    rewrite (Hv f (DTok JClose :: r) Hvok) by lia. reflexivity.
  - cbn [toks_pairs] in Hf |- *. cbn [map parse_json_pairs app]. cbn [length] in Hf.
    rewrite map_app, <- app_assoc. rewrite app_length in Hf. cbn [length] in Hf.
    rewrite (Hv f _ Hvok) by lia. cbn [fbind map app].
    change (match kv2 :: fs with [] => [] | [(k0, v0)] => JString k0 :: JColon :: toks_json false v0
            | (k0, v0) :: (_ :: _) as r0 => JString k0 :: JColon :: toks_json false v0 ++ JComma :: toks_pairs r0 end)
      with (toks_pairs (kv2 :: fs)).
    rewrite (IH Hfs ltac:(congruence) f r Hfsok) by (cbn [toks_pairs] in *; lia).
    reflexivity.
Qed.

Lemma parse_json_object_rt : forall fs opn f r,
  Forall (fun kv => json_rt (snd kv)) fs ->
  is_json_open (DTok opn) = true ->
  json_fields_ok fs = true -> length (toks_pairs fs) + 1 <= f ->
  parse_json_object f (DTok opn :: map DTok (toks_pairs fs) ++ DTok JClose :: r) = FOk (JObj fs, r).
Proof.
  intros fs opn f r HP Hopen Hok Hf.
  destruct f as [|f]; [lia|].
  destruct fs as [|[k v] fs].
  - cbn [toks_pairs map app parse_json_object]. rewrite Hopen. reflexivity.
  - assert (Hhead : exists rest, map DTok (toks_pairs ((k, v) :: fs)) = DTok (JString k) :: rest).
    { destruct fs; cbn [toks_pairs map]; eexists; reflexivity. }
    destruct Hhead as [rest Hrest].
    cbn [parse_json_object]. rewrite Hrest. cbn [app]. rewrite Hopen. rewrite <- Hrest.
    change (DTok (JString k) :: rest ++ DTok JClose :: r) with ((DTok (JString k) :: rest) ++ DTok JClose :: r).
    rewrite <- Hrest.
    rewrite (parse_json_pairs_rt _ HP ltac:(congruence) f r Hok) by lia.
    reflexivity.
Qed.

Lemma json_value_rt : forall v, json_rt v.
Proof.
  induction v as [q|b|s|fs IH|es IH] using json_ind'; intros f r Hok Hf.
  - destruct f; [cbn in Hf; lia|]. reflexivity.
  - destruct f; [destruct b; cbn in Hf; lia|]. destruct b; reflexivity.
  - destruct f; [cbn in Hf; lia|]. reflexivity.
  - rewrite toks_json_obj in Hf |- *. cbn [length] in Hf. rewrite app_length in Hf. cbn [length] in Hf.
    rewrite json_ok_obj in Hok. apply andb_prop in Hok. destruct Hok as [_ Hok].
    destruct f as [|f]; [lia|].
    cbn [map app]. rewrite map_app, <- app_assoc. cbn [map app].
    cbn [parse_json_value is_json_open].
    apply parse_json_object_rt; auto. lia.
  - rewrite toks_json_arr in Hf |- *. cbn [length] in Hf. rewrite app_length in Hf. cbn [length] in Hf.
    rewrite json_ok_arr in Hok.
    destruct f as [|f]; [lia|].
    cbn [map app]. rewrite map_app, <- app_assoc. cbn [map app].
    destruct es as [|v es].
    + reflexivity.
    + destruct (toks_json_first v) as [t [rest [Ht Hfirst]]].
      assert (Hhd : exists rest', map DTok (toks_elems (v :: es)) = DTok t :: rest').
      { destruct es; cbn [toks_elems]; rewrite Ht; cbn [map app]; eexists; reflexivity. }
      destruct Hhd as [rest' Hrest'].
      cbn [parse_json_value]. rewrite Hrest'. cbn [app].
      destruct t; try contradiction;
        (rewrite <- (app_comm_cons rest' _ _); rewrite <- Hrest';
         rewrite (parse_json_elems_rt _ IH ltac:(congruence) f r Hok) by lia; reflexivity).
Qed.

(* json.loads + parse_json change nothing on literals with distinct keys and no list in a list *)
Lemma dict_set_fresh : forall (l : list (name * json)) k v,
  mem k (map fst l) = false -> dict_set k v l = l ++ [(k, v)].
Proof.
  induction l as [|[k' v'] l IH]; intros k v H; [reflexivity|].
  cbn [map fst mem] in H. apply Bool.orb_false_iff in H. destruct H as [Hk Hl].
  cbn [dict_set]. rewrite Hk. cbn [app]. f_equal. apply IH. exact Hl.
Qed.

Lemma mem_app : forall k a b, mem k (a ++ b) = mem k a || mem k b.
Proof.
  induction a as [|x a IH]; intros b; [reflexivity|].
  cbn [app mem]. rewrite IH. rewrite Bool.orb_assoc. reflexivity.
Qed.

Lemma dict_of_acc : forall (l acc : list (name * json)),
  has_dup (map fst l) = false ->
  (forall k, mem k (map fst l) = true -> mem k (map fst acc) = false) ->
  fold_left (fun a kv => dict_set (fst kv) (snd kv) a) l acc = acc ++ l.
Proof.
  induction l as [|[k v] l IH]; intros acc Hd Hdis.
  - rewrite app_nil_r. reflexivity.
  - cbn [map fst has_dup] in Hd. apply Bool.orb_false_iff in Hd. destruct Hd as [Hk Hd].
    cbn [fold_left fst snd].
    rewrite dict_set_fresh.
    + rewrite IH; [rewrite <- app_assoc; reflexivity|exact Hd|].
      intros k' Hk'. rewrite map_app, mem_app. cbn [map fst mem].
      rewrite (Hdis k'), Bool.orb_false_r.
      * cbn [orb]. destruct (Nat.eqb k' k) eqn:E; [|reflexivity].
        apply Nat.eqb_eq in E. subst. rewrite Hk in Hk'. discriminate.
      * cbn [map fst mem]. rewrite Hk'. apply Bool.orb_true_r.
    + apply Hdis. cbn [map fst mem]. rewrite Nat.eqb_refl. reflexivity.
Qed.

Lemma dict_of_nodup : forall (l : list (name * json)), has_dup (map fst l) = false -> dict_of l = l.
Proof.
  intros l H. unfold dict_of. rewrite dict_of_acc; [reflexivity|exact H|reflexivity].
Qed.

Lemma json_norm_id : forall j, json_ok j = true -> json_norm j = j.
Proof.
  induction j as [q|b|s|fs IH|es IH] using json_ind'; intros Hok; try reflexivity.
  - rewrite json_ok_obj in Hok. apply andb_prop in Hok. destruct Hok as [Hdup Hok].
    apply Bool.negb_true_iff in Hdup.
    cbn [json_norm].
    assert (Hgo : (fix go (l : list (name * json)) : list (name * json) :=
                     match l with [] => [] | (k, v) :: r => (k, json_norm v) :: go r end) fs = fs).
    { clear Hdup. induction fs as [|[k v] fs IHfs]; [reflexivity|].
      inversion IH as [|? ? Hv Hfs]; subst. cbn [snd] in Hv.
      cbn [json_fields_ok] in Hok. apply andb_prop in Hok. destruct Hok as [Hvok Hfsok].
      rewrite (Hv Hvok). rewrite (IHfs Hfs Hfsok). reflexivity. }
    rewrite Hgo. rewrite dict_of_nodup; [reflexivity|exact Hdup].
  - rewrite json_ok_arr in Hok. cbn [json_norm]. f_equal.
    induction es as [|v es IHes]; [reflexivity|].
    inversion IH as [|? ? Hv Hes]; subst.
    destruct v; cbn [json_all_ok] in Hok; try discriminate;
      apply andb_prop in Hok; destruct Hok as [Hvok Hesok];
      rewrite (IHes Hes Hesok); rewrite (Hv Hvok); reflexivity.
Qed.
