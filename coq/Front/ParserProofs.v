(* Front/ParserProofs.v — the parser reads back what Render prints (round trip on the token
   stream), rule by rule. *)
From PFDL.Front Require Import Render.
From Coq Require Import Lia.

(* ---- induction principles for the nested types ---- *)
Section StmtInd.
  Variable P : stmt -> Prop.
  Variable Hservice : forall n ins outs, P (SService n ins outs).
  Variable Hcall : forall c, P (SCall c).
  Variable Hparallel : forall cs, P (SParallel cs).
  Variable Hwhile : forall e body, Forall P body -> P (SWhile e body).
  Variable Hcount : forall par v lim body, Forall P body -> P (SCount par v lim body).
  Variable Hcond : forall e a b, Forall P a -> Forall P b -> P (SCond e a b).

  Fixpoint stmt_ind' (s : stmt) : P s :=
    let fix all (l : list stmt) : Forall P l :=
      match l with
      | [] => Forall_nil P
      | x :: r => Forall_cons x (stmt_ind' x) (all r)
      end in
    match s with
    | SService n ins outs => Hservice n ins outs
    | SCall c => Hcall c
    | SParallel cs => Hparallel cs
    | SWhile e body => Hwhile e body (all body)
    | SCount par v lim body => Hcount par v lim body (all body)
    | SCond e a b => Hcond e a b (all a) (all b)
    end.
End StmtInd.

Section JsonInd.
  Variable P : json -> Prop.
  Variable Hnum : forall q, P (JNum q).
  Variable Hbool : forall b, P (JBool b).
  Variable Hstr : forall s, P (JStr s).
  Variable Hobj : forall fs, Forall (fun kv => P (snd kv)) fs -> P (JObj fs).
  Variable Harr : forall es, Forall P es -> P (JArr es).

  Fixpoint json_ind' (j : json) : P j :=
    match j with
    | JNum q => Hnum q
    | JBool b => Hbool b
    | JStr s => Hstr s
    | JObj fs =>
      Hobj fs ((fix all (l : list (name * json)) : Forall (fun kv => P (snd kv)) l :=
                  match l with
                  | [] => Forall_nil _
                  | kv :: r => Forall_cons kv (json_ind' (snd kv)) (all r)
                  end) fs)
    | JArr es =>
      Harr es ((fix all (l : list json) : Forall P l :=
                  match l with
                  | [] => Forall_nil _
                  | x :: r => Forall_cons x (json_ind' x) (all r)
                  end) es)
    end.
End JsonInd.

(* ---- basics ---- *)
Ltac norm_app := repeat first [rewrite <- app_assoc | progress (cbn [app])].

Lemma fbind_ok : forall A B (a : A) (f : A -> fres B), fbind (FOk a) f = f a.
Proof. reflexivity. Qed.

Definition no_nl_head (r : toks) : Prop := match r with DNL :: _ => False | _ => True end.

Lemma skip_nls_id : forall r, no_nl_head r -> skip_nls r = r.
Proof. intros [|[t| | | |] r] H; try reflexivity. contradiction. Qed.

Lemma nl_plus_one : forall r, no_nl_head r -> nl_plus (DNL :: r) = FOk r.
Proof. intros r H. cbn [nl_plus]. rewrite (skip_nls_id _ H). reflexivity. Qed.

(* ---- primitive, array, variable_type, variable_definition ---- *)
Lemma parse_prim_rt : forall p r, parse_prim (map DTok (toks_prim p) ++ r) = FOk (p, r).
Proof. intros [ | | |s] r; reflexivity. Qed.

Lemma parse_array_rt : forall l r, parse_array (map DTok (toks_alen l) ++ r) = FOk (l, r).
Proof. intros [ |n|v] r; reflexivity. Qed.

Lemma starts_array_alen : forall l r, starts_array (map DTok (toks_alen l) ++ r) = true.
Proof. intros [ |n|v] r; reflexivity. Qed.

Lemma parse_vtype_rt : forall t r,
  starts_array r = false -> parse_vtype (map DTok (toks_vtype t) ++ r) = FOk (t, r).
Proof.
  intros [p|p l] r Hr; unfold parse_vtype; cbn [toks_vtype].
  - rewrite parse_prim_rt. cbn [fbind]. rewrite Hr. reflexivity.
  - rewrite map_app, <- app_assoc. rewrite parse_prim_rt. cbn [fbind].
    rewrite starts_array_alen. rewrite parse_array_rt. reflexivity.
Qed.

Lemma parse_vardef_rt : forall d r,
  starts_array r = false -> parse_vardef (map DTok (toks_vardef d) ++ r) = FOk (d, r).
Proof.
  intros [n t] r Hr. unfold toks_vardef. cbn [fst snd map app parse_vardef].
  rewrite (parse_vtype_rt _ _ Hr). reflexivity.
Qed.

(* the lines of a block of variable definitions *)
Definition d_vardefs (ds : list (name * vtype)) : toks :=
  flat_map (fun d => map DTok (toks_vardef d) ++ [DNL]) ds.

Lemma starts_lower_vardefs : forall d ds r,
  starts_lower (d_vardefs (d :: ds) ++ r) = true.
Proof. intros [n t] ds r. reflexivity. Qed.

Lemma parse_vardefs_rt : forall ds f r,
  ds <> [] -> length ds <= f ->
  parse_vardefs f (d_vardefs ds ++ DDedent :: r) = FOk (ds, DDedent :: r).
Proof.
  induction ds as [|d ds IH]; intros f r Hne Hf; [congruence|].
  destruct f as [|f]; [cbn in Hf; lia|].
  cbn [parse_vardefs d_vardefs flat_map]. rewrite <- !app_assoc.
  rewrite parse_vardef_rt by reflexivity. cbn [fbind app].
  destruct ds as [|d2 ds].
  - cbn [flat_map app]. rewrite nl_plus_one by exact I. cbn [fbind starts_lower]. reflexivity.
  - rewrite nl_plus_one by (destruct d2; exact I). cbn [fbind].
    change (flat_map (fun d0 => map DTok (toks_vardef d0) ++ [DNL]) (d2 :: ds)) with (d_vardefs (d2 :: ds)).
    rewrite starts_lower_vardefs.
    rewrite IH; [reflexivity|congruence|cbn in Hf |- *; lia].
Qed.

Lemma parse_vardef_block_rt : forall ds f r,
  ds <> [] -> length ds <= f ->
  parse_vardef_block f (DIndent :: d_vardefs ds ++ DDedent :: r) = FOk (ds, r).
Proof.
  intros ds f r Hne Hf. unfold parse_vardef_block. cbn [expect_indent fbind].
  rewrite parse_vardefs_rt by assumption. reflexivity.
Qed.

(* ---- attribute_access ---- *)
Definition path_follow (r : toks) : Prop := starts_dot r = false /\ starts_array r = false.

Lemma path_tail_end : forall f r,
  starts_dot r = false -> parse_path_tail (S f) r = FOk ([], r).
Proof.
  intros f r H. cbn [parse_path_tail].
  destruct r as [|[t| | | |] r]; try reflexivity.
  destruct t; try reflexivity. discriminate.
Qed.

Lemma toks_idx_alen : forall e,
  match e with PF _ => False | _ => True end ->
  exists l, toks_pelem e = toks_alen l /\ pelem_of_len l = e.
Proof.
  intros [a|v|k| ] H; try contradiction.
  - exists (LenVar v). split; reflexivity.
  - exists (LenNat k). split; reflexivity.
  - exists LenNone. split; reflexivity.
Qed.

Lemma parse_path_tail_rt : forall n p f r,
  length p <= n -> path_tail_ok p = true -> path_follow r -> length p < f ->
  parse_path_tail f (map DTok (toks_path p) ++ r) = FOk (p, r).
Proof.
  induction n as [|n IH]; intros p f r Hn Hok [Hdot Harr] Hf.
  - destruct p; [|cbn in Hn; lia]. destruct f; [lia|]. cbn [toks_path flat_map map app].
    apply path_tail_end; assumption.
  - destruct p as [|e p].
    + destruct f; [cbn in Hf; lia|]. apply path_tail_end; assumption.
    + destruct e as [a|v|k| ]; try (cbn in Hok; discriminate).
      destruct f as [|f]; [cbn in Hf; lia|].
      cbn [toks_path flat_map toks_pelem map app parse_path_tail].
      destruct p as [|e2 p2].
      * (* last field *)
        cbn [flat_map map app]. rewrite Harr.
        destruct f as [|f]; [cbn in Hf; lia|].
        rewrite (path_tail_end f r Hdot). reflexivity.
      * destruct e2 as [b|v|k| ].
        -- (* next field follows directly *)
           change (flat_map toks_pelem (PF b :: p2)) with (toks_path (PF b :: p2)).
           assert (Hs : starts_array (map DTok (toks_path (PF b :: p2)) ++ r) = false) by reflexivity.
           rewrite Hs.
           rewrite (IH (PF b :: p2) f r); [reflexivity| | |split; assumption|].
           ++ cbn [length] in Hn |- *. lia.
           ++ cbn [path_tail_ok] in Hok. exact Hok.
           ++ cbn [length] in Hf |- *. lia.
        -- (* [v] *)
           cbn [flat_map toks_pelem map app starts_array parse_array fbind pelem_of_len].
           change (flat_map toks_pelem p2) with (toks_path p2).
           rewrite (IH p2 f r); [reflexivity| | |split; assumption|].
           ++ cbn [length] in Hn |- *. lia.
           ++ cbn [path_tail_ok] in Hok. destruct p2 as [|[ | | | ] p3]; try discriminate; try reflexivity. exact Hok.
           ++ cbn [length] in Hf |- *. lia.
        -- cbn [flat_map toks_pelem map app starts_array parse_array fbind pelem_of_len].
           change (flat_map toks_pelem p2) with (toks_path p2).
           rewrite (IH p2 f r); [reflexivity| | |split; assumption|].
           ++ cbn [length] in Hn |- *. lia.
           ++ cbn [path_tail_ok] in Hok. destruct p2 as [|[ | | | ] p3]; try discriminate; try reflexivity. exact Hok.
           ++ cbn [length] in Hf |- *. lia.
        -- cbn [flat_map toks_pelem map app starts_array parse_array fbind pelem_of_len].
           change (flat_map toks_pelem p2) with (toks_path p2).
           rewrite (IH p2 f r); [reflexivity| | |split; assumption|].
           ++ cbn [length] in Hn |- *. lia.
           ++ cbn [path_tail_ok] in Hok. destruct p2 as [|[ | | | ] p3]; try discriminate; try reflexivity. exact Hok.
           ++ cbn [length] in Hf |- *. lia.
Qed.

Lemma starts_dot_path : forall p r, path_ok p = true -> starts_dot (map DTok (toks_path p) ++ r) = true.
Proof. intros [|[a|v|k| ] p] r H; try discriminate. reflexivity. Qed.

Lemma path_ok_tail : forall p, path_ok p = true -> path_tail_ok p = true.
Proof. intros [|[a|v|k| ] p] H; try discriminate. exact H. Qed.

Lemma parse_path_rest_rt : forall p f r,
  path_ok p = true -> path_follow r -> length p < f ->
  parse_path_rest f (map DTok (toks_path p) ++ r) = FOk (p, r).
Proof.
  intros p f r Hok Hr Hf. unfold parse_path_rest. rewrite (starts_dot_path _ _ Hok).
  apply (parse_path_tail_rt (length p)); auto using path_ok_tail.
Qed.

(* ---- struct literals ---- *)
Fixpoint toks_pairs (l : list (name * json)) : list tok :=
  match l with
  | [] => []
  | [(k, v)] => JString k :: JColon :: toks_json false v
  | (k, v) :: r => JString k :: JColon :: toks_json false v ++ JComma :: toks_pairs r
  end.

Fixpoint toks_elems (l : list json) : list tok :=
  match l with
  | [] => []
  | [v] => toks_json false v
  | v :: r => toks_json false v ++ JComma :: toks_elems r
  end.

Lemma toks_json_obj : forall top fs,
  toks_json top (JObj fs) = (if top then PJsonOpen else JOpen2) :: toks_pairs fs ++ [JClose].
Proof.
  intros top fs. reflexivity.
Qed.

Lemma toks_json_arr : forall top es,
  toks_json top (JArr es) = JArrL :: toks_elems es ++ [JArrR].
Proof.
  intros top es. reflexivity.
Qed.

Lemma toks_elems_cons2 : forall v v2 es,
  toks_elems (v :: v2 :: es) = toks_json false v ++ JComma :: toks_elems (v2 :: es).
Proof. reflexivity. Qed.

Lemma toks_pairs_cons2 : forall k v kv2 fs,
  toks_pairs ((k, v) :: kv2 :: fs) = JString k :: JColon :: toks_json false v ++ JComma :: toks_pairs (kv2 :: fs).
Proof. reflexivity. Qed.

Definition json_keys (l : list (name * json)) : list name := map fst l.

Fixpoint json_all_ok (l : list json) : bool :=
  match l with
  | [] => true
  | JArr _ :: _ => false
  | v :: r => json_ok v && json_all_ok r
  end.

Fixpoint json_fields_ok (l : list (name * json)) : bool :=
  match l with [] => true | (_, v) :: r => json_ok v && json_fields_ok r end.

Lemma json_ok_obj : forall fs,
  json_ok (JObj fs) = negb (has_dup (json_keys fs)) && json_fields_ok fs.
Proof.
  intros fs. cbn [json_ok]. f_equal. f_equal. f_equal.
  induction fs as [|[k v] r IH]; [reflexivity|]. cbn [json_keys map fst]. f_equal. exact IH.
Qed.

Lemma json_ok_arr : forall es, json_ok (JArr es) = json_all_ok es.
Proof.
  intros es. reflexivity.
Qed.

(* the first token of a JSON value is not one that closes the enclosing construct *)
Definition json_first (t : tok) : Prop :=
  match t with JNumber _ | JTrue | JFalse | JString _ | JOpen2 | JArrL => True | _ => False end.

Lemma toks_json_first : forall v, exists t rest, toks_json false v = t :: rest /\ json_first t.
Proof.
  intros [q|[|]|s|fs|es].
  - eexists; eexists; split; [reflexivity|exact I].
  - eexists; eexists; split; [reflexivity|exact I].
  - eexists; eexists; split; [reflexivity|exact I].
  - eexists; eexists; split; [reflexivity|exact I].
  - rewrite toks_json_obj. eexists; eexists; split; [reflexivity|exact I].
  - rewrite toks_json_arr. eexists; eexists; split; [reflexivity|exact I].
Qed.

Definition json_rt (v : json) : Prop :=
  forall f r, json_ok v = true -> length (toks_json false v) <= f ->
              parse_json_value f (map DTok (toks_json false v) ++ r) = FOk (v, r).

Lemma parse_json_elems_rt : forall es,
  Forall json_rt es -> es <> [] ->
  forall f r, json_all_ok es = true -> length (toks_elems es) + 1 <= f ->
  parse_json_elems f (map DTok (toks_elems es) ++ DTok JArrR :: r) = FOk (es, DTok JArrR :: r).
Proof.
  induction es as [|v es IH]; intros HP Hne f r Hok Hf; [congruence|].
  inversion HP as [|? ? Hv Hes]; subst.
  assert (Hvok : json_ok v = true /\ json_all_ok es = true).
  { destruct v; cbn [json_all_ok] in Hok; try (apply andb_prop in Hok; exact Hok). discriminate. }
  destruct Hvok as [Hvok Hesok].
  destruct f as [|f]; [lia|].
  destruct es as [|v2 es].
  - cbn [toks_elems] in *. cbn [parse_json_elems].
    rewrite (Hv f (DTok JArrR :: r) Hvok) by lia. reflexivity.
  - rewrite toks_elems_cons2 in Hf |- *. cbn [parse_json_elems].
    rewrite map_app, <- app_assoc. rewrite app_length in Hf. cbn [length] in Hf.
    rewrite (Hv f _ Hvok) by lia. cbn [fbind map app].
    rewrite (IH Hes ltac:(congruence) f r Hesok) by lia.
    reflexivity.
Qed.

Lemma parse_json_pairs_rt : forall fs,
  Forall (fun kv => json_rt (snd kv)) fs -> fs <> [] ->
  forall f r, json_fields_ok fs = true -> length (toks_pairs fs) <= f ->
  parse_json_pairs f (map DTok (toks_pairs fs) ++ DTok JClose :: r) = FOk (fs, DTok JClose :: r).
Proof.
  induction fs as [|[k v] fs IH]; intros HP Hne f r Hok Hf; [congruence|].
  inversion HP as [|? ? Hv Hfs]; subst. cbn [snd] in Hv.
  cbn [json_fields_ok] in Hok. apply andb_prop in Hok. destruct Hok as [Hvok Hfsok].
  destruct f as [|f]; [destruct fs; cbn in Hf; lia|].
  destruct fs as [|kv2 fs].
  - cbn [toks_pairs] in *. cbn [map app parse_json_pairs]. cbn [length] in Hf.
    rewrite (Hv f (DTok JClose :: r) Hvok) by lia. reflexivity.
  - rewrite toks_pairs_cons2 in Hf |- *. cbn [map parse_json_pairs app]. cbn [length] in Hf.
    rewrite map_app, <- app_assoc. rewrite app_length in Hf. cbn [length] in Hf.
    rewrite (Hv f _ Hvok) by lia. cbn [fbind map app].
    rewrite (IH Hfs ltac:(congruence) f r Hfsok) by lia.
    reflexivity.
Qed.

Lemma parse_json_object_rt : forall fs opn f r,
  Forall (fun kv => json_rt (snd kv)) fs ->
  is_json_open (DTok opn) = true ->
  json_fields_ok fs = true -> length (toks_pairs fs) + 1 <= f ->
  parse_json_object f (DTok opn :: map DTok (toks_pairs fs) ++ DTok JClose :: r) = FOk (JObj fs, r).
Proof.
  intros fs opn f r HP Hopen Hok Hf.
  destruct f as [|f]; [lia|].
  destruct fs as [|[k v] fs].
  - cbn [toks_pairs map app parse_json_object]. rewrite Hopen. reflexivity.
  - assert (Hhead : exists rest, map DTok (toks_pairs ((k, v) :: fs)) = DTok (JString k) :: rest).
    { destruct fs; cbn [toks_pairs map]; eexists; reflexivity. }
    destruct Hhead as [rest Hrest].
    rewrite Hrest. cbn [app parse_json_object]. rewrite Hopen.
    change (DTok (JString k) :: rest ++ DTok JClose :: r) with ((DTok (JString k) :: rest) ++ DTok JClose :: r).
    rewrite <- Hrest.
    rewrite (parse_json_pairs_rt _ HP ltac:(congruence) f r Hok) by lia.
    reflexivity.
Qed.

Lemma json_value_rt : forall v, json_rt v.
Proof.
  induction v as [q|b|s|fs IH|es IH] using json_ind'; intros f r Hok Hf.
  - destruct f; [cbn in Hf; lia|]. reflexivity.
  - destruct f; [destruct b; cbn in Hf; lia|]. destruct b; reflexivity.
  - destruct f; [cbn in Hf; lia|]. reflexivity.
  - rewrite toks_json_obj in Hf |- *. cbn [length] in Hf. rewrite app_length in Hf. cbn [length] in Hf.
    rewrite json_ok_obj in Hok. apply andb_prop in Hok. destruct Hok as [_ Hok].
    destruct f as [|f]; [lia|].
    cbn [map app]. rewrite map_app, <- app_assoc. cbn [map app].
    cbn [parse_json_value is_json_open].
    apply parse_json_object_rt; auto. lia.
  - rewrite toks_json_arr in Hf |- *. cbn [length] in Hf. rewrite app_length in Hf. cbn [length] in Hf.
    rewrite json_ok_arr in Hok.
    destruct f as [|f]; [lia|].
    cbn [map app]. rewrite map_app, <- app_assoc. cbn [map app].
    destruct es as [|v es].
    + reflexivity.
    + destruct (toks_json_first v) as [t [rest [Ht Hfirst]]].
      assert (Hhd : exists rest', map DTok (toks_elems (v :: es)) = DTok t :: rest').
      { destruct es; cbn [toks_elems]; rewrite Ht; cbn [map app]; eexists; reflexivity. }
      destruct Hhd as [rest' Hrest'].
      cbn [parse_json_value]. rewrite Hrest'. cbn [app].
      destruct t; try contradiction;
        (rewrite app_comm_cons; rewrite <- Hrest';
         rewrite (parse_json_elems_rt _ IH ltac:(congruence) f r Hok) by lia; reflexivity).
Qed.

(* json.loads + parse_json change nothing on literals with distinct keys and no list in a list *)
Lemma dict_set_fresh : forall (l : list (name * json)) k v,
  mem k (map fst l) = false -> dict_set k v l = l ++ [(k, v)].
Proof.
  induction l as [|[k' v'] l IH]; intros k v H; [reflexivity|].
  cbn [map fst mem] in H. apply Bool.orb_false_iff in H. destruct H as [Hk Hl].
  cbn [dict_set]. rewrite Hk. cbn [app]. f_equal. apply IH. exact Hl.
Qed.

Lemma mem_app : forall k a b, mem k (a ++ b) = mem k a || mem k b.
Proof.
  induction a as [|x a IH]; intros b; [reflexivity|].
  cbn [app mem]. rewrite IH. rewrite Bool.orb_assoc. reflexivity.
Qed.

Lemma dict_of_acc : forall (l acc : list (name * json)),
  has_dup (map fst l) = false ->
  (forall k, mem k (map fst l) = true -> mem k (map fst acc) = false) ->
  fold_left (fun a kv => dict_set (fst kv) (snd kv) a) l acc = acc ++ l.
Proof.
  induction l as [|[k v] l IH]; intros acc Hd Hdis.
  - rewrite app_nil_r. reflexivity.
  - cbn [map fst has_dup] in Hd. apply Bool.orb_false_iff in Hd. destruct Hd as [Hk Hd].
    cbn [fold_left fst snd].
    rewrite dict_set_fresh.
    + rewrite IH; [rewrite <- app_assoc; reflexivity|exact Hd|].
      intros k' Hk'. rewrite map_app, mem_app. cbn [map fst mem].
      rewrite (Hdis k'), Bool.orb_false_r.
      * cbn [orb]. destruct (Nat.eqb k' k) eqn:E; [|reflexivity].
        apply Nat.eqb_eq in E. subst. rewrite Hk in Hk'. discriminate.
      * cbn [map fst mem]. rewrite Hk'. apply Bool.orb_true_r.
    + apply Hdis. cbn [map fst mem]. rewrite Nat.eqb_refl. reflexivity.
Qed.

Lemma dict_of_nodup : forall (l : list (name * json)), has_dup (map fst l) = false -> dict_of l = l.
Proof.
  intros l H. unfold dict_of. rewrite dict_of_acc; [reflexivity|exact H|reflexivity].
Qed.

Lemma json_norm_id : forall j, json_ok j = true -> json_norm j = j.
Proof.
  induction j as [q|b|s|fs IH|es IH] using json_ind'; intros Hok; try reflexivity.
  - rewrite json_ok_obj in Hok. apply andb_prop in Hok. destruct Hok as [Hdup Hok].
    apply Bool.negb_true_iff in Hdup.
    cbn [json_norm].
    assert (Hgo : (fix go (l : list (name * json)) : list (name * json) :=
                     match l with [] => [] | (k, v) :: r => (k, json_norm v) :: go r end) fs = fs).
    { clear Hdup. induction fs as [|[k v] fs IHfs]; [reflexivity|].
      inversion IH as [|? ? Hv Hfs]; subst. cbn [snd] in Hv.
      cbn [json_fields_ok] in Hok. apply andb_prop in Hok. destruct Hok as [Hvok Hfsok].
      rewrite (Hv Hvok). rewrite (IHfs Hfs Hfsok). reflexivity. }
    rewrite Hgo. rewrite dict_of_nodup; [reflexivity|exact Hdup].
  - rewrite json_ok_arr in Hok. cbn [json_norm]. f_equal.
    induction es as [|v es IHes]; [reflexivity|].
    inversion IH as [|? ? Hv Hes]; subst.
    destruct v; cbn [json_all_ok] in Hok; try discriminate;
      apply andb_prop in Hok; destruct Hok as [Hvok Hesok];
      rewrite (IHes Hes Hesok); rewrite (Hv Hvok); reflexivity.
Qed.

(* ---- forests and their token streams ---- *)
Lemma skel_tree_node : forall lex kids,
  skel_tree (LNode lex kids) =
  map DTok lex ++ match kids with [] => [DNL] | _ => DIndent :: skel_forest kids ++ [DDedent] end.
Proof. intros lex kids. reflexivity. Qed.

Lemma skel_forest_app : forall a b, skel_forest (a ++ b) = skel_forest a ++ skel_forest b.
Proof. intros a b. unfold skel_forest. apply flat_map_app. Qed.

Lemma skel_forest_cons : forall t f, skel_forest (t :: f) = skel_tree t ++ skel_forest f.
Proof. reflexivity. Qed.

Lemma skel_leaf : forall lex, skel_tree (leaf lex) = map DTok lex ++ [DNL].
Proof. reflexivity. Qed.

(* ---- call parameters ---- *)
Lemma parse_param_rt : forall p f r,
  param_ok p = true -> no_nl_head r -> length (skel_tree (forest_param p)) <= f ->
  parse_param f (skel_tree (forest_param p) ++ r) = FOk (p, r).
Proof.
  intros [v|v p|s j] f r Hok Hr Hf.
  - cbn [forest_param]. rewrite skel_leaf. cbn [map app parse_param starts_dot].
    rewrite (nl_plus_one _ Hr). reflexivity.
  - cbn [forest_param param_ok] in *. rewrite skel_leaf in Hf |- *.
    rewrite app_length, map_length in Hf. cbn [length] in Hf.
    cbn [map]. rewrite <- app_assoc. cbn [app parse_param].
    rewrite (starts_dot_path _ _ Hok).
    rewrite (parse_path_tail_rt (length p) p f (DNL :: r)); auto using path_ok_tail.
    + cbn [fbind app]. rewrite (nl_plus_one _ Hr). reflexivity.
    + split; reflexivity.
    + unfold toks_path in Hf.
      assert (Hl : length p <= length (flat_map toks_pelem p)).
      { clear. induction p as [|e p IH]; [cbn; lia|]. cbn [flat_map length]. rewrite app_length.
        destruct e; cbn [toks_pelem length]; lia. }
      lia.
  - cbn [forest_param param_ok lit_ok] in *.
    destruct j as [q|b|s0|fs|es]; try discriminate.
    rewrite skel_tree_node in Hf |- *. cbn [map app]. cbn [skel_forest flat_map] in Hf |- *.
    rewrite skel_leaf in Hf |- *. rewrite toks_json_obj in Hf |- *.
    cbn [map app length] in Hf. rewrite !app_length in Hf. cbn [length] in Hf.
    rewrite map_length, app_length in Hf. cbn [length] in Hf.
    rewrite app_nil_r. cbn [map]. rewrite map_app. rewrite <- !app_assoc. cbn [map app parse_param].
    cbn [lit_ok] in Hok.
    pose proof Hok as Hok'. rewrite json_ok_obj in Hok'. apply andb_prop in Hok'. destruct Hok' as [_ Hfok].
    rewrite <- app_assoc. cbn [app].
    rewrite (parse_json_object_rt fs PJsonOpen f).
    + cbn [fbind]. rewrite nl_plus_one by exact I. cbn [fbind expect_dedent].
      rewrite (json_norm_id _ Hok). reflexivity.
    + apply Forall_forall. intros kv _. apply json_value_rt.
    + reflexivity.
    + exact Hfok.
    + lia.
Qed.

Definition d_params (ps : list param) : toks := skel_forest (map forest_param ps).

Lemma starts_param_params : forall p ps r, starts_param (d_params (p :: ps) ++ r) = true.
Proof. intros [v|v p|s j] ps r; reflexivity. Qed.

Lemma no_nl_params : forall p ps r, no_nl_head (d_params (p :: ps) ++ r).
Proof. intros [v|v p|s j] ps r; exact I. Qed.

Lemma parse_params_rt : forall ps f r,
  ps <> [] -> forallb param_ok ps = true -> length (d_params ps) + 1 <= f ->
  parse_params f (d_params ps ++ DDedent :: r) = FOk (ps, DDedent :: r).
Proof.
  induction ps as [|p ps IH]; intros f r Hne Hok Hf; [congruence|].
  cbn [forallb] in Hok. apply andb_prop in Hok. destruct Hok as [Hp Hps].
  destruct f as [|f]; [lia|].
  unfold d_params in *. cbn [map] in *. rewrite skel_forest_cons in Hf |- *.
  rewrite app_length in Hf. rewrite <- app_assoc. cbn [parse_params].
  destruct ps as [|p2 ps].
  - cbn [map skel_forest flat_map app] in *. rewrite (parse_param_rt p f) by (auto; try exact I; lia).
    reflexivity.
  - rewrite (parse_param_rt p f); [|exact Hp|apply (no_nl_params p2 ps)|lia].
    cbn [fbind]. fold (d_params (p2 :: ps)). rewrite starts_param_params.
    assert (Hlen : 2 <= length (skel_tree (forest_param p))).
    { destruct p; cbn [forest_param]; rewrite ?skel_leaf, ?skel_tree_node; cbn [map app length];
        rewrite ?app_length; cbn [length]; lia. }
    unfold d_params. rewrite (IH f r); [reflexivity|congruence|exact Hps|lia].
Qed.

(* ---- call_input? call_output? ---- *)
Definition call_tail (ins : list param) (outs : outparams) : toks :=
  match forest_io ins outs with
  | [] => [DNL]
  | k => DIndent :: skel_forest k ++ [DDedent]
  end.

Lemma skel_forest_vardefs : forall ds,
  skel_forest (map (fun d => leaf (toks_vardef d)) ds) = d_vardefs ds.
Proof.
  induction ds as [|d ds IH]; [reflexivity|].
  cbn [map]. rewrite skel_forest_cons, skel_leaf, IH. reflexivity.
Qed.

Lemma d_vardefs_length : forall ds, length ds <= length (d_vardefs ds).
Proof.
  induction ds as [|d ds IH]; [cbn; lia|].
  unfold d_vardefs in *. cbn [flat_map]. rewrite !app_length. cbn [length]. lia.
Qed.

Definition d_io (ins : list param) (outs : outparams) : toks :=
  (match ins with [] => [] | _ => DTok KIn :: DIndent :: d_params ins ++ [DDedent] end)
  ++ (match outs with [] => [] | _ => DTok KOut :: DIndent :: d_vardefs outs ++ [DDedent] end).

Lemma skel_io : forall ins outs, skel_forest (forest_io ins outs) = d_io ins outs.
Proof.
  intros ins outs. unfold forest_io, d_io. rewrite skel_forest_app. f_equal.
  - destruct ins as [|p ins]; [reflexivity|].
    cbn [skel_forest flat_map]. rewrite app_nil_r. reflexivity.
  - destruct outs as [|d outs]; [reflexivity|].
    cbn [skel_forest flat_map]. rewrite app_nil_r. rewrite skel_tree_node.
    rewrite skel_forest_vardefs. reflexivity.
Qed.

Lemma parse_call_body_rt : forall ins outs f r,
  forallb param_ok ins = true ->
  length (d_io ins outs) + 1 <= f ->
  parse_call_body f (d_io ins outs ++ DDedent :: r) = FOk ((ins, outs), DDedent :: r).
Proof.
  intros ins outs f r Hok Hf. unfold parse_call_body, d_io in *.
  destruct ins as [|p ins].
  - cbn [app] in *. destruct outs as [|d outs].
    + reflexivity.
    + cbn [length] in Hf. rewrite app_length in Hf. cbn [length] in Hf.
      cbn [app]. rewrite <- app_assoc. cbn [app fbind].
      pose proof (d_vardefs_length (d :: outs)).
      rewrite parse_vardef_block_rt; [reflexivity|congruence|lia].
  - rewrite app_length in Hf. cbn [length] in Hf. rewrite app_length in Hf. cbn [length] in Hf.
    cbn [app]. rewrite <- !app_assoc. cbn [app expect_indent fbind].
    rewrite parse_params_rt; [|congruence|exact Hok|lia].
    cbn [fbind expect_dedent].
    destruct outs as [|d outs].
    + reflexivity.
    + cbn [length] in Hf. rewrite app_length in Hf. cbn [length] in Hf.
      cbn [app]. rewrite <- app_assoc. cbn [app].
      pose proof (d_vardefs_length (d :: outs)).
      rewrite parse_vardef_block_rt; [reflexivity|congruence|lia].
Qed.

Lemma d_io_nil : forall ins outs, d_io ins outs = [] -> ins = [] /\ outs = [].
Proof. intros [|p ins] [|d outs] H; try discriminate; split; reflexivity. Qed.

Lemma call_tail_io : forall ins outs,
  call_tail ins outs = match d_io ins outs with [] => [DNL] | k => DIndent :: k ++ [DDedent] end.
Proof.
  intros ins outs. unfold call_tail. rewrite <- skel_io.
  unfold forest_io. destruct ins as [|p ins]; destruct outs as [|d outs]; reflexivity.
Qed.

Lemma call_tail_nonempty : forall ins outs,
  ins <> [] \/ outs <> [] -> call_tail ins outs = DIndent :: d_io ins outs ++ [DDedent].
Proof.
  intros ins outs H. rewrite call_tail_io.
  destruct ins as [|p ins]; destruct outs as [|d outs]; try reflexivity.
  destruct H; congruence.
Qed.

Lemma parse_call_rest_rt : forall ins outs f r,
  forallb param_ok ins = true -> no_nl_head r ->
  length (call_tail ins outs) <= f ->
  parse_call_rest f (call_tail ins outs ++ r) = FOk ((ins, outs), r).
Proof.
  intros ins outs f r Hok Hr Hf.
  assert (Hcase : (ins = [] /\ outs = []) \/ (ins <> [] \/ outs <> [])).
  { destruct ins; destruct outs; try (right; left; congruence); try (right; right; congruence). left; split; reflexivity. }
  destruct Hcase as [[-> ->]|Hne].
  - cbn [call_tail forest_io app parse_call_rest]. rewrite (nl_plus_one _ Hr). reflexivity.
  - rewrite (call_tail_nonempty _ _ Hne) in *.
    cbn [length] in Hf. rewrite app_length in Hf. cbn [length] in Hf.
    cbn [app parse_call_rest]. rewrite <- app_assoc. cbn [app].
    rewrite parse_call_body_rt; [reflexivity|exact Hok|lia].
Qed.

(* ---- statements ---- *)
Lemma skel_call : forall head ins outs,
  skel_tree (forest_call head ins outs) = DTok head :: call_tail ins outs.
Proof.
  intros. unfold forest_call, call_tail. rewrite skel_tree_node.
  destruct (forest_io ins outs); reflexivity.
Qed.

Lemma forest_while : forall e body,
  forest_stmt (SWhile e body) = [LNode (KLoop :: KWhile :: toks_expr e) (forest_stmts body)].
Proof. reflexivity. Qed.

Lemma forest_count : forall par v lim body,
  forest_stmt (SCount par v lim body) =
  [LNode ((if par then [KParallel] else []) ++ KLoop :: TLower v :: KTo :: toks_limit lim) (forest_stmts body)].
Proof. reflexivity. Qed.

Lemma forest_cond : forall e a b,
  forest_stmt (SCond e a b) =
  LNode [KCondition] [leaf (toks_expr e)] :: LNode [KPassed] (forest_stmts a)
  :: match b with [] => [] | _ => [LNode [KFailed] (forest_stmts b)] end.
Proof. reflexivity. Qed.

Definition stmt_follow (r : toks) : Prop :=
  match r with DNL :: _ => False | DTok KFailed :: _ => False | _ => True end.

Definition layout_head (r : toks) : Prop :=
  match r with DIndent :: _ => True | DNL :: _ => True | _ => False end.

Lemma stmt_follow_no_nl : forall r, stmt_follow r -> no_nl_head r.
Proof. intros [|[t| | | |] r] H; try exact I. contradiction. Qed.

(* a non-empty forest of statements starts with a statement token *)
Lemma forest_stmt_head : forall s, exists t rest,
  skel_forest (forest_stmt s) = DTok t :: rest /\
  match t with KLoop | KParallel | KCondition | TLower _ | TUpper _ => True | _ => False end.
Proof.
  intros [n ins outs|c|cs|e body|par v lim body|e a b].
  - eexists; eexists; split; [reflexivity|exact I].
  - eexists; eexists; split; [reflexivity|exact I].
  - eexists; eexists; split; [reflexivity|exact I].
  - eexists; eexists; split; [reflexivity|exact I].
  - destruct par; eexists; eexists; (split; [reflexivity|exact I]).
  - eexists; eexists; split; [reflexivity|exact I].
Qed.

Lemma stmts_head : forall s ss r, exists t rest,
  skel_forest (forest_stmts (s :: ss)) ++ r = DTok t :: rest /\
  match t with KLoop | KParallel | KCondition | TLower _ | TUpper _ => True | _ => False end.
Proof.
  intros s ss r. destruct (forest_stmt_head s) as [t [rest [H Ht]]].
  unfold forest_stmts. cbn [flat_map]. rewrite skel_forest_app, H.
  eexists; eexists; split; [reflexivity|exact Ht].
Qed.

Lemma stmts_starts : forall s ss r, starts_stmt (skel_forest (forest_stmts (s :: ss)) ++ r) = true.
Proof.
  intros s ss r. destruct (stmts_head s ss r) as [t [rest [H Ht]]]. rewrite H.
  destruct t; try contradiction; reflexivity.
Qed.

Lemma stmts_follow : forall s ss r, stmt_follow (skel_forest (forest_stmts (s :: ss)) ++ r).
Proof.
  intros s ss r. destruct (stmts_head s ss r) as [t [rest [H Ht]]]. rewrite H.
  destruct t; try contradiction; exact I.
Qed.

Lemma forest_stmt_len : forall s, 2 <= length (skel_forest (forest_stmt s)).
Proof.
  intros [n ins outs|c|cs|e body|par v lim body|e a b].
  - cbn [forest_stmt skel_forest flat_map]. rewrite skel_call. rewrite app_nil_r. cbn [length].
    unfold call_tail. destruct (forest_io ins outs); cbn [length]; lia.
  - cbn [forest_stmt skel_forest flat_map]. rewrite skel_call. rewrite app_nil_r. cbn [length].
    unfold call_tail. destruct (forest_io _ _); cbn [length]; lia.
  - cbn [forest_stmt skel_forest flat_map]. rewrite skel_tree_node. rewrite app_nil_r. cbn [map app length].
    destruct (map _ cs); cbn [length]; lia.
  - rewrite forest_while. cbn [skel_forest flat_map]. rewrite skel_tree_node. cbn [map app length]. lia.
  - rewrite forest_count. cbn [skel_forest flat_map]. rewrite skel_tree_node. rewrite !app_length.
    rewrite map_length, app_length. cbn [length]. lia.
  - rewrite forest_cond. cbn [skel_forest flat_map]. rewrite skel_tree_node. cbn [map app length]. lia.
Qed.

Lemma forest_stmts_nonempty : forall s0 body, forest_stmts (s0 :: body) <> [].
Proof.
  intros s0 body H. destruct (forest_stmt_head s0) as [t [rest [Hh _]]].
  unfold forest_stmts in H. cbn [flat_map] in H. apply app_eq_nil in H. destruct H as [H _].
  rewrite H in Hh. discriminate.
Qed.

Lemma skel_node_stmts : forall lex s0 body,
  skel_tree (LNode lex (forest_stmts (s0 :: body))) =
  map DTok lex ++ DIndent :: skel_forest (forest_stmts (s0 :: body)) ++ [DDedent].
Proof.
  intros lex s0 body. rewrite skel_tree_node.
  destruct (forest_stmts (s0 :: body)) eqn:E; [exfalso; exact (forest_stmts_nonempty _ _ E)|reflexivity].
Qed.

Lemma toks_path_len : forall p, length p <= length (toks_path p).
Proof.
  unfold toks_path. induction p as [|e p IH]; [cbn; lia|]. cbn [flat_map length]. rewrite app_length.
  destruct e; cbn [toks_pelem length]; lia.
Qed.

Section Statements.
  Variable T : level_table.
  Variable nlv : nat.

  (* the round trip of expressions, proved separately (Front/ExprParseProofs.v) *)
  Variable expr_rt : forall e f r,
    expr_ok T nlv e = true -> layout_head r -> length (toks_expr e) < f ->
    parse_expr T nlv (expr_fuel f) 0 (map DTok (toks_expr e) ++ r) = FOk (e, r).

  Notation pstmt := (parse_stmt T nlv).
  Notation pstmts := (parse_stmts T nlv).
  Notation pblock := (parse_block T nlv).
  Notation sok := (stmt_ok T nlv).

  (* unfolding equations of the mutually recursive parser functions *)
  Lemma parse_stmts_S : forall f ts,
    pstmts (S f) ts =
    (do '(s, r) <- pstmt f ts ;;
     if starts_stmt r then do '(ss, r1) <- pstmts f r ;; FOk (s :: ss, r1) else FOk ([s], r)).
  Proof. reflexivity. Qed.

  Lemma parse_block_S : forall f ts,
    pblock (S f) ts =
    (do r <- expect_indent ts ;; do '(ss, r1) <- pstmts f r ;; do r2 <- expect_dedent r1 ;; FOk (ss, r2)).
  Proof. reflexivity. Qed.

  Lemma parse_stmt_service : forall f n r,
    pstmt (S f) (DTok (TUpper n) :: r) =
    (do '((ins, outs), r1) <- parse_call_rest f r ;; FOk (SService n ins outs, r1)).
  Proof. reflexivity. Qed.

  Lemma parse_stmt_call : forall f n r,
    pstmt (S f) (DTok (TLower n) :: r) =
    (do '((ins, outs), r1) <- parse_call_rest f r ;;
     FOk (SCall {| c_name := n; c_ins := ins; c_outs := outs |}, r1)).
  Proof. reflexivity. Qed.

  Lemma parse_stmt_parallel : forall f r,
    pstmt (S f) (DTok KParallel :: DIndent :: r) =
    (do '(cs, r2) <- parse_task_calls f r ;; do r3 <- expect_dedent r2 ;; FOk (SParallel cs, r3)).
  Proof. reflexivity. Qed.

  Lemma parse_stmt_while : forall f r,
    pstmt (S f) (DTok KLoop :: DTok KWhile :: r) =
    (do '(e, r1) <- parse_expr T nlv (expr_fuel f) 0 r ;;
     do e' <- top_expr e ;;
     do '(body, r2) <- pblock f r1 ;; FOk (SWhile e' body, r2)).
  Proof. reflexivity. Qed.

  Lemma parse_stmt_parloop : forall f r,
    pstmt (S f) (DTok KParallel :: DTok KLoop :: r) = parse_counting T nlv f true r.
  Proof. reflexivity. Qed.

  Lemma parse_stmt_loop : forall f v r,
    pstmt (S f) (DTok KLoop :: DTok (TLower v) :: r) = parse_counting T nlv f false (DTok (TLower v) :: r).
  Proof. reflexivity. Qed.

  Lemma parse_counting_int : forall f par v n r,
    parse_counting T nlv (S f) par (DTok (TLower v) :: DTok KTo :: DTok (TInt n) :: r) =
    (do '(body, r1) <- pblock f r ;; FOk (SCount par v (LimInt n) body, r1)).
  Proof. reflexivity. Qed.

  Lemma parse_counting_path : forall f par v x r,
    parse_counting T nlv (S f) par (DTok (TLower v) :: DTok KTo :: DTok (TLower x) :: r) =
    (do '(p, r1) <- parse_path_rest f r ;;
     do '(body, r2) <- pblock f r1 ;; FOk (SCount par v (LimPath x p) body, r2)).
  Proof. reflexivity. Qed.

  Lemma parse_stmt_cond : forall f r,
    pstmt (S f) (DTok KCondition :: r) =
    (do r1 <- expect_indent r ;;
     do '(e, r2) <- parse_expr T nlv (expr_fuel f) 0 r1 ;;
     do e' <- top_expr e ;;
     do r3 <- nl_plus r2 ;;
     do r4 <- expect_dedent r3 ;;
     match r4 with
     | DTok KPassed :: r5 =>
       do '(passed, r6) <- pblock f r5 ;;
       match r6 with
       | DTok KFailed :: r7 =>
         do '(failed, r8) <- pblock f r7 ;; FOk (SCond e' passed failed, r8)
       | _ => FOk (SCond e' passed [], r6)
       end
     | _ => FSyntax
     end).
  Proof. reflexivity. Qed.

  Definition stmt_rt (s : stmt) : Prop :=
    forall f r, sok s = true -> stmt_follow r ->
                length (skel_forest (forest_stmt s)) <= f ->
                pstmt f (skel_forest (forest_stmt s) ++ r) = FOk (s, r).

  Lemma parse_stmts_rt : forall ss,
    Forall stmt_rt ss -> ss <> [] -> forallb sok ss = true ->
    forall f r, starts_stmt r = false -> stmt_follow r ->
                length (skel_forest (forest_stmts ss)) + 1 <= f ->
                pstmts f (skel_forest (forest_stmts ss) ++ r) = FOk (ss, r).
  Proof.
    induction ss as [|s ss IH]; intros HP Hne Hok f r Hst Hfo Hf; [congruence|].
    inversion HP as [|? ? Hs Hss]; subst.
    cbn [forallb] in Hok. apply andb_prop in Hok. destruct Hok as [Hsok Hssok].
    destruct f as [|f]; [lia|].
    unfold forest_stmts in *. cbn [flat_map] in *. rewrite skel_forest_app in Hf |- *.
    rewrite app_length in Hf. rewrite <- app_assoc. rewrite parse_stmts_S.
    pose proof (forest_stmt_len s) as Hlen.
    destruct ss as [|s2 ss].
    - cbn [flat_map skel_forest app] in *. rewrite (Hs f r Hsok Hfo) by lia.
      cbn [fbind]. rewrite Hst. reflexivity.
    - fold (forest_stmts (s2 :: ss)) in *.
      rewrite (Hs f _ Hsok (stmts_follow s2 ss r)) by lia.
      cbn [fbind]. rewrite stmts_starts.
      rewrite (IH Hss ltac:(congruence) Hssok f r Hst Hfo) by lia.
      reflexivity.
  Qed.

  Lemma parse_block_rt : forall ss,
    Forall stmt_rt ss -> ss <> [] -> forallb sok ss = true ->
    forall f r, length (skel_forest (forest_stmts ss)) + 2 <= f ->
                pblock f (DIndent :: skel_forest (forest_stmts ss) ++ DDedent :: r) = FOk (ss, r).
  Proof.
    intros ss HP Hne Hok f r Hf. destruct f as [|f]; [lia|].
    rewrite parse_block_S. cbn [expect_indent fbind].
    rewrite (parse_stmts_rt ss HP Hne Hok f (DDedent :: r)) by (try reflexivity; try exact I; lia).
    reflexivity.
  Qed.

  (* task_call+ *)
  Definition d_calls (cs : list call) : toks :=
    skel_forest (map (fun c => forest_call (TLower (c_name c)) (c_ins c) (c_outs c)) cs).

  Lemma call_tail_len : forall ins outs, 1 <= length (call_tail ins outs).
  Proof. intros. unfold call_tail. destruct (forest_io ins outs); cbn [length]; lia. Qed.

  Lemma d_calls_head : forall c cs r,
    d_calls (c :: cs) ++ r = DTok (TLower (c_name c)) :: (call_tail (c_ins c) (c_outs c) ++ d_calls cs) ++ r.
  Proof. intros. unfold d_calls. cbn [map]. rewrite skel_forest_cons, skel_call. reflexivity. Qed.

  Lemma parse_task_calls_rt : forall cs f r,
    cs <> [] -> forallb call_ok cs = true -> length (d_calls cs) + 1 <= f ->
    parse_task_calls f (d_calls cs ++ DDedent :: r) = FOk (cs, DDedent :: r).
  Proof.
    induction cs as [|c cs IH]; intros f r Hne Hok Hf; [congruence|].
    cbn [forallb] in Hok. apply andb_prop in Hok. destruct Hok as [Hc Hcs].
    unfold call_ok in Hc. apply andb_prop in Hc. destruct Hc as [Hins _].
    destruct f as [|f]; [lia|].
    assert (Hlen : length (d_calls (c :: cs)) = S (length (call_tail (c_ins c) (c_outs c)) + length (d_calls cs))).
    { pose proof (d_calls_head c cs []) as E. rewrite !app_nil_r in E. rewrite E. cbn [length].
      rewrite app_length. reflexivity. }
    rewrite Hlen in Hf.
    rewrite d_calls_head. rewrite <- app_assoc. cbn [parse_task_calls].
    pose proof (call_tail_len (c_ins c) (c_outs c)).
    destruct cs as [|c2 cs].
    - cbn [d_calls map skel_forest flat_map app length] in *.
      rewrite parse_call_rest_rt by (auto; try exact I; lia).
      cbn [fbind starts_lower]. destruct c; reflexivity.
    - rewrite parse_call_rest_rt; [|exact Hins|rewrite d_calls_head; exact I|lia].
      cbn [fbind]. rewrite (d_calls_head c2 cs). cbn [starts_lower]. rewrite <- (d_calls_head c2 cs).
      rewrite (IH f r); [destruct c; reflexivity|congruence|exact Hcs|lia].
  Qed.

  Lemma forallb_sok : forall body,
    (fix all (l : list stmt) : bool := match l with [] => true | x :: r => sok x && all r end) body
    = forallb sok body.
  Proof. reflexivity. Qed.

  Lemma limit_len : forall lim, 1 <= length (toks_limit lim).
  Proof. intros [n|v p]; cbn [toks_limit length]; lia. Qed.

  Theorem stmt_roundtrip : forall s, stmt_rt s.
  Proof.
    induction s as [n ins outs|c|cs|e body IH|par v lim body IH|e a b IHa IHb] using stmt_ind';
      intros f r Hok Hfo Hf;
      (destruct f as [|f];
       [match type of Hf with length (skel_forest (forest_stmt ?s)) <= _ => pose proof (forest_stmt_len s) as Hl end; lia|]).
    - (* service *)
      cbn [forest_stmt skel_forest flat_map] in *. rewrite app_nil_r in *. rewrite skel_call in *.
      cbn [length] in Hf. cbn [stmt_ok] in Hok. apply andb_prop in Hok. destruct Hok as [Hins _].
      cbn [app]. rewrite parse_stmt_service.
      rewrite parse_call_rest_rt; [reflexivity|exact Hins|exact (stmt_follow_no_nl _ Hfo)|lia].
    - (* task call *)
      cbn [forest_stmt skel_forest flat_map] in *. rewrite app_nil_r in *. rewrite skel_call in *.
      cbn [length] in Hf. cbn [stmt_ok] in Hok. unfold call_ok in Hok. apply andb_prop in Hok. destruct Hok as [Hins _].
      cbn [app]. rewrite parse_stmt_call.
      rewrite parse_call_rest_rt; [destruct c; reflexivity|exact Hins|exact (stmt_follow_no_nl _ Hfo)|lia].
    - (* parallel *)
      cbn [forest_stmt skel_forest flat_map] in *. rewrite app_nil_r in *. rewrite skel_tree_node in *.
      cbn [stmt_ok] in Hok. destruct cs as [|c cs]; [discriminate|].
      fold (d_calls (c :: cs)) in *.
      assert (Hm : forall X Y : toks, match map (fun c0 => forest_call (TLower (c_name c0)) (c_ins c0) (c_outs c0)) (c :: cs) with
                              | [] => X | _ :: _ => Y end = Y) by reflexivity.
      rewrite Hm in *. cbn [map app length] in Hf. rewrite app_length in Hf. cbn [length] in Hf.
      cbn [map app]. rewrite <- app_assoc. cbn [app]. rewrite parse_stmt_parallel.
      rewrite parse_task_calls_rt; [reflexivity|congruence|exact Hok|lia].
    - (* while *)
      rewrite forest_while in *. cbn [skel_forest flat_map] in *. rewrite app_nil_r in *.
      cbn [stmt_ok] in Hok. rewrite forallb_sok in Hok.
      apply andb_prop in Hok. destruct Hok as [Hok Hbody]. apply andb_prop in Hok. destruct Hok as [He Hne].
      destruct body as [|s0 body]; [discriminate|].
      rewrite skel_node_stmts in *.
      rewrite app_length, map_length in Hf. cbn [length] in Hf. rewrite app_length in Hf. cbn [length] in Hf.
      cbn [map]. norm_app. rewrite parse_stmt_while.
      rewrite (expr_rt e f) by (try exact He; try exact I; lia).
      cbn [fbind]. assert (Htop : top_expr e = FOk e) by (destruct e; try reflexivity; discriminate).
      rewrite Htop. cbn [fbind].
      rewrite (parse_block_rt (s0 :: body) IH ltac:(congruence) Hbody f r) by lia.
      reflexivity.
    - (* counting loop *)
      rewrite forest_count in *. cbn [skel_forest flat_map] in *. rewrite app_nil_r in *.
      cbn [stmt_ok] in Hok. rewrite forallb_sok in Hok.
      apply andb_prop in Hok. destruct Hok as [Hok Hbody]. apply andb_prop in Hok. destruct Hok as [Hlim Hne].
      destruct body as [|s0 body]; [discriminate|].
      rewrite skel_node_stmts in *.
      rewrite app_length, map_length, app_length in Hf. cbn [length] in Hf. rewrite app_length in Hf. cbn [length] in Hf.
      destruct par; destruct lim as [n|x p]; cbn [toks_limit app map length] in *; norm_app;
        rewrite ?parse_stmt_parloop, ?parse_stmt_loop; (destruct f as [|f]; [lia|]).
      + rewrite parse_counting_int.
        rewrite (parse_block_rt (s0 :: body) IH ltac:(congruence) Hbody f r) by lia. reflexivity.
      + rewrite parse_counting_path. cbn [limit_ok] in Hlim. pose proof (toks_path_len p).
        rewrite parse_path_rest_rt; [|exact Hlim|split; reflexivity|lia].
        cbn [fbind app].
        rewrite (parse_block_rt (s0 :: body) IH ltac:(congruence) Hbody f r) by lia. reflexivity.
      + rewrite parse_counting_int.
        rewrite (parse_block_rt (s0 :: body) IH ltac:(congruence) Hbody f r) by lia. reflexivity.
      + rewrite parse_counting_path. cbn [limit_ok] in Hlim. pose proof (toks_path_len p).
        rewrite parse_path_rest_rt; [|exact Hlim|split; reflexivity|lia].
        cbn [fbind app].
        rewrite (parse_block_rt (s0 :: body) IH ltac:(congruence) Hbody f r) by lia. reflexivity.
    - (* condition *)
      rewrite forest_cond in *.
      cbn [stmt_ok] in Hok. rewrite !forallb_sok in Hok.
      apply andb_prop in Hok. destruct Hok as [Hok Hbok]. apply andb_prop in Hok. destruct Hok as [Hok Haok].
      apply andb_prop in Hok. destruct Hok as [He Hne].
      destruct a as [|s0 a]; [discriminate|].
      assert (Htop : top_expr e = FOk e) by (destruct e; try reflexivity; discriminate).
      rewrite !skel_forest_cons in *. rewrite skel_node_stmts in *.
      rewrite (skel_tree_node [KCondition]) in *. cbn [skel_forest flat_map] in *. rewrite skel_leaf in *.
      rewrite !app_length in Hf. cbn [map length] in Hf. rewrite !app_length in Hf. rewrite map_length in Hf.
      cbn [length] in Hf.
      cbn [map]. norm_app. rewrite parse_stmt_cond.
      cbn [expect_indent fbind].
      rewrite (expr_rt e f) by (try exact He; try exact I; lia).
      cbn [fbind]. rewrite Htop. cbn [fbind]. rewrite nl_plus_one by exact I. cbn [fbind expect_dedent].
      rewrite (parse_block_rt (s0 :: a) IHa ltac:(congruence) Haok f) by lia.
      cbn [fbind].
      destruct b as [|s1 b].
      + cbn [skel_forest flat_map app].
        destruct r as [|[t| | | |] r]; try reflexivity; try contradiction.
        destruct t; try reflexivity. contradiction.
      + cbn [skel_forest flat_map] in *. rewrite skel_node_stmts in *. rewrite app_nil_r in *.
        rewrite !app_length in Hf. cbn [map length] in Hf. rewrite !app_length in Hf. cbn [length] in Hf.
        cbn [map]. norm_app.
        rewrite (parse_block_rt (s1 :: b) IHb ltac:(congruence) Hbok f) by lia.
        reflexivity.
  Qed.
End Statements.

(* ---- struct, task, program ---- *)
Lemma parse_struct_rt : forall s f r,
  s_attrs s <> [] -> length (s_attrs s) <= f ->
  parse_struct f (skel_forest (forest_struct s) ++ r) = FOk (s, DNL :: r).
Proof.
  intros [n attrs] f r Hne Hf. cbn [s_attrs s_name] in *.
  unfold forest_struct. cbn [s_attrs s_name skel_forest flat_map]. rewrite skel_tree_node, skel_leaf.
  destruct attrs as [|d attrs]; [congruence|].
  assert (Hm : forall X Y : toks, match map (fun d0 => leaf (toks_vardef d0)) (d :: attrs) with
                                  | [] => X | _ :: _ => Y end = Y) by reflexivity.
  rewrite Hm. rewrite skel_forest_vardefs. cbn [map]. norm_app. cbn [parse_struct].
  rewrite parse_vardef_block_rt; [reflexivity|congruence|exact Hf].
Qed.

Definition d_names (ns : list name) : toks := flat_map (fun n => [DTok (TLower n); DNL]) ns.

Lemma parse_names_rt : forall ns f r,
  ns <> [] -> length ns <= f ->
  parse_names f (d_names ns ++ DDedent :: r) = FOk (ns, DDedent :: r).
Proof.
  induction ns as [|n ns IH]; intros f r Hne Hf; [congruence|].
  destruct f as [|f]; [cbn in Hf; lia|].
  unfold d_names in *. cbn [flat_map app parse_names].
  destruct ns as [|n2 ns].
  - cbn [flat_map app]. rewrite nl_plus_one by exact I. reflexivity.
  - rewrite nl_plus_one by exact I. cbn [fbind]. cbn [flat_map app starts_lower].
    change (DTok (TLower n2) :: DNL :: flat_map (fun n0 => [DTok (TLower n0); DNL]) ns ++ DDedent :: r)
      with (flat_map (fun n0 => [DTok (TLower n0); DNL]) (n2 :: ns) ++ DDedent :: r).
    rewrite IH; [reflexivity|congruence|cbn [length] in Hf |- *; lia].
Qed.

Lemma skel_names : forall ns, skel_forest (map (fun n => leaf [TLower n]) ns) = d_names ns.
Proof.
  induction ns as [|n ns IH]; [reflexivity|].
  cbn [map]. rewrite skel_forest_cons, skel_leaf, IH. reflexivity.
Qed.

Definition d_task_in (ins : list (name * vtype)) : toks :=
  match ins with [] => [] | _ => DTok KIn :: DIndent :: d_vardefs ins ++ [DDedent] end.

Definition d_task_out (outs : list name) : toks :=
  match outs with [] => [] | _ => DTok KOut :: DIndent :: d_names outs ++ [DDedent] end.

Lemma skel_task : forall n ins s0 body outs,
  skel_forest (forest_task {| t_name := n; t_ins := ins; t_body := s0 :: body; t_outs := outs |}) =
  DTok KTask :: DTok (TLower n) :: DIndent ::
    d_task_in ins ++ skel_forest (forest_stmts (s0 :: body)) ++ d_task_out outs
    ++ [DDedent; DTok KEnd; DNL].
Proof.
  intros n ins s0 body outs. unfold forest_task. cbn [t_name t_ins t_body t_outs skel_forest flat_map].
  rewrite skel_leaf, app_nil_r. rewrite skel_tree_node.
  set (kin := match ins with [] => [] | _ => [LNode [KIn] (map (fun d => leaf (toks_vardef d)) ins)] end).
  set (kout := match outs with [] => [] | _ => [LNode [KOut] (map (fun n0 => leaf [TLower n0]) outs)] end).
  assert (Hin : skel_forest kin = d_task_in ins).
  { unfold kin, d_task_in. destruct ins as [|d ins]; [reflexivity|].
    cbn [skel_forest flat_map]. rewrite app_nil_r, skel_tree_node. rewrite skel_forest_vardefs. reflexivity. }
  assert (Hout : skel_forest kout = d_task_out outs).
  { unfold kout, d_task_out. destruct outs as [|o outs]; [reflexivity|].
    cbn [skel_forest flat_map]. rewrite app_nil_r, skel_tree_node. rewrite skel_names. reflexivity. }
  destruct (kin ++ forest_stmts (s0 :: body) ++ kout) as [|k0 k] eqn:E.
  - exfalso. apply app_eq_nil in E. destruct E as [_ E]. apply app_eq_nil in E. destruct E as [E _].
    exact (forest_stmts_nonempty _ _ E).
  - rewrite <- E. rewrite !skel_forest_app, Hin, Hout. cbn [map]. norm_app. reflexivity.
Qed.

Lemma d_names_length : forall ns, length ns <= length (d_names ns).
Proof. induction ns as [|n ns IH]; [cbn; lia|]. unfold d_names in *. cbn [flat_map app length] in *. lia. Qed.

Lemma parse_task_in_rt : forall ins f t rest,
  match t with KLoop | KParallel | KCondition | TLower _ | TUpper _ => True | _ => False end ->
  length ins <= f ->
  parse_task_in f (d_task_in ins ++ DTok t :: rest) = FOk (ins, DTok t :: rest).
Proof.
  intros ins f t rest Ht Hf. destruct ins as [|d ins].
  - cbn [d_task_in app]. destruct t; try contradiction; reflexivity.
  - cbn [d_task_in]. norm_app. cbn [parse_task_in].
    apply parse_vardef_block_rt; [congruence|exact Hf].
Qed.

Lemma parse_task_out_rt : forall outs f r,
  length outs <= f ->
  parse_task_out f (d_task_out outs ++ DDedent :: r) = FOk (outs, DDedent :: r).
Proof.
  intros outs f r Hf. destruct outs as [|o outs]; [reflexivity|].
  cbn [d_task_out]. norm_app. cbn [parse_task_out expect_indent fbind].
  rewrite parse_names_rt; [reflexivity|congruence|exact Hf].
Qed.

Section Programs.
  Variable T : level_table.
  Variable nlv : nat.
  Variable expr_rt : forall e f r,
    expr_ok T nlv e = true -> layout_head r -> length (toks_expr e) < f ->
    parse_expr T nlv (expr_fuel f) 0 (map DTok (toks_expr e) ++ r) = FOk (e, r).

  Lemma parse_task_rt : forall t f r,
    task_ok T nlv t = true -> length (skel_forest (forest_task t)) <= f ->
    parse_task T nlv f (skel_forest (forest_task t) ++ r) = FOk (t, DNL :: r).
  Proof.
    intros [n ins body outs] f r Hok Hf. unfold task_ok in Hok. cbn [t_ins t_body t_name t_outs] in *.
    apply andb_prop in Hok. destruct Hok as [_ Hbody].
    destruct body as [|s0 body]; [discriminate|].
    rewrite skel_task in *. cbn [length] in Hf. rewrite !app_length in Hf. cbn [length] in Hf.
    norm_app. cbn [parse_task expect_indent fbind].
    assert (Hst : Forall (stmt_rt T nlv) (s0 :: body)).
    { apply Forall_forall. intros s _. apply stmt_roundtrip. exact expr_rt. }
    destruct (stmts_head s0 body (d_task_out outs ++ DDedent :: DTok KEnd :: DNL :: r)) as [t0 [rest0 [Hh Ht0]]].
    rewrite Hh.
    assert (Hil : length ins <= f).
    { destruct ins as [|d ins]; [cbn; lia|]. pose proof (d_vardefs_length (d :: ins)).
      cbn [d_task_in length] in Hf. rewrite app_length in Hf. cbn [length] in Hf. lia. }
    rewrite (parse_task_in_rt ins f t0 rest0 Ht0 Hil). cbn [fbind]. rewrite <- Hh.
    rewrite (parse_stmts_rt T nlv (s0 :: body) Hst ltac:(congruence) Hbody f).
    - cbn [fbind].
      assert (Hol : length outs <= f).
      { destruct outs as [|o outs]; [cbn; lia|]. pose proof (d_names_length (o :: outs)).
        cbn [d_task_out length] in Hf. rewrite app_length in Hf. cbn [length] in Hf. lia. }
      rewrite (parse_task_out_rt outs f _ Hol). reflexivity.
    - destruct outs; reflexivity.
    - destruct outs; exact I.
    - lia.
  Qed.
End Programs.

Section ProgramRT.
  Variable T : level_table.
  Variable nlv : nat.
  Variable expr_rt : forall e f r,
    expr_ok T nlv e = true -> layout_head r -> length (toks_expr e) < f ->
    parse_expr T nlv (expr_fuel f) 0 (map DTok (toks_expr e) ++ r) = FOk (e, r).

  Notation pprog := (parse_program T nlv).

  Lemma parse_program_eof : forall f, pprog (S f) [DEOF] = FOk {| p_structs := []; p_tasks := [] |}.
  Proof. reflexivity. Qed.

  Lemma parse_program_nl : forall f r, pprog (S f) (DNL :: r) = pprog f r.
  Proof. reflexivity. Qed.

  Lemma parse_program_struct : forall f r,
    pprog (S f) (DTok KStruct :: r) =
    (do '(s, r') <- parse_struct f (DTok KStruct :: r) ;;
     do p <- pprog f r' ;;
     FOk {| p_structs := s :: p_structs p; p_tasks := p_tasks p |}).
  Proof. reflexivity. Qed.

  Lemma parse_program_task : forall f r,
    pprog (S f) (DTok KTask :: r) =
    (do '(t, r') <- parse_task T nlv f (DTok KTask :: r) ;;
     do p <- pprog f r' ;;
     FOk {| p_structs := p_structs p; p_tasks := t :: p_tasks p |}).
  Proof. reflexivity. Qed.

  Lemma struct_len : forall s, length (s_attrs s) + 4 <= length (skel_forest (forest_struct s)).
  Proof.
    intros [n attrs]. destruct attrs as [|d attrs]; [vm_compute; lia|].
    unfold forest_struct. cbn [s_name s_attrs skel_forest flat_map].
    rewrite skel_leaf, app_nil_r, skel_tree_node.
    assert (Hm : forall X Y : toks, match map (fun d0 => leaf (toks_vardef d0)) (d :: attrs) with
                                    | [] => X | _ :: _ => Y end = Y) by reflexivity.
    rewrite Hm. rewrite skel_forest_vardefs. rewrite !app_length. cbn [map length]. rewrite app_length. cbn [length].
    pose proof (d_vardefs_length (d :: attrs)). cbn [length] in *. lia.
  Qed.

  Lemma task_len : forall t, 2 <= length (skel_forest (forest_task t)).
  Proof.
    intros [n ins body outs]. unfold forest_task. cbn [skel_forest flat_map].
    rewrite skel_leaf. rewrite !app_length. cbn [map length]. lia.
  Qed.

  Lemma skel_struct_head : forall s, exists rest, skel_forest (forest_struct s) = DTok KStruct :: rest.
  Proof. intros [n attrs]. eexists. reflexivity. Qed.

  Lemma skel_task_head : forall t, exists rest, skel_forest (forest_task t) = DTok KTask :: rest.
  Proof. intros [n ins body outs]. eexists. reflexivity. Qed.

  Lemma parse_tasks_rt : forall ts f,
    forallb (task_ok T nlv) ts = true ->
    length (skel_forest (flat_map forest_task ts)) + length ts + 1 <= f ->
    pprog f (skel_forest (flat_map forest_task ts) ++ [DEOF]) = FOk {| p_structs := []; p_tasks := ts |}.
  Proof.
    induction ts as [|t ts IH]; intros f Hok Hf.
    - destruct f as [|f]; [cbn in Hf; lia|]. reflexivity.
    - cbn [forallb] in Hok. apply andb_prop in Hok. destruct Hok as [Ht Hts].
      cbn [flat_map] in *. rewrite skel_forest_app in *. rewrite app_length in Hf. cbn [length] in Hf.
      destruct f as [|f]; [lia|].
      destruct (skel_task_head t) as [rest Hrest].
      rewrite <- app_assoc. rewrite Hrest. cbn [app]. rewrite parse_program_task.
      change (DTok KTask :: rest ++ skel_forest (flat_map forest_task ts) ++ [DEOF])
        with ((DTok KTask :: rest) ++ skel_forest (flat_map forest_task ts) ++ [DEOF]).
      rewrite <- Hrest.
      rewrite (parse_task_rt T nlv expr_rt t f _ Ht) by lia.
      cbn [fbind].
      pose proof (task_len t) as Hl.
      destruct f as [|f]; [lia|]. rewrite parse_program_nl.
      rewrite (IH f Hts) by lia. reflexivity.
  Qed.

  Lemma parse_program_rt : forall ss ts f,
    forallb struct_ok ss = true -> forallb (task_ok T nlv) ts = true ->
    length (skel_forest (flat_map forest_struct ss ++ flat_map forest_task ts)) + length ss + length ts + 1 <= f ->
    pprog f (skel_forest (flat_map forest_struct ss ++ flat_map forest_task ts) ++ [DEOF])
    = FOk {| p_structs := ss; p_tasks := ts |}.
  Proof.
    induction ss as [|s ss IH]; intros ts f Hss Hts Hf.
    - cbn [flat_map app length] in *. apply parse_tasks_rt; [exact Hts|lia].
    - cbn [forallb] in Hss. apply andb_prop in Hss. destruct Hss as [Hs Hss].
      cbn [flat_map] in *. rewrite <- app_assoc in *. rewrite skel_forest_app in *.
      rewrite app_length in Hf. cbn [length] in Hf.
      destruct f as [|f]; [lia|].
      destruct (skel_struct_head s) as [rest Hrest].
      rewrite <- app_assoc. rewrite Hrest. cbn [app]. rewrite parse_program_struct.
      change (DTok KStruct :: rest ++ skel_forest (flat_map forest_struct ss ++ flat_map forest_task ts) ++ [DEOF])
        with ((DTok KStruct :: rest) ++ skel_forest (flat_map forest_struct ss ++ flat_map forest_task ts) ++ [DEOF]).
      rewrite <- Hrest.
      pose proof (struct_len s) as Hsl.
      unfold struct_ok in Hs.
      rewrite parse_struct_rt; [|destruct (s_attrs s); [discriminate|congruence]|lia].
      cbn [fbind].
      destruct f as [|f]; [lia|]. rewrite parse_program_nl.
      rewrite (IH ts f Hss Hts) by lia. reflexivity.
  Qed.
End ProgramRT.
