(* Front/CharModesProofs.v — the line-level half of [text_ok] holds for every printed program:
   in the lines of [render L p] every lexeme stands in the lexer mode it belongs to (JSON-mode
   lexemes exactly inside the braces of a struct literal, which opens and closes on one line).
   Hence the round trip from characters needs character-level side conditions only. *)
From PFDL.Front Require Import CharLexer CharRender CharLexerProofs.
From PFDL.Front Require Import Render DenterProofs ParserProofs RenderProofs RoundTrip LayoutProofs.
From Coq Require Import Ascii String Lia.
Import ListNotations.

(* ---- text_ok = modes && style ---- *)
Lemma lexemes_split : forall intern sty lex d i j prev,
  lexemes_ok intern sty d i j prev lex = lexemes_modes d lex && lexemes_style intern sty i j prev lex.
Proof.
  intros intern sty. induction lex as [|t r IH]; intros d i j prev; [reflexivity|].
  cbn [lexemes_ok lexemes_modes lexemes_style]. rewrite IH.
  destruct (mode_ok d t), (tok_spelled intern sty t), (lexemes_modes (depth_step d t) r),
    (match prev with Some p => gap_ok sty p (cs_gap sty i j) t | None => true end); reflexivity.
Qed.

Lemma clines_split : forall intern sty ls d i,
  clines_ok intern sty d i ls = clines_modes d ls && clines_style intern sty d i ls.
Proof.
  intros intern sty. induction ls as [|l r IH]; intros d i.
  - cbn. rewrite Bool.andb_true_r. reflexivity.
  - cbn [clines_ok clines_modes clines_style]. rewrite IH. unfold cline_ok, cline_style. rewrite lexemes_split.
    set (a := lexemes_modes d (l_lex l)). set (b := lexemes_style intern sty i 0 None (l_lex l)).
    set (c := clines_modes (json_depth d (l_lex l)) r).
    set (e := clines_style intern sty (json_depth d (l_lex l)) (S i) r).
    rewrite <- !Bool.andb_assoc. destruct a, b, c; cbn [andb]; try reflexivity;
      rewrite ?Bool.andb_false_r; reflexivity.
Qed.

Lemma text_ok_split : forall intern sty t,
  text_ok intern sty t = text_modes_ok t && text_style_ok intern sty t.
Proof. intros. apply clines_split. Qed.

(* ---- lexemes of the default mode without braces ---- *)
Definition dtok (t : tok) : bool := mode_ok 0 t && no_brace t.

Lemma dtok_modes : forall lex, forallb dtok lex = true -> lexemes_modes 0 lex = true.
Proof.
  induction lex as [|t r IH]; intros H; [reflexivity|].
  cbn [forallb] in H. apply andb_prop in H. destruct H as [Ht Hr].
  unfold dtok in Ht. apply andb_prop in Ht. destruct Ht as [Hm Hb].
  cbn [lexemes_modes]. rewrite Hm. cbn [andb].
  unfold no_brace in Hb. apply andb_prop in Hb. destruct Hb as [Ho Hc].
  apply Bool.negb_true_iff in Ho. apply Bool.negb_true_iff in Hc.
  unfold depth_step. rewrite Ho, Hc. apply IH. exact Hr.
Qed.

Lemma dtok_prim : forall p, forallb dtok (toks_prim p) = true.
Proof. intros []; reflexivity. Qed.

Lemma dtok_vtype : forall t, forallb dtok (toks_vtype t) = true.
Proof. intros [p|p [ |n|v]]; cbn [toks_vtype]; rewrite ?forallb_app, ?dtok_prim; reflexivity. Qed.

Lemma dtok_vardef : forall d, forallb dtok (toks_vardef d) = true.
Proof. intros [n t]. unfold toks_vardef. cbn [fst snd forallb]. rewrite dtok_vtype. reflexivity. Qed.

Lemma dtok_path : forall p, forallb dtok (toks_path p) = true.
Proof.
  unfold toks_path. induction p as [|e p IH]; [reflexivity|].
  cbn [flat_map]. rewrite forallb_app, IH. destruct e; reflexivity.
Qed.

Lemma dtok_num : forall q, forallb dtok (toks_num q) = true.
Proof.
  intros q. unfold toks_num, toks_posnum.
  destruct (Qnum q <? 0)%Z; [destruct (Qden (Qopp q))|destruct (Qden q)]; reflexivity.
Qed.

Lemma dtok_expr : forall e, forallb dtok (toks_expr e) = true.
Proof.
  induction e as [q|b|s|x pth|x IHx|x IHx|o l IHl r IHr]; cbn [toks_expr].
  - apply dtok_num.
  - destruct b; reflexivity.
  - reflexivity.
  - cbn [forallb]. rewrite dtok_path. reflexivity.
  - cbn [forallb]. rewrite IHx. reflexivity.
  - cbn [forallb]. rewrite forallb_app, IHx. reflexivity.
  - rewrite forallb_app. cbn [forallb]. rewrite IHl, IHr. destruct o; reflexivity.
Qed.

Lemma dtok_limit : forall l, forallb dtok (toks_limit l) = true.
Proof. intros [n|v p]; cbn [toks_limit forallb]; rewrite ?dtok_path; reflexivity. Qed.

(* ---- struct literals ---- *)
Lemma modes_app : forall a b d, lexemes_modes d a = true -> lexemes_modes (json_depth d a) b = true ->
  lexemes_modes d (a ++ b) = true.
Proof.
  induction a as [|t a IH]; intros b d Ha Hb; [exact Hb|].
  cbn [lexemes_modes app json_depth] in *. apply andb_prop in Ha. destruct Ha as [Hm Ha]. rewrite Hm. cbn [andb].
  apply IH; [exact Ha|exact Hb].
Qed.

(* a JSON value below the top level, at any depth >= 1 *)
Lemma modes_json_inner : forall j d, lexemes_modes (S d) (toks_json false j) = true.
Proof.
  induction j as [q|b|s|fs IH|es IH] using json_ind'; intros d.
  - reflexivity.
  - destruct b; reflexivity.
  - reflexivity.
  - rewrite toks_json_obj. cbn [lexemes_modes]. change (mode_ok (S d) JOpen2) with true. cbn [andb].
    change (depth_step (S d) JOpen2) with (S (S d)).
    assert (Hp : lexemes_modes (S (S d)) (toks_pairs fs) = true /\ json_depth (S (S d)) (toks_pairs fs) = S (S d)).
    { clear -IH. induction fs as [|[k v] fs IHfs]; [split; reflexivity|].
      inversion IH as [|? ? Hv Hfs]; subst. cbn [snd] in Hv.
      destruct fs as [|kv2 fs].
      - cbn [toks_pairs]. split.
        + cbn [lexemes_modes]. change (depth_step (S (S d)) (JString k)) with (S (S d)).
          change (depth_step (S (S d)) JColon) with (S (S d)). cbn [mode_ok]. cbn. apply Hv.
        + cbn [json_depth opens_json closes_json]. apply json_depth_json.
      - rewrite toks_pairs_cons2. destruct (IHfs Hfs) as [H1 H2]. split.
        + cbn [lexemes_modes]. change (depth_step (S (S d)) (JString k)) with (S (S d)).
          change (depth_step (S (S d)) JColon) with (S (S d)).
          change (mode_ok (S (S d)) (JString k)) with true. change (mode_ok (S (S d)) JColon) with true. cbn [andb].
          apply modes_app; [apply Hv|]. rewrite json_depth_json.
          cbn [lexemes_modes]. change (mode_ok (S (S d)) JComma) with true. cbn [andb]. exact H1.
        + cbn [json_depth opens_json closes_json]. rewrite json_depth_app, json_depth_json.
          cbn [json_depth opens_json closes_json]. exact H2. }
    destruct Hp as [Hp1 Hp2]. apply modes_app; [exact Hp1|]. rewrite Hp2. reflexivity.
  - rewrite toks_json_arr. cbn [lexemes_modes]. change (mode_ok (S d) JArrL) with true. cbn [andb].
    change (depth_step (S d) JArrL) with (S d).
    assert (Hp : lexemes_modes (S d) (toks_elems es) = true /\ json_depth (S d) (toks_elems es) = S d).
    { clear -IH. induction es as [|v es IHes]; [split; reflexivity|].
      inversion IH as [|? ? Hv Hes]; subst.
      destruct es as [|v2 es].
      - cbn [toks_elems]. split; [apply Hv|apply json_depth_json].
      - rewrite toks_elems_cons2. destruct (IHes Hes) as [H1 H2]. split.
        + apply modes_app; [apply Hv|]. rewrite json_depth_json.
          cbn [lexemes_modes]. change (mode_ok (S d) JComma) with true. cbn [andb]. exact H1.
        + rewrite json_depth_app, json_depth_json. cbn [json_depth opens_json closes_json]. exact H2. }
    destruct Hp as [Hp1 Hp2]. apply modes_app; [exact Hp1|]. rewrite Hp2. reflexivity.
Qed.

Lemma modes_pairs : forall fs d,
  lexemes_modes (S d) (toks_pairs fs) = true /\ json_depth (S d) (toks_pairs fs) = S d.
Proof.
  induction fs as [|[k v] fs IH]; intros d; [split; reflexivity|].
  destruct fs as [|kv2 fs].
  - cbn [toks_pairs]. split.
    + cbn [lexemes_modes]. change (mode_ok (S d) (JString k)) with true. change (mode_ok (S d) JColon) with true.
      cbn [andb]. apply modes_json_inner.
    + cbn [json_depth opens_json closes_json]. apply json_depth_json.
  - rewrite toks_pairs_cons2. destruct (IH d) as [H1 H2]. split.
    + cbn [lexemes_modes]. change (mode_ok (S d) (JString k)) with true. change (mode_ok (S d) JColon) with true.
      cbn [andb]. change (depth_step (S d) (JString k)) with (S d). change (depth_step (S d) JColon) with (S d).
      apply modes_app; [apply modes_json_inner|]. rewrite json_depth_json.
      cbn [lexemes_modes]. change (mode_ok (S d) JComma) with true. cbn [andb]. exact H1.
    + cbn [json_depth opens_json closes_json]. rewrite json_depth_app, json_depth_json.
      cbn [json_depth opens_json closes_json]. exact H2.
Qed.

Lemma modes_literal : forall j, lit_ok j = true -> lexemes_modes 0 (toks_json true j) = true.
Proof.
  intros [q|b|s|fs|es] H; try discriminate. rewrite toks_json_obj.
  cbn [lexemes_modes]. change (mode_ok 0 PJsonOpen) with true. cbn [andb]. change (depth_step 0 PJsonOpen) with 1.
  destruct (modes_pairs fs 0) as [H1 H2]. apply modes_app; [exact H1|]. rewrite H2. reflexivity.
Qed.

(* ---- all lines of the forest of a program of the guard ---- *)
Definition mline (lex : list tok) : Prop := lexemes_modes 0 lex = true.
Definition mforest (d : nat) (f : list ltree) : Prop := Forall (fun dl => mline (snd dl)) (flatten d f).

Lemma mf_app : forall d a b, mforest d a -> mforest d b -> mforest d (a ++ b).
Proof. intros d a b Ha Hb. unfold mforest. rewrite flatten_app. apply Forall_app. split; assumption. Qed.

Lemma mf_nil : forall d, mforest d [].
Proof. intros d. constructor. Qed.

Lemma mf_node : forall d lex kids, mline lex -> mforest (S d) kids -> mforest d [LNode lex kids].
Proof.
  intros d lex kids Hl Hk. unfold mforest. cbn [flatten flat_map]. rewrite app_nil_r.
  rewrite flatten_tree_node. constructor; [exact Hl|exact Hk].
Qed.

Lemma mf_cons : forall d t f, mforest d [t] -> mforest d f -> mforest d (t :: f).
Proof. intros d t f Ht Hf. change (t :: f) with ([t] ++ f). apply mf_app; assumption. Qed.

Lemma mf_leaves : forall (A : Type) (g : A -> list tok) d l,
  (forall a, mline (g a)) -> mforest d (map (fun a => leaf (g a)) l).
Proof.
  intros A g d l H. induction l as [|a l IH]; [apply mf_nil|].
  cbn [map]. apply mf_cons; [|exact IH]. apply mf_node; [apply H|apply mf_nil].
Qed.

Ltac kw_m := reflexivity.

Lemma mf_param : forall d p, param_ok p = true -> mforest d [forest_param p].
Proof.
  intros d [v|v p|s j] H; cbn [forest_param].
  - apply mf_node; [kw_m|apply mf_nil].
  - apply mf_node; [|apply mf_nil]. apply dtok_modes. cbn [forallb]. rewrite dtok_path. reflexivity.
  - apply mf_node; [kw_m|]. apply mf_node; [|apply mf_nil]. apply modes_literal. exact H.
Qed.

Lemma mf_params : forall d ps, forallb param_ok ps = true -> mforest d (map forest_param ps).
Proof.
  intros d ps. induction ps as [|p ps IH]; intros H; [apply mf_nil|].
  cbn [forallb] in H. apply andb_prop in H. destruct H as [Hp Hps].
  cbn [map]. apply mf_cons; [apply mf_param; exact Hp|apply IH; exact Hps].
Qed.

Lemma mf_io : forall d ins outs, forallb param_ok ins = true -> mforest d (forest_io ins outs).
Proof.
  intros d ins outs H. unfold forest_io. apply mf_app.
  - destruct ins as [|p ins]; [apply mf_nil|]. apply mf_node; [kw_m|apply mf_params; exact H].
  - destruct outs as [|o outs]; [apply mf_nil|]. apply mf_node; [kw_m|].
    apply mf_leaves. intros a. apply dtok_modes. apply dtok_vardef.
Qed.

Lemma mf_call : forall d head ins outs,
  mline [head] -> forallb param_ok ins = true -> mforest d [forest_call head ins outs].
Proof. intros. unfold forest_call. apply mf_node; [assumption|apply mf_io; assumption]. Qed.

Notation sok := (stmt_ok impl_levels impl_not_level).

Lemma mf_stmts_of : forall d ss,
  Forall (fun s => sok s = true -> forall d0, mforest d0 (forest_stmt s)) ss ->
  forallb sok ss = true -> mforest d (forest_stmts ss).
Proof.
  intros d ss H. induction ss as [|s ss IH]; intros Hok; [apply mf_nil|].
  inversion H; subst. cbn [forallb] in Hok. apply andb_prop in Hok. destruct Hok as [Hs Hss].
  unfold forest_stmts. cbn [flat_map]. apply mf_app; [apply H2; exact Hs|apply IH; assumption].
Qed.

Lemma sok_while : forall e body,
  sok (SWhile e body) = expr_ok impl_levels impl_not_level e && match body with [] => false | _ => true end && forallb sok body.
Proof. reflexivity. Qed.

Lemma sok_count : forall par v lim body,
  sok (SCount par v lim body) = limit_ok lim && match body with [] => false | _ => true end && forallb sok body.
Proof. reflexivity. Qed.

Lemma sok_cond : forall e a b,
  sok (SCond e a b) = expr_ok impl_levels impl_not_level e && match a with [] => false | _ => true end
                      && forallb sok a && forallb sok b.
Proof. reflexivity. Qed.

Lemma mf_stmt : forall s, sok s = true -> forall d, mforest d (forest_stmt s).
Proof.
  induction s as [n ins outs|c|cs|e body IH|par v lim body IH|e a b IHa IHb] using stmt_ind'; intros Hok d.
  - cbn [forest_stmt]. cbn [stmt_ok] in Hok. apply andb_prop in Hok. apply mf_call; [kw_m|exact (proj1 Hok)].
  - cbn [forest_stmt]. cbn [stmt_ok] in Hok. unfold call_ok in Hok. apply andb_prop in Hok.
    apply mf_call; [kw_m|exact (proj1 Hok)].
  - cbn [forest_stmt]. apply mf_node; [kw_m|]. cbn [stmt_ok] in Hok.
    destruct cs as [|c0 cs0]; [discriminate|]. revert Hok. generalize (c0 :: cs0). clear.
    induction l as [|c cs IHcs]; intros Hok; [apply mf_nil|]. cbn [map forallb] in *.
    apply andb_prop in Hok. destruct Hok as [Hc Hcs]. apply mf_cons; [|apply IHcs; exact Hcs].
    unfold call_ok in Hc. apply andb_prop in Hc. apply mf_call; [kw_m|exact (proj1 Hc)].
  - rewrite sok_while in Hok. apply andb_prop in Hok. destruct Hok as [_ Hb].
    rewrite forest_while. apply mf_node; [|apply mf_stmts_of; assumption].
    apply dtok_modes. cbn [forallb]. rewrite dtok_expr. reflexivity.
  - rewrite sok_count in Hok. apply andb_prop in Hok. destruct Hok as [_ Hb].
    rewrite forest_count. apply mf_node; [|apply mf_stmts_of; assumption].
    apply dtok_modes. rewrite forallb_app. cbn [forallb]. rewrite dtok_limit. destruct par; reflexivity.
  - rewrite sok_cond in Hok. apply andb_prop in Hok. destruct Hok as [Hok Hb]. apply andb_prop in Hok. destruct Hok as [_ Ha].
    rewrite forest_cond. apply mf_cons; [|apply mf_cons].
    + apply mf_node; [kw_m|]. apply mf_node; [|apply mf_nil]. apply dtok_modes. apply dtok_expr.
    + apply mf_node; [kw_m|apply mf_stmts_of; assumption].
    + destruct b as [|s1 b]; [apply mf_nil|]. apply mf_node; [kw_m|apply mf_stmts_of; assumption].
Qed.

Lemma mf_program : forall p, names_ok p = true -> mforest 0 (forest_of p).
Proof.
  intros [ss ts] Hok. unfold names_ok, prog_ok in Hok. cbn [p_structs p_tasks] in Hok.
  apply andb_prop in Hok. destruct Hok as [_ Hts].
  unfold forest_of. cbn [p_structs p_tasks]. apply mf_app.
  - clear. induction ss as [|s ss IH]; [apply mf_nil|]. cbn [flat_map]. apply mf_app; [|exact IH].
    unfold forest_struct. apply mf_cons; [|apply mf_node; [kw_m|apply mf_nil]].
    apply mf_node; [kw_m|]. apply mf_leaves. intros a. apply dtok_modes. apply dtok_vardef.
  - induction ts as [|t ts IH]; [apply mf_nil|]. cbn [forallb] in Hts. apply andb_prop in Hts. destruct Hts as [Ht Hts].
    cbn [flat_map]. apply mf_app; [|apply IH; exact Hts].
    unfold forest_task. apply mf_cons; [|apply mf_node; [kw_m|apply mf_nil]].
    apply mf_node; [kw_m|]. apply mf_app; [|apply mf_app].
    + destruct (t_ins t) as [|i ins]; [apply mf_nil|]. apply mf_node; [kw_m|].
      apply mf_leaves. intros a. apply dtok_modes. apply dtok_vardef.
    + unfold task_ok in Ht. apply andb_prop in Ht. destruct Ht as [_ Hb].
      destruct (t_body t) as [|s0 body0] eqn:Eb; [discriminate|]. rewrite <- Eb in *.
      apply mf_stmts_of; [|exact Hb]. apply Forall_forall. intros s _ Hs. apply mf_stmt. exact Hs.
    + destruct (t_outs t) as [|o outs]; [apply mf_nil|]. apply mf_node; [kw_m|].
      apply mf_leaves. intros a. reflexivity.
Qed.

(* ---- the lines of a printed program ---- *)
Lemma modes_filler : forall fl d rest, filler_ok fl = true ->
  clines_modes d (fl ++ rest) = clines_modes d rest.
Proof.
  induction fl as [|l fl IH]; intros d rest H; [reflexivity|].
  cbn [filler_ok forallb] in H. apply andb_prop in H. destruct H as [Hl Hfl].
  cbn [app clines_modes]. destruct (l_lex l); [|discriminate]. cbn [lexemes_modes json_depth andb].
  apply IH. exact Hfl.
Qed.

Lemma modes_filler_end : forall fl, filler_ok fl = true -> clines_modes 0 fl = true.
Proof. intros fl H. rewrite <- (app_nil_r fl). rewrite modes_filler by exact H. reflexivity. Qed.

Theorem render_modes : forall L p, layout_wf L = true -> names_ok p = true -> text_modes_ok (render L p) = true.
Proof.
  intros L p Hwf Hok. unfold text_modes_ok, render, render_lines. cbn [t_lines].
  pose proof (mf_program p Hok) as Hm. pose proof (good_program p) as Hg. unfold mforest, good_forest in *.
  unfold layout_wf in Hwf. apply andb_prop in Hwf. destruct Hwf as [Hb Ha].
  induction (flatten 0 (forest_of p)) as [|dl ds IH].
  - cbn [flat_map app]. apply modes_filler_end. exact Ha.
  - inversion Hm as [|? ? Hm1 Hm2]; subst. inversion Hg as [|? ? Hg1 Hg2]; subst.
    cbn [flat_map]. unfold render_line at 1. rewrite <- !app_assoc. rewrite modes_filler by exact Hb.
    cbn [app clines_modes l_lex]. unfold mline in Hm1. rewrite Hm1. cbn [andb].
    destruct Hg1 as [_ Hd]. rewrite Hd. apply IH; assumption.
Qed.

(* the round trip from characters, under character-level side conditions only *)
Theorem roundtrip_chars_style : C12_roundtrip_chars_style_statement.
Proof.
  intros intern sty L p Hwf Hnames Hne Hst.
  apply roundtrip_chars; try assumption.
  rewrite text_ok_split, (render_modes L p Hwf Hnames), Hst. reflexivity.
Qed.

Example example_text_style_ok :
  text_style_ok demo_intern (demo_style example_text) example_text = true.
Proof. vm_compute. reflexivity. Qed.
