(* Front/FrontEnd.v — the front end as a whole: text -> denter -> parser -> visitor checks
   (model support file: definitions only).  Mirrors utils/parsing_utils.py::parse_string
   up to (not including) the semantic checker. *)
From PFDL.Front Require Export Parser.

(* every call of the parser consumes fuel; its call depth is bounded by the number of tokens *)
Definition fuel_for (ts : toks) : nat := 4 + 2 * length ts.

Definition parse_tokens (ts : toks) : fres program :=
  parse_program impl_levels impl_not_level (fuel_for ts) ts.

Definition front_end (t : text) : fres program :=
  do p <- parse_tokens (denter t) ;;
  if visitor_errors p then FVisitor else FOk p.

(* the same front end with the precedence levels the property states *)
Definition front_end_standard (t : text) : fres program :=
  do p <- parse_program standard_levels impl_not_level (fuel_for (denter t)) (denter t) ;;
  if visitor_errors p then FVisitor else FOk p.
