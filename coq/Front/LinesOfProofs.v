(* Front/LinesOfProofs.v — line numbers of validator messages (Front/LinesOf.v):
   A. the rows of LinesOf are the logical lines of Render.forest_of;
   B. the rows of a nested statement lie within the rows of the enclosing statement, the row
      of a context of a statement within the statement's rows;
   C. physical lines of a text: ordered, within 1..nlines;
   D. hence: the line of a context under a statement lies within the statement's line span;
   E. the C19 theorems in lines. *)
From PFDL.Front Require Import CharLexer CharRender.
From Coq Require Import Ascii.
From PFDL.Front Require Import LinesOf ParserProofs RenderProofs DenterProofs RoundTrip LayoutProofs.
From PFDL.Check Require Import CheckProofsBase CheckProofsC10 CheckProofsC19 Witnesses.
From Coq Require Import Lia Sorted.
Import ListNotations.

(* ------------------------------------------------------------------------------------ *)
(* A. rows = logical lines of the forest                                                *)
(* ------------------------------------------------------------------------------------ *)
Lemma flatten_length_app : forall d a b, length (flatten d (a ++ b)) = length (flatten d a) + length (flatten d b).
Proof. intros. unfold flatten. rewrite flat_map_app, app_length. reflexivity. Qed.

Lemma flatten_length_node : forall d lex kids,
  length (flatten d [LNode lex kids]) = 1 + length (flatten (S d) kids).
Proof. intros. cbn [flatten flat_map]. rewrite app_nil_r, flatten_tree_node. reflexivity. Qed.

Lemma flatten_length_cons : forall d t f,
  length (flatten d (t :: f)) = length (flatten d [t]) + length (flatten d f).
Proof. intros. change (t :: f) with ([t] ++ f). apply flatten_length_app. Qed.

Lemma flatten_length_leaves : forall (A : Type) (g : A -> list tok) d l,
  length (flatten d (map (fun a => leaf (g a)) l)) = length l.
Proof.
  intros A g d l. induction l as [|a l IH]; [reflexivity|].
  cbn [map]. rewrite flatten_length_cons, IH. unfold leaf. rewrite flatten_length_node. reflexivity.
Qed.

Lemma rows_forest_param : forall d p, length (flatten d [forest_param p]) = rows_param p.
Proof.
  intros d [v|v pth|s j]; cbn [forest_param rows_param]; unfold leaf; rewrite !flatten_length_node; reflexivity.
Qed.

Lemma rows_forest_params : forall d ps, length (flatten d (map forest_param ps)) = rows_params ps.
Proof.
  intros d ps. induction ps as [|p ps IH]; [reflexivity|].
  cbn [map rows_params]. rewrite flatten_length_cons, rows_forest_param, IH. reflexivity.
Qed.

Lemma rows_forest_io : forall d ins outs, length (flatten d (forest_io ins outs)) = rows_ins ins + rows_block outs.
Proof.
  intros d ins outs. unfold forest_io. rewrite flatten_length_app. f_equal.
  - destruct ins as [|p ins]; [reflexivity|]. rewrite flatten_length_node, rows_forest_params. reflexivity.
  - destruct outs as [|o outs]; [reflexivity|]. rewrite flatten_length_node, flatten_length_leaves. reflexivity.
Qed.

Lemma rows_forest_call : forall d head ins outs,
  length (flatten d [forest_call head ins outs]) = rows_io ins outs.
Proof. intros. unfold forest_call, rows_io. rewrite flatten_length_node, rows_forest_io. lia. Qed.

Lemma rows_stmt_while : forall e body, rows_stmt (SWhile e body) = 1 + rows_stmts body.
Proof. reflexivity. Qed.
Lemma rows_stmt_count : forall par v lim body, rows_stmt (SCount par v lim body) = 1 + rows_stmts body.
Proof. reflexivity. Qed.
Lemma rows_stmt_cond : forall e a b,
  rows_stmt (SCond e a b) = 3 + rows_stmts a + match b with [] => 0 | _ => 1 + rows_stmts b end.
Proof. reflexivity. Qed.

Lemma rows_forest_stmts_of : forall d ss,
  Forall (fun s => forall d0, length (flatten d0 (forest_stmt s)) = rows_stmt s) ss ->
  length (flatten d (forest_stmts ss)) = rows_stmts ss.
Proof.
  intros d ss H. induction ss as [|s ss IH]; [reflexivity|].
  inversion H; subst. unfold forest_stmts. cbn [flat_map rows_stmts].
  rewrite flatten_length_app. rewrite H2. f_equal. apply IH. assumption.
Qed.

Lemma rows_forest_stmt : forall s d, length (flatten d (forest_stmt s)) = rows_stmt s.
Proof.
  induction s as [n ins outs|c|cs|e body IH|par v lim body IH|e a b IHa IHb] using stmt_ind'; intros d.
  - cbn [forest_stmt rows_stmt]. apply rows_forest_call.
  - cbn [forest_stmt rows_stmt]. apply rows_forest_call.
  - cbn [forest_stmt rows_stmt]. rewrite flatten_length_node. f_equal.
    induction cs as [|c cs IHcs]; [reflexivity|]. cbn [map rows_calls].
    rewrite flatten_length_cons, rows_forest_call, IHcs. reflexivity.
  - rewrite forest_while, rows_stmt_while, flatten_length_node. f_equal. apply rows_forest_stmts_of. exact IH.
  - rewrite forest_count, rows_stmt_count, flatten_length_node. f_equal. apply rows_forest_stmts_of. exact IH.
  - rewrite forest_cond, rows_stmt_cond. rewrite flatten_length_cons, flatten_length_node.
    unfold leaf at 1. rewrite flatten_length_node.
    rewrite flatten_length_cons, flatten_length_node, (rows_forest_stmts_of _ a IHa).
    destruct b as [|s1 b]; [cbn; lia|].
    rewrite flatten_length_node, (rows_forest_stmts_of _ (s1 :: b) IHb). cbn [flatten flat_map length]. lia.
Qed.

Lemma rows_forest_stmts : forall d ss, length (flatten d (forest_stmts ss)) = rows_stmts ss.
Proof. intros. apply rows_forest_stmts_of. apply Forall_forall. intros s _. apply rows_forest_stmt. Qed.

Lemma rows_forest_struct : forall s, length (flatten 0 (forest_struct s)) = rows_struct s.
Proof.
  intros s. unfold forest_struct, rows_struct. rewrite flatten_length_cons, flatten_length_node, flatten_length_leaves.
  unfold leaf. rewrite flatten_length_node. cbn. lia.
Qed.

Lemma rows_forest_task : forall t, length (flatten 0 (forest_task t)) = rows_task t.
Proof.
  intros t. unfold forest_task, rows_task. rewrite flatten_length_cons, flatten_length_node.
  rewrite !flatten_length_app, rows_forest_stmts.
  unfold leaf. rewrite flatten_length_node.
  assert (Hi : length (flatten 1 match t_ins t with
                                 | [] => []
                                 | _ :: _ => [LNode [KIn] (map (fun d => LNode (toks_vardef d) []) (t_ins t))]
                                 end) = rows_block (t_ins t)).
  { destruct (t_ins t) as [|i ins]; [reflexivity|]. rewrite flatten_length_node.
    change (fun d : name * vtype => LNode (toks_vardef d) []) with (fun d : name * vtype => leaf (toks_vardef d)).
    rewrite flatten_length_leaves. reflexivity. }
  assert (Ho : length (flatten 1 match t_outs t with
                                 | [] => []
                                 | _ :: _ => [LNode [KOut] (map (fun n => LNode [TLower n] []) (t_outs t))]
                                 end) = rows_block (t_outs t)).
  { destruct (t_outs t) as [|o outs]; [reflexivity|]. rewrite flatten_length_node.
    change (fun n : name => LNode [TLower n] []) with (fun n : name => leaf ((fun n => [TLower n]) n)).
    rewrite flatten_length_leaves. reflexivity. }
  unfold leaf in *. rewrite Hi, Ho. cbn [flatten flat_map length]. lia.
Qed.

Lemma rows_forest_structs : forall ss, length (flatten 0 (flat_map forest_struct ss)) = rows_structs ss.
Proof.
  induction ss as [|s ss IH]; [reflexivity|]. cbn [flat_map rows_structs].
  rewrite flatten_length_app, rows_forest_struct, IH. reflexivity.
Qed.

Lemma rows_forest_tasks : forall ts, length (flatten 0 (flat_map forest_task ts)) = rows_tasks ts.
Proof.
  induction ts as [|t ts IH]; [reflexivity|]. cbn [flat_map rows_tasks].
  rewrite flatten_length_app, rows_forest_task, IH. reflexivity.
Qed.

(* the rows of a program are the logical lines of its text *)
Theorem rows_program_flatten : forall p, length (flatten 0 (forest_of p)) = rows_program p.
Proof.
  intros p. unfold forest_of, rows_program. rewrite flatten_length_app, rows_forest_structs, rows_forest_tasks. reflexivity.
Qed.

(* ------------------------------------------------------------------------------------ *)
(* B. nesting of rows                                                                   *)
(* ------------------------------------------------------------------------------------ *)
Lemma locate_list_nil : forall i b rel, locate_list [] i b rel = None.
Proof. reflexivity. Qed.
Lemma locate_list_here : forall x r b rel, locate_list (x :: r) 0 b rel = locate_stmt x b rel.
Proof. reflexivity. Qed.
Lemma locate_list_next : forall x r i b rel,
  locate_list (x :: r) (S i) b rel = locate_list r i (b + rows_stmt x) rel.
Proof. reflexivity. Qed.

Lemma locate_stmt_nil : forall s b, locate_stmt s b [] = Some (b, NStmt s).
Proof. intros []; reflexivity. Qed.
Lemma locate_stmt_service : forall n ins outs b i rel, locate_stmt (SService n ins outs) b (i :: rel) = None.
Proof. reflexivity. Qed.
Lemma locate_stmt_call : forall c b i rel, locate_stmt (SCall c) b (i :: rel) = None.
Proof. reflexivity. Qed.
Lemma locate_stmt_parallel : forall cs b i rel,
  locate_stmt (SParallel cs) b (i :: rel) = match rel with [] => locate_call cs i (b + 1) | _ => None end.
Proof. reflexivity. Qed.
Lemma locate_stmt_while : forall e body b i rel,
  locate_stmt (SWhile e body) b (i :: rel) = locate_list body i (b + 1) rel.
Proof. reflexivity. Qed.
Lemma locate_stmt_count : forall par v lim body b i rel,
  locate_stmt (SCount par v lim body) b (i :: rel) = locate_list body i (b + 1) rel.
Proof. reflexivity. Qed.
Lemma locate_stmt_cond : forall e a f b i rel,
  locate_stmt (SCond e a f) b (i :: rel) =
  match rel with
  | [] => None
  | j :: rel'' =>
    match i with
    | 0 => locate_list a j (b + 3) rel''
    | 1 => locate_list f j (b + 3 + rows_stmts a + 1) rel''
    | _ => None
    end
  end.
Proof. intros. destruct rel as [|j rel'']; [reflexivity|]. destruct i as [|[|i]]; reflexivity. Qed.

Lemma rows_node_pos : forall n, 1 <= rows_node n.
Proof.
  intros [s|c]; cbn [rows_node]; [|unfold rows_call, rows_io; lia].
  destruct s; cbn [rows_stmt]; unfold rows_call, rows_io; lia.
Qed.

Lemma locate_call_bounds : forall cs j b r n,
  locate_call cs j b = Some (r, n) -> b <= r /\ r + rows_node n <= b + rows_calls cs.
Proof.
  induction cs as [|c cs IH]; intros j b r n H; [discriminate|]. cbn [locate_call rows_calls] in *.
  destruct j as [|j].
  - inversion H; subst. cbn [rows_node]. lia.
  - apply IH in H. lia.
Qed.

(* what a path finds lies within the statement it starts from *)
Definition bounds_ok (s : stmt) : Prop :=
  forall b rel r n, locate_stmt s b rel = Some (r, n) -> b <= r /\ r + rows_node n <= b + rows_stmt s.

Lemma locate_list_bounds : forall l, Forall bounds_ok l ->
  forall i b rel r n, locate_list l i b rel = Some (r, n) -> b <= r /\ r + rows_node n <= b + rows_stmts l.
Proof.
  induction l as [|x l IH]; intros HF i b rel r n H; [discriminate|].
  inversion HF as [|? ? Hx Hl]; subst. cbn [rows_stmts]. destruct i as [|i].
  - rewrite locate_list_here in H. apply Hx in H. lia.
  - rewrite locate_list_next in H. apply (IH Hl) in H. lia.
Qed.

Lemma locate_stmt_bounds : forall s, bounds_ok s.
Proof.
  induction s as [n0 ins outs|c|cs|e body IH|par v lim body IH|e a f IHa IHf] using stmt_ind';
    intros b rel r n H; destruct rel as [|i rel];
    try (rewrite locate_stmt_nil in H; inversion H; subst; cbn [rows_node]; lia).
  - discriminate.
  - discriminate.
  - rewrite locate_stmt_parallel in H. destruct rel; [|discriminate].
    apply locate_call_bounds in H. cbn [rows_stmt]. lia.
  - rewrite locate_stmt_while in H. apply (locate_list_bounds body IH) in H. rewrite rows_stmt_while. lia.
  - rewrite locate_stmt_count in H. apply (locate_list_bounds body IH) in H. rewrite rows_stmt_count. lia.
  - rewrite locate_stmt_cond in H. rewrite rows_stmt_cond. destruct rel as [|j rel'']; [discriminate|].
    destruct i as [|[|i]]; [| |discriminate].
    + apply (locate_list_bounds a IHa) in H. lia.
    + destruct f as [|f0 f']; [discriminate H|]. apply (locate_list_bounds _ IHf) in H. lia.
Qed.

(* a longer path finds something inside what the shorter path finds *)
Definition nest_ok (s : stmt) : Prop :=
  forall b rel1 rel2 r n r' n',
    locate_stmt s b rel1 = Some (r, n) -> locate_stmt s b (rel1 ++ rel2) = Some (r', n') ->
    r <= r' /\ r' + rows_node n' <= r + rows_node n.

Lemma locate_list_nest : forall l, Forall nest_ok l ->
  forall i b rel1 rel2 r n r' n',
    locate_list l i b rel1 = Some (r, n) -> locate_list l i b (rel1 ++ rel2) = Some (r', n') ->
    r <= r' /\ r' + rows_node n' <= r + rows_node n.
Proof.
  induction l as [|x l IH]; intros HF i b rel1 rel2 r n r' n' H1 H2; [discriminate|].
  inversion HF as [|? ? Hx Hl]; subst. destruct i as [|i].
  - rewrite locate_list_here in *. eapply Hx; eassumption.
  - rewrite locate_list_next in *. eapply (IH Hl); eassumption.
Qed.

Lemma locate_stmt_nest : forall s, nest_ok s.
Proof.
  induction s as [n0 ins outs|c|cs|e body IH|par v lim body IH|e a f IHa IHf] using stmt_ind';
    intros b rel1 rel2 r n r' n' H1 H2; destruct rel1 as [|i rel1];
    try (rewrite locate_stmt_nil in H1; inversion H1; subst; cbn [app] in H2;
         apply locate_stmt_bounds in H2; cbn [rows_node]; exact H2).
  - discriminate.
  - discriminate.
  - cbn [app] in H2. rewrite locate_stmt_parallel in *. destruct rel1; [|discriminate]. cbn [app] in H2.
    destruct rel2; [|discriminate]. rewrite H1 in H2. inversion H2; subst. lia.
  - cbn [app] in H2. rewrite locate_stmt_while in *. eapply (locate_list_nest body IH); eassumption.
  - cbn [app] in H2. rewrite locate_stmt_count in *. eapply (locate_list_nest body IH); eassumption.
  - cbn [app] in H2. rewrite locate_stmt_cond in *. destruct rel1 as [|j rel1]; [discriminate|]. cbn [app] in H2.
    destruct i as [|[|i]]; [| |discriminate].
    + eapply (locate_list_nest a IHa); eassumption.
    + eapply (locate_list_nest f IHf); eassumption.
Qed.

Lemma locate_nest : forall p ti pi rel r n r' n',
  locate p ti pi = Some (r, n) -> locate p ti (pi ++ rel) = Some (r', n') ->
  r <= r' /\ r' + rows_node n' <= r + rows_node n.
Proof.
  intros p ti pi rel r n r' n' H1 H2. unfold locate in *.
  destruct (nth_error (p_tasks p) ti) as [t|]; [|discriminate].
  destruct pi as [|i rel0]; [discriminate|]. cbn [app] in H2.
  eapply (locate_list_nest (t_body t)); [|exact H1|exact H2].
  apply Forall_forall. intros s _. apply locate_stmt_nest.
Qed.

(* ---- the contexts of a node lie in its rows ---- *)
Lemma rows_params_split : forall ins k x, nth_error ins k = Some x ->
  rows_params ins = rows_params (firstn k ins) + rows_param x + rows_params (skipn (S k) ins).
Proof.
  induction ins as [|y ins IH]; intros k x H; [destruct k; discriminate|].
  destruct k as [|k].
  - inversion H; subst. cbn [firstn skipn rows_params]. lia.
  - cbn [nth_error] in H. cbn [firstn skipn rows_params]. rewrite (IH k x H). cbn [skipn]. lia.
Qed.

Lemma node_io_rows : forall n ins outs, node_io n = Some (ins, outs) -> rows_node n = rows_io ins outs.
Proof.
  intros [s|c] ins outs H; cbn [node_io rows_node] in *.
  - destruct s; try discriminate; inversion H; subst; reflexivity.
  - inversion H; subst. reflexivity.
Qed.

(* the row of a context of the node at path pi lies within the rows of that node *)
Lemma ctx_at_rows : forall p ti pi c k r n,
  ctx_at ti pi c -> ctx_row p c = Some k -> locate p ti pi = Some (r, n) ->
  r <= k /\ k <= r + rows_node n - 1.
Proof.
  intros p ti pi c k r n Hc Hk Hl. pose proof (rows_node_pos n) as Hpos.
  destruct Hc as [->|[->|[[j ->]|[[j ->]|[j ->]]]]]; cbn [ctx_row] in Hk; rewrite Hl in Hk.
  - inversion Hk; subst. lia.
  - destruct (node_io n) as [[ins outs]|] eqn:Hio; [|discriminate].
    destruct ins as [|i0 ins]; [discriminate|]. inversion Hk; subst.
    rewrite (node_io_rows _ _ _ Hio). unfold rows_io. cbn [rows_ins]. lia.
  - destruct (node_io n) as [[ins outs]|] eqn:Hio; [|discriminate].
    destruct (j <? length outs) eqn:Hj; [|discriminate]. apply Nat.ltb_lt in Hj. inversion Hk; subst.
    rewrite (node_io_rows _ _ _ Hio). unfold rows_io, rows_block. destruct outs; [cbn in Hj; lia|]. lia.
  - destruct (node_io n) as [[ins outs]|] eqn:Hio; [|discriminate].
    destruct (nth_error ins j) as [[| |s0 j0]|] eqn:Hn; try discriminate. inversion Hk; subst.
    rewrite (node_io_rows _ _ _ Hio). unfold rows_io, rows_ins.
    rewrite (rows_params_split _ _ _ Hn). cbn [rows_param]. destruct ins; [destruct j; discriminate|]. lia.
  - destruct (node_io n) as [[ins outs]|] eqn:Hio; [|discriminate].
    destruct (nth_error ins j) as [[| |s0 j0]|] eqn:Hn; try discriminate. inversion Hk; subst.
    rewrite (node_io_rows _ _ _ Hio). unfold rows_io, rows_ins.
    rewrite (rows_params_split _ _ _ Hn). cbn [rows_param]. destruct ins; [destruct j; discriminate|]. lia.
Qed.

(* a context with a row names a node *)
Lemma ctx_at_located : forall p ti pi c k,
  ctx_at ti pi c -> ctx_row p c = Some k -> exists r n, locate p ti pi = Some (r, n).
Proof.
  intros p ti pi c k Hc Hk.
  destruct Hc as [->|[->|[[j ->]|[[j ->]|[j ->]]]]]; cbn [ctx_row] in Hk;
    destruct (locate p ti pi) as [[r n]|]; try discriminate; eauto.
Qed.

(* rows: a context under the statement at pi lies in the rows of that statement *)
Theorem ctx_inside_stmt_row : forall p ti pi c k a b,
  ctx_under ti pi c -> ctx_row p c = Some k -> row_span p ti pi = Some (a, b) -> a <= k /\ k <= b.
Proof.
  intros p ti pi c k a b [rel Hc] Hk Hs. unfold row_span in Hs.
  destruct (locate p ti pi) as [[r n]|] eqn:Hl; [|discriminate]. inversion Hs; subst.
  destruct (ctx_at_located _ _ _ _ _ Hc Hk) as [r' [n' Hl']].
  destruct (locate_nest _ _ _ _ _ _ _ _ Hl Hl') as [H1 H2].
  destruct (ctx_at_rows _ _ _ _ _ _ _ Hc Hk Hl') as [H3 H4].
  pose proof (rows_node_pos n'). lia.
Qed.

(* ------------------------------------------------------------------------------------ *)
(* C. physical lines                                                                    *)
(* ------------------------------------------------------------------------------------ *)
Definition span_lt (a b : nat * nat) : Prop := snd a < fst b.

Definition lower (open : option (nat * nat)) (n : nat) : nat :=
  match open with Some (s, _) => s | None => n end.

(* the spans are well-formed, lie in the lines they are computed from, and are in order *)
Lemma lspans_ok : forall ls open n,
  (forall s d, open = Some (s, d) -> s < n) ->
  Forall (fun se => lower open n <= fst se /\ fst se <= snd se /\ snd se < n + length ls) (lspans open n ls)
  /\ StronglySorted span_lt (lspans open n ls).
Proof.
  induction ls as [|l r IH]; intros open n Hop.
  - cbn [lspans]. destruct open as [[s d]|]; [|split; constructor].
    pose proof (Hop s d eq_refl). split; constructor; try constructor; cbn [lower fst snd length]; lia.
  - cbn [lspans length].
    assert (Hnone : Forall (fun se => S n <= fst se /\ fst se <= snd se /\ snd se < S n + length r) (lspans None (S n) r)
                    /\ StronglySorted span_lt (lspans None (S n) r)).
    { apply (IH None (S n)). intros s d H. discriminate. }
    destruct Hnone as [Hn1 Hn2].
    assert (Hcons : forall s, s <= n -> lower open n <= s ->
              Forall (fun se => lower open n <= fst se /\ fst se <= snd se /\ snd se < n + S (length r))
                     ((s, n) :: lspans None (S n) r)
              /\ StronglySorted span_lt ((s, n) :: lspans None (S n) r)).
    { intros s Hs Hlo. split.
      - constructor; [cbn [fst snd]; lia|]. eapply Forall_impl; [|exact Hn1]. intros [a b] H. cbn [fst snd] in *. lia.
      - constructor; [exact Hn2|]. eapply Forall_impl; [|exact Hn1]. intros [a b] H. unfold span_lt. cbn [fst snd] in *. lia. }
    assert (Hopen : forall s d', s <= n -> lower open n <= s ->
              Forall (fun se => lower open n <= fst se /\ fst se <= snd se /\ snd se < n + S (length r))
                     (lspans (Some (s, S d')) (S n) r)
              /\ StronglySorted span_lt (lspans (Some (s, S d')) (S n) r)).
    { intros s d' Hs Hlo. destruct (IH (Some (s, S d')) (S n)) as [H1 H2].
      - intros s0 d0 H. inversion H; subst. lia.
      - split; [|exact H2]. eapply Forall_impl; [|exact H1]. intros [a b] H. cbn [lower fst snd] in *. lia. }
    destruct open as [[s d]|].
    + pose proof (Hop s d eq_refl) as Hs. cbn [lower] in *.
      destruct (json_depth d (l_lex l)) as [|d']; [apply Hcons; lia|apply Hopen; lia].
    + cbn [lower] in *. destruct (l_lex l) as [|t0 lex] eqn:El.
      * split; [|exact Hn2]. eapply Forall_impl; [|exact Hn1]. intros [a b] H. cbn [fst snd] in *. lia.
      * destruct (json_depth 0 (t0 :: lex)) as [|d']; [apply Hcons; lia|apply Hopen; lia].
Qed.

Lemma phys_spans_ok : forall t,
  Forall (fun se => 1 <= fst se /\ fst se <= snd se /\ snd se <= nlines t) (phys_spans t)
  /\ StronglySorted span_lt (phys_spans t).
Proof.
  intros t. unfold phys_spans, nlines. destruct (lspans_ok (t_lines t) None 1) as [H1 H2]; [intros; discriminate|].
  split; [|exact H2]. eapply Forall_impl; [|exact H1]. intros [a b] H. cbn [lower fst snd] in *. lia.
Qed.

Lemma sorted_nth : forall (l : list (nat * nat)) i j a b,
  StronglySorted span_lt l -> i < j -> nth_error l i = Some a -> nth_error l j = Some b -> snd a < fst b.
Proof.
  induction l as [|x l IH]; intros i j a b Hs Hij Ha Hb; [destruct i; discriminate|].
  inversion Hs as [|? ? Hs' Hall]; subst. destruct j as [|j]; [lia|]. cbn [nth_error] in Hb.
  destruct i as [|i].
  - cbn [nth_error] in Ha. inversion Ha; subst. rewrite Forall_forall in Hall. apply Hall. eapply nth_error_In. exact Hb.
  - cbn [nth_error] in Ha. eapply (IH i j); try eassumption. lia.
Qed.

(* rows in order have lines in order *)
Lemma rows_monotone : forall t k k' s e s' e',
  k <= k' -> nth_error (phys_spans t) k = Some (s, e) -> nth_error (phys_spans t) k' = Some (s', e') ->
  s <= s' /\ e <= e' /\ s <= e' /\ (k < k' -> e < s').
Proof.
  intros t k k' s e s' e' Hk H1 H2. destruct (phys_spans_ok t) as [Hw Hs].
  assert (W1 : s <= e). { rewrite Forall_forall in Hw. apply (Hw (s, e)). eapply nth_error_In. exact H1. }
  assert (W2 : s' <= e'). { rewrite Forall_forall in Hw. apply (Hw (s', e')). eapply nth_error_In. exact H2. }
  destruct (Nat.eq_dec k k') as [->|Hne].
  - rewrite H1 in H2. inversion H2; subst. lia.
  - assert (Hlt : k < k') by lia. pose proof (sorted_nth _ _ _ _ _ Hs Hlt H1 H2) as H. cbn [fst snd] in H. lia.
Qed.

(* (b) every line number lies in the file *)
Theorem row_line_in_file : forall t k n, row_first t k = Some n -> 1 <= n /\ n <= nlines t.
Proof.
  intros t k n H. unfold row_first in H. destruct (nth_error (phys_spans t) k) as [[s e]|] eqn:E; [|discriminate].
  inversion H; subst. destruct (phys_spans_ok t) as [Hw _]. rewrite Forall_forall in Hw.
  specialize (Hw (n, e) (nth_error_In _ _ E)). cbn [fst snd] in Hw. lia.
Qed.

Theorem ctx_line_in_file : forall t p c n,
  ctx_line t p c = Some n -> c <> CNone -> 1 <= n /\ (c <> CFile -> n <= nlines t).
Proof.
  intros t p c n H Hc. destruct c; try contradiction.
  1: { cbn [ctx_line] in H. inversion H; subst. split; [lia|intros X; contradiction]. }
  all: cbn [ctx_line] in H;
    match type of H with match ?x with _ => _ end = _ => destruct x as [kk|]; [|discriminate] end;
    apply row_line_in_file in H; (split; [lia|intros _; lia]).
Qed.

(* ------------------------------------------------------------------------------------ *)
(* D. lines of contexts within the lines of statements                                  *)
(* ------------------------------------------------------------------------------------ *)
(* (a) for EVERY text t: if the message context c lies under the statement at path pi, its
   line lies between the first and the last line of that statement *)
Theorem ctx_inside_stmt_line : forall t p ti pi c n x y,
  ctx_under ti pi c -> ctx_line t p c = Some n -> line_span t p ti pi = Some (x, y) -> x <= n /\ n <= y.
Proof.
  intros t p ti pi c n x y Hu Hn Hs.
  assert (Hrow : exists k, ctx_row p c = Some k /\ row_first t k = Some n).
  { destruct Hu as [rel Hc]. destruct Hc as [->|[->|[[j ->]|[[j ->]|[j ->]]]]]; cbn [ctx_line] in Hn;
      match type of Hn with match ?x with _ => _ end = _ => destruct x as [kk|] eqn:E; [|discriminate] end;
      exists kk; (split; [reflexivity|exact Hn]). }
  destruct Hrow as [k [Hk Hf]]. unfold line_span in Hs.
  destruct (row_span p ti pi) as [[a b]|] eqn:Hsp; [|discriminate].
  destruct (ctx_inside_stmt_row _ _ _ _ _ _ _ Hu Hk Hsp) as [Hak Hkb].
  unfold row_first, row_last in *.
  destruct (nth_error (phys_spans t) a) as [[sa ea]|] eqn:Ea; [|discriminate].
  destruct (nth_error (phys_spans t) b) as [[sb eb]|] eqn:Eb; [|discriminate].
  destruct (nth_error (phys_spans t) k) as [[sk ek]|] eqn:Ek; [|discriminate].
  cbn [option_map fst snd] in *. inversion Hs; subst. inversion Hf; subst.
  pose proof (rows_monotone _ _ _ _ _ _ _ Hak Ea Ek). pose proof (rows_monotone _ _ _ _ _ _ _ Hkb Ek Eb). lia.
Qed.

(* ---- texts with the structure of the program: one span per row ---- *)
Definition sig_line (l : line) : bool := match l_lex l with [] => false | _ => true end.
Definition count_sig (ls : list line) : nat := length (filter sig_line ls).

Lemma depths_length : forall ls st ds, depths st ls = Some ds -> length ds = count_sig ls.
Proof.
  induction ls as [|l r IH]; intros st ds H; [inversion H; reflexivity|].
  cbn [depths] in H. unfold count_sig. cbn [filter]. unfold sig_line at 1.
  destruct (l_lex l) as [|t0 lex]; [apply (IH st); exact H|].
  destruct st as [|top st']; [discriminate|].
  destruct (if top <? l_indent l then Some (l_indent l :: top :: st') else pop_to (l_indent l) (top :: st')) as [st2|];
    [|discriminate].
  destruct (depths st2 r) as [ds'|] eqn:E; [|discriminate]. inversion H; subst. cbn [length]. f_equal.
  apply (IH st2). exact E.
Qed.

Lemma lspans_length_start : forall ls s s' d m,
  length (lspans (Some (s, d)) m ls) = length (lspans (Some (s', d)) m ls).
Proof.
  induction ls as [|l r IH]; intros s s' d0 m0; [reflexivity|]. cbn [lspans].
  destruct (json_depth d0 (l_lex l)); [reflexivity|apply IH].
Qed.

Lemma lspans_length_n : forall ls open n n', length (lspans open n ls) = length (lspans open n' ls).
Proof.
  induction ls as [|l r IH]; intros open n n'.
  - destruct open as [[s d]|]; reflexivity.
  - cbn [lspans]. destruct open as [[s d]|].
    + destruct (json_depth d (l_lex l)); [cbn [length]; f_equal; apply IH|apply IH].
    + destruct (l_lex l) as [|t0 lex]; [apply IH|].
      destruct (json_depth 0 (t0 :: lex)) as [|d2]; [cbn [length]; f_equal; apply IH|].
      rewrite (lspans_length_start r n n' (S d2) (S n)). apply IH.
Qed.

Lemma count_sig_cons : forall x l, count_sig (x :: l) = (if sig_line x then 1 else 0) + count_sig l.
Proof. intros. unfold count_sig. cbn [filter]. destruct (sig_line x); reflexivity. Qed.

Lemma join_count : forall ls cur d n s,
  (d = 0 \/ l_lex cur <> []) ->
  count_sig (join (Some cur) d ls)
  = (match d with O => if sig_line cur then 1 else 0 | S _ => 0 end)
    + length (lspans (match d with O => None | S _ => Some (s, d) end) n ls).
Proof.
  induction ls as [|l r IH]; intros cur d n s Hd.
  - cbn [join lspans]. unfold count_sig. cbn [filter]. destruct d as [|d'].
    + destruct (sig_line cur); reflexivity.
    + destruct Hd as [Hd|Hd]; [discriminate|]. unfold sig_line. destruct (l_lex cur); [contradiction|reflexivity].
  - cbn [join]. destruct d as [|d'].
    + rewrite count_sig_cons.
      assert (Hl : json_depth 0 (l_lex l) = 0 \/ l_lex l <> []).
      { destruct (l_lex l); [left; reflexivity|right; discriminate]. }
      rewrite (IH l (json_depth 0 (l_lex l)) (S n) n Hl).
      cbn [lspans]. unfold sig_line at 2. destruct (l_lex l) as [|t0 lex] eqn:El.
      * cbn [json_depth]. cbv iota. lia.
      * destruct (json_depth 0 (t0 :: lex)) as [|d2]; cbn [length]; lia.
    + set (cur' := {| l_indent := l_indent cur; l_lex := l_lex cur ++ l_lex l; l_comment := l_comment l;
                     l_trail := l_trail l; l_cr := l_cr l |}).
      assert (Hc : json_depth (S d') (l_lex l) = 0 \/ l_lex cur' <> []).
      { right. unfold cur'. cbn [l_lex]. destruct Hd as [Hd|Hd]; [discriminate|].
        destruct (l_lex cur); [contradiction|discriminate]. }
      rewrite (IH cur' (json_depth (S d') (l_lex l)) (S n) s Hc). cbn [lspans].
      destruct (json_depth (S d') (l_lex l)) as [|d2].
      * assert (Hs : sig_line cur' = true).
        { unfold sig_line, cur'. cbn [l_lex]. destruct Hd as [Hd|Hd]; [discriminate|].
          destruct (l_lex cur); [contradiction|reflexivity]. }
        rewrite Hs. cbn [length]. lia.
      * reflexivity.
Qed.

Lemma phys_spans_count : forall t, length (phys_spans t) = count_sig (logical_lines t).
Proof.
  intros [ls fnl]. unfold phys_spans, logical_lines. cbn [t_lines].
  destruct ls as [|l r]; [reflexivity|]. cbn [join].
  assert (Hl : json_depth 0 (l_lex l) = 0 \/ l_lex l <> []).
  { destruct (l_lex l); [left; reflexivity|right; discriminate]. }
  rewrite (join_count r l (json_depth 0 (l_lex l)) 2 1 Hl). cbn [lspans]. unfold sig_line.
  destruct (l_lex l) as [|t0 lex]; [reflexivity|].
  destruct (json_depth 0 (t0 :: lex)); cbn [length]; lia.
Qed.

(* a text with the structure of p has exactly one span per row of p *)
Theorem text_of_spans : forall t p, text_of t p -> length (phys_spans t) = rows_program p.
Proof.
  intros t p H. unfold text_of, canon in H.
  destruct (first_column (logical_lines t) =? 0); [|discriminate].
  apply depths_length in H. rewrite phys_spans_count, <- H. apply rows_program_flatten.
Qed.

Theorem render_text_of : forall L p, layout_wf L = true -> text_of (render L p) p.
Proof. intros L p H. unfold text_of. apply canon_render. exact H. Qed.

(* ---- every row of a context or of a statement is a row of the program ---- *)
Lemma rows_structs_nth : forall l i s, nth_error l i = Some s ->
  rows_structs (firstn i l) + rows_struct s <= rows_structs l.
Proof.
  induction l as [|x l IH]; intros i s H; [destruct i; discriminate|]. destruct i as [|i].
  - inversion H; subst. cbn [firstn rows_structs]. lia.
  - cbn [nth_error] in H. cbn [firstn rows_structs]. specialize (IH i s H). lia.
Qed.

Lemma rows_tasks_nth : forall l i t, nth_error l i = Some t ->
  rows_tasks (firstn i l) + rows_task t <= rows_tasks l.
Proof.
  induction l as [|x l IH]; intros i t H; [destruct i; discriminate|]. destruct i as [|i].
  - inversion H; subst. cbn [firstn rows_tasks]. lia.
  - cbn [nth_error] in H. cbn [firstn rows_tasks]. specialize (IH i t H). lia.
Qed.

Lemma locate_in_task : forall p ti pi r n t,
  nth_error (p_tasks p) ti = Some t -> locate p ti pi = Some (r, n) ->
  body_base p ti t <= r /\ r + rows_node n <= body_base p ti t + rows_stmts (t_body t).
Proof.
  intros p ti pi r n t Ht H. unfold locate in H. rewrite Ht in H. destruct pi as [|i rel]; [discriminate|].
  eapply locate_list_bounds; [|exact H]. apply Forall_forall. intros s _. apply locate_stmt_bounds.
Qed.

Lemma locate_lt_program : forall p ti pi r n, locate p ti pi = Some (r, n) -> r + rows_node n < rows_program p.
Proof.
  intros p ti pi r n H. pose proof H as H0. unfold locate in H0.
  destruct (nth_error (p_tasks p) ti) as [t|] eqn:Ht; [|discriminate]. clear H0.
  destruct (locate_in_task _ _ _ _ _ _ Ht H) as [_ Hb]. pose proof (rows_tasks_nth _ _ _ Ht) as Hn.
  unfold body_base, task_base, rows_program in *. unfold rows_task in Hn. lia.
Qed.

Theorem ctx_row_lt_program : forall p c k, ctx_row p c = Some k -> k < rows_program p.
Proof.
  intros p c k H. destruct c; cbn [ctx_row] in H; try discriminate.
  - destruct (nth_error (p_structs p) i) as [s|] eqn:E; [|discriminate]. inversion H; subst.
    pose proof (rows_structs_nth _ _ _ E). unfold struct_base, rows_program, rows_struct in *. lia.
  - destruct (nth_error (p_structs p) i) as [s|] eqn:E; [|discriminate].
    destruct (j <? length (s_attrs s)) eqn:Ej; [|discriminate]. apply Nat.ltb_lt in Ej. inversion H; subst.
    pose proof (rows_structs_nth _ _ _ E). unfold struct_base, rows_program, rows_struct in *. lia.
  - destruct (nth_error (p_tasks p) i) as [t|] eqn:E; [|discriminate]. inversion H; subst.
    pose proof (rows_tasks_nth _ _ _ E). unfold task_base, rows_program, rows_task in *. lia.
  - destruct (nth_error (p_tasks p) i) as [t|] eqn:E; [|discriminate].
    destruct (t_ins t) as [|i0 ins] eqn:Ei; [discriminate|]. inversion H; subst.
    pose proof (rows_tasks_nth _ _ _ E). unfold task_base, rows_program, rows_task in *. lia.
  - destruct (nth_error (p_tasks p) i) as [t|] eqn:E; [|discriminate].
    destruct (j <? length (t_ins t)) eqn:Ej; [|discriminate]. apply Nat.ltb_lt in Ej. inversion H; subst.
    pose proof (rows_tasks_nth _ _ _ E). unfold task_base, rows_program, rows_task, rows_block in *.
    destruct (t_ins t); [cbn in Ej; lia|]. cbn [length] in *. lia.
  - destruct (nth_error (p_tasks p) i) as [t|] eqn:E; [|discriminate].
    destruct (t_outs t) as [|o outs] eqn:Eo; [discriminate|]. inversion H; subst.
    pose proof (rows_tasks_nth _ _ _ E). unfold body_base, task_base, rows_program, rows_task in *.
    rewrite Eo in *. unfold rows_block at 2 in H0. lia.
  - destruct (locate p i pi) as [[r n]|] eqn:E; [|discriminate]. inversion H; subst.
    pose proof (locate_lt_program _ _ _ _ _ E). pose proof (rows_node_pos n). lia.
  - destruct (locate p i pi) as [[r n]|] eqn:E; [|discriminate].
    assert (Hc : ctx_at i pi (CStmtIn i pi)) by (right; left; reflexivity).
    destruct (ctx_at_rows p i pi _ k r n Hc) as [_ Hk]; [cbn [ctx_row]; rewrite E; exact H|exact E|].
    pose proof (locate_lt_program _ _ _ _ _ E). lia.
  - destruct (locate p i pi) as [[r n]|] eqn:E; [|discriminate].
    assert (Hc : ctx_at i pi (CStmtOutParam i pi j)) by (right; right; left; eauto).
    destruct (ctx_at_rows p i pi _ k r n Hc) as [_ Hk]; [cbn [ctx_row]; rewrite E; exact H|exact E|].
    pose proof (locate_lt_program _ _ _ _ _ E). lia.
  - destruct (locate p i pi) as [[r n]|] eqn:E; [|discriminate].
    assert (Hc : ctx_at i pi (CLit i pi k0)) by (right; right; right; left; eauto).
    destruct (ctx_at_rows p i pi _ k r n Hc) as [_ Hk]; [cbn [ctx_row]; rewrite E; exact H|exact E|].
    pose proof (locate_lt_program _ _ _ _ _ E). lia.
  - destruct (locate p i pi) as [[r n]|] eqn:E; [|discriminate].
    assert (Hc : ctx_at i pi (CLitJson i pi k0)) by (right; right; right; right; eauto).
    destruct (ctx_at_rows p i pi _ k r n Hc) as [_ Hk]; [cbn [ctx_row]; rewrite E; exact H|exact E|].
    pose proof (locate_lt_program _ _ _ _ _ E). lia.
Qed.

Lemma row_first_defined : forall t k, k < length (phys_spans t) -> exists n, row_first t k = Some n.
Proof.
  intros t k H. unfold row_first. destruct (nth_error (phys_spans t) k) as [[s e]|] eqn:E; [eexists; reflexivity|].
  apply nth_error_None in E. lia.
Qed.

Lemma row_last_defined : forall t k, k < length (phys_spans t) -> exists n, row_last t k = Some n.
Proof.
  intros t k H. unfold row_last. destruct (nth_error (phys_spans t) k) as [[s e]|] eqn:E; [eexists; reflexivity|].
  apply nth_error_None in E. lia.
Qed.

(* in a text with the structure of p every context that has a row has a line, every statement a span *)
Theorem ctx_line_defined : forall t p c k, text_of t p -> ctx_row p c = Some k -> exists n, ctx_line t p c = Some n.
Proof.
  intros t p c k Ht Hk. pose proof (ctx_row_lt_program _ _ _ Hk) as Hlt. rewrite <- (text_of_spans _ _ Ht) in Hlt.
  destruct (row_first_defined _ _ Hlt) as [n Hn]. exists n.
  destruct c; cbn [ctx_row] in Hk; try discriminate; cbn [ctx_line ctx_row]; rewrite Hk; exact Hn.
Qed.

Theorem line_span_defined : forall t p ti pi a b, text_of t p -> row_span p ti pi = Some (a, b) ->
  exists x y, line_span t p ti pi = Some (x, y).
Proof.
  intros t p ti pi a b Ht Hs. unfold line_span. rewrite Hs. unfold row_span in Hs.
  destruct (locate p ti pi) as [[r n]|] eqn:E; [|discriminate]. inversion Hs; subst.
  pose proof (locate_lt_program _ _ _ _ _ E) as Hlt. pose proof (rows_node_pos n).
  rewrite <- (text_of_spans _ _ Ht) in Hlt.
  destruct (row_first_defined t a) as [x Hx]; [lia|]. destruct (row_last_defined t (a + rows_node n - 1)) as [y Hy]; [lia|].
  rewrite Hx, Hy. eauto.
Qed.

(* ------------------------------------------------------------------------------------ *)
(* E. every message of the validator has a row                                          *)
(* ------------------------------------------------------------------------------------ *)
Definition rowed (p : program) (c : ctx) : Prop := ctx_row p c <> None.

Lemma errs_in_forall_from_idx : forall Q A (f : nat -> A -> chk) xs i,
  (forall j x, nth_error xs j = Some x -> errs_in Q (f (i + j) x)) -> errs_in Q (forall_from f i xs).
Proof.
  intros Q A f xs. induction xs as [|x r IH]; intros i H.
  - apply errs_in_ok_true.
  - rewrite forall_from_cons. apply errs_in_band.
    + specialize (H 0 x eq_refl). rewrite Nat.add_0_r in H. exact H.
    + apply IH. intros j y Hj. specialize (H (S j) y Hj). replace (S i + j) with (i + S j) by lia. exact H.
Qed.

Lemma locate_call_is_call : forall cs j b r n, locate_call cs j b = Some (r, n) -> exists c, n = NCall c.
Proof.
  induction cs as [|c cs IH]; intros j b r n H; [discriminate|]. cbn [locate_call] in H.
  destruct j; [inversion H; eauto|eapply IH; exact H].
Qed.

Lemma locate_stmt_app : forall s, forall b rel1 rel2 r s1,
  locate_stmt s b rel1 = Some (r, NStmt s1) -> locate_stmt s b (rel1 ++ rel2) = locate_stmt s1 r rel2.
Proof.
  assert (HL : forall l, Forall (fun s => forall b rel1 rel2 r s1,
                  locate_stmt s b rel1 = Some (r, NStmt s1) -> locate_stmt s b (rel1 ++ rel2) = locate_stmt s1 r rel2) l ->
               forall i b rel1 rel2 r s1, locate_list l i b rel1 = Some (r, NStmt s1) ->
                 locate_list l i b (rel1 ++ rel2) = locate_stmt s1 r rel2).
  { induction l as [|x l IH]; intros HF i b rel1 rel2 r s1 H; [discriminate|].
    inversion HF as [|? ? Hx Hl]; subst. destruct i as [|i].
    - rewrite locate_list_here in *. apply Hx. exact H.
    - rewrite locate_list_next in *. apply (IH Hl). exact H. }
  induction s as [n0 ins outs|c|cs|e body IH|par v lim body IH|e a f IHa IHf] using stmt_ind';
    intros b rel1 rel2 r s1 H; destruct rel1 as [|i rel1];
    try (rewrite locate_stmt_nil in H; inversion H; subst; reflexivity).
  - discriminate.
  - discriminate.
  - rewrite locate_stmt_parallel in H. destruct rel1; [|discriminate].
    destruct (locate_call_is_call _ _ _ _ _ H) as [c0 Hc0]. discriminate.
  - cbn [app]. rewrite locate_stmt_while in *. apply (HL body IH). exact H.
  - cbn [app]. rewrite locate_stmt_count in *. apply (HL body IH). exact H.
  - cbn [app]. rewrite locate_stmt_cond in *. destruct rel1 as [|j rel1]; [discriminate|]. cbn [app].
    destruct i as [|[|i]]; [| |discriminate].
    + apply (HL a IHa). exact H.
    + apply (HL f IHf). exact H.
Qed.

Lemma locate_app : forall p ti pi rel r s,
  locate p ti pi = Some (r, NStmt s) -> locate p ti (pi ++ rel) = locate_stmt s r rel.
Proof.
  intros p ti pi rel r s H. unfold locate in *. destruct (nth_error (p_tasks p) ti) as [t|]; [|discriminate].
  destruct pi as [|i rel0]; [discriminate|]. cbn [app].
  revert H. generalize (body_base p ti t). generalize i. induction (t_body t) as [|x l IH]; intros i0 b H; [discriminate|].
  destruct i0 as [|i0].
  - rewrite locate_list_here in *. apply locate_stmt_app. exact H.
  - rewrite locate_list_next in *. apply IH. exact H.
Qed.

Lemma locate_list_nth : forall l i b s, nth_error l i = Some s -> exists r, locate_list l i b [] = Some (r, NStmt s).
Proof.
  induction l as [|x l IH]; intros i b s H; [destruct i; discriminate|]. destruct i as [|i].
  - inversion H; subst. rewrite locate_list_here, locate_stmt_nil. eauto.
  - rewrite locate_list_next. apply IH. exact H.
Qed.

Lemma locate_call_nth : forall cs j b c, nth_error cs j = Some c -> exists r, locate_call cs j b = Some (r, NCall c).
Proof.
  induction cs as [|x cs IH]; intros j b c H; [destruct j; discriminate|]. destruct j as [|j].
  - inversion H; subst. cbn. eauto.
  - cbn [locate_call]. apply IH. exact H.
Qed.

Section Rowed.
  Variable E : env.
  Variable p : program.

  Lemma rowed_stmt : forall ti pi r n, locate p ti pi = Some (r, n) -> rowed p (CStmt ti pi).
  Proof. intros ti pi r n H. unfold rowed. cbn [ctx_row]. rewrite H. discriminate. Qed.

  Lemma rowed_call_parameters : forall T ti pi r n ins outs,
    locate p ti pi = Some (r, n) -> node_io n = Some (ins, outs) ->
    errs_in (rowed p) (check_call_parameters E T ti pi ins outs).
  Proof.
    intros T ti pi r n ins outs Hl Hio. unfold check_call_parameters. apply errs_in_band.
    - destruct ins as [|p0 r0] eqn:Ei; [ein|]. rewrite <- Ei in *. unfold check_call_inputs.
      apply errs_in_forall_from_idx. intros k x Hk. cbn [plus]. unfold check_input_param. destruct x as [v|v es|s j].
      + destruct (has_key v (td_vars T)); ein. eapply rowed_stmt. exact Hl.
      + apply ctx_check_attribute_access. unfold rowed. cbn [ctx_row]. rewrite Hl, Hio, Ei. discriminate.
      + apply ctx_check_literal; unfold rowed; cbn [ctx_row]; rewrite Hl, Hio, Hk; discriminate.
    - destruct (call_outs outs) eqn:Ho; [ein|]. unfold check_call_outputs. rewrite Ho.
      apply errs_in_forall_from. intros. apply ctx_check_vardef. eapply rowed_stmt. exact Hl.
  Qed.

  Lemma rowed_task_call : forall T ti pi r n c,
    locate p ti pi = Some (r, n) -> node_io n = Some (c_ins c, c_outs c) ->
    errs_in (rowed p) (check_task_call E T ti pi c).
  Proof.
    intros T ti pi r n c Hl Hio. pose proof (rowed_stmt _ _ _ _ Hl) as Hs. unfold check_task_call.
    destruct (has_key (c_name c) (e_tasks E)); [|ein; exact Hs].
    destruct (task_reaches E (length (e_tasks E)) (c_name c) (td_name T)); [ein; exact Hs|].
    apply errs_in_andthen; [eapply rowed_call_parameters; eassumption|].
    unfold check_call_matches. destruct (find_tdef E (c_name c)) as [called|]; [|ein].
    apply errs_in_andthen.
    - unfold check_length_match. ein; exact Hs.
    - apply errs_in_band; apply ctx_forall2; intros.
      + unfold check_input_matches. ein; exact Hs.
      + unfold check_output_matches. ein; exact Hs.
  Qed.

  (* every message printed while the statement s at path pi of task ti is checked has a row *)
  Lemma rowed_check_stmt : forall T s pi r,
    locate p (td_idx T) pi = Some (r, NStmt s) -> errs_in (rowed p) (check_stmt E T pi s).
  Proof.
    intros T s. induction s as [n0 ins outs|c|cs|e body IH|par v lim body IH|e a f IHa IHf] using stmt_ind';
      intros pi r Hl; pose proof (rowed_stmt _ _ _ _ Hl) as Hs; cbn [check_stmt].
    - eapply rowed_call_parameters; [exact Hl|reflexivity].
    - eapply rowed_task_call; [exact Hl|reflexivity].
    - apply errs_in_forall_from_idx. intros j c Hj. cbn [plus].
      destruct (locate_call_nth cs j (r + 1) c Hj) as [r' Hr'].
      apply (rowed_task_call T _ _ r' (NCall c)); [|reflexivity].
      rewrite (locate_app _ _ _ [j] _ _ Hl), locate_stmt_parallel. exact Hr'.
    - apply errs_in_band.
      + apply errs_in_forall_from_idx. intros j x Hj. cbn [plus]. rewrite Forall_forall in IH.
        destruct (locate_list_nth body j (r + 1) x Hj) as [r' Hr'].
        apply (IH x (nth_error_In _ _ Hj) _ r').
        rewrite (locate_app _ _ _ [j] _ _ Hl), locate_stmt_while. exact Hr'.
      + apply ctx_check_expression. exact Hs.
    - destruct par; (apply errs_in_band; [apply ctx_check_limit; exact Hs|]).
      + destruct body as [|s0 [|s1 r0]]; try (ein; exact Hs).
        destruct s0; try (ein; exact Hs).
        apply (rowed_task_call T _ _ (r + 1) (NStmt (SCall c))); [|reflexivity].
        rewrite (locate_app _ _ _ [0] _ _ Hl), locate_stmt_count, locate_list_here, locate_stmt_nil. reflexivity.
      + apply errs_in_forall_from_idx. intros j x Hj. cbn [plus]. rewrite Forall_forall in IH.
        destruct (locate_list_nth body j (r + 1) x Hj) as [r' Hr'].
        apply (IH x (nth_error_In _ _ Hj) _ r').
        rewrite (locate_app _ _ _ [j] _ _ Hl), locate_stmt_count. exact Hr'.
    - apply errs_in_band; [|apply errs_in_band].
      + apply errs_in_forall_from_idx. intros j x Hj. cbn [plus]. rewrite Forall_forall in IHa.
        destruct (locate_list_nth a j (r + 3) x Hj) as [r' Hr'].
        apply (IHa x (nth_error_In _ _ Hj) _ r').
        rewrite (locate_app _ _ _ [0; j] _ _ Hl), locate_stmt_cond. exact Hr'.
      + apply errs_in_forall_from_idx. intros j x Hj. cbn [plus]. rewrite Forall_forall in IHf.
        destruct (locate_list_nth f j (r + 3 + rows_stmts a + 1) x Hj) as [r' Hr'].
        apply (IHf x (nth_error_In _ _ Hj) _ r').
        rewrite (locate_app _ _ _ [1; j] _ _ Hl), locate_stmt_cond. exact Hr'.
      + apply ctx_check_expression. exact Hs.
  Qed.
End Rowed.

(* ---- the whole validator ---- *)
Lemma dedup_first_in : forall V (l : list (name * V)) seen x, In x (dedup_first seen l) -> In x l.
Proof.
  intros V l. induction l as [|[k v] r IH]; intros seen x H; [destruct H|]. cbn [dedup_first] in H.
  destruct (mem k seen); [right; eapply IH; exact H|].
  destruct H as [H|H]; [left; exact H|right; eapply IH; exact H].
Qed.

Lemma index_from_in : forall A (l : list A) k i x, In (i, x) (index_from k l) -> exists j, i = k + j /\ nth_error l j = Some x.
Proof.
  intros A l. induction l as [|y r IH]; intros k i x H; [destruct H|]. destruct H as [H|H].
  - inversion H; subst. exists 0. split; [lia|reflexivity].
  - destruct (IH _ _ _ H) as [j [Hi Hj]]. exists (S j). split; [lia|exact Hj].
Qed.

Lemma dup_positions_range : forall V (l : list (name * V)) seen k j,
  In j (dup_positions seen k l) -> k <= j /\ j < k + length l.
Proof.
  intros V l. induction l as [|[a v] r IH]; intros seen k j H; [destruct H|]. cbn [dup_positions length] in *.
  destruct (mem a seen).
  - destruct H as [H|H]; [subst; lia|]. apply IH in H. lia.
  - apply IH in H. lia.
Qed.

Lemma concat_from_in_idx : forall f l i e, In e (concat_from f i l) ->
  exists j x, nth_error l j = Some x /\ In e (f (i + j) x).
Proof.
  intros f l. induction l as [|y r IH]; intros i e H; [destruct H|].
  cbn [concat_from] in H. apply in_app_or in H. destruct H as [H|H].
  - exists 0, y. split; [reflexivity|]. rewrite Nat.add_0_r. exact H.
  - destruct (IH _ _ H) as (j & x & Hx & He). exists (S j), x. split; [exact Hx|].
    replace (i + S j) with (S i + j) by lia. exact He.
Qed.

Definition lined (p : program) (c : ctx) : Prop := c = CFile \/ rowed p c.

Section Whole.
  Variable p : program.

  Lemma task_of_env : forall nm T, In (nm, T) (e_tasks (visit_env p)) ->
    exists i t, nth_error (p_tasks p) i = Some t /\ T = visit_task i t.
  Proof.
    intros nm T H. unfold visit_env in H. cbn [e_tasks] in H. apply dedup_first_in in H.
    apply in_map_iff in H. destruct H as ([i t] & Heq & Hin). cbn [fst snd] in Heq. inversion Heq; subst.
    destruct (index_from_in _ _ _ _ _ Hin) as [j [Hi Hj]]. exists i, t. split; [|reflexivity].
    cbn in Hi. subst i. exact Hj.
  Qed.

  Lemma struct_of_env : forall nm sd, In (nm, sd) (e_structs (visit_env p)) ->
    exists i s, nth_error (p_structs p) i = Some s /\ sd = visit_struct i s.
  Proof.
    intros nm sd H. unfold visit_env in H. cbn [e_structs] in H. apply dedup_first_in in H.
    apply in_map_iff in H. destruct H as ([i s] & Heq & Hin). cbn [fst snd] in Heq. inversion Heq; subst.
    destruct (index_from_in _ _ _ _ _ Hin) as [j [Hi Hj]]. exists i, s. split; [|reflexivity].
    cbn in Hi. subst i. exact Hj.
  Qed.

  Lemma norm_defs_nonempty : forall l x seen, In x (dedup_first seen (norm_defs l)) -> l <> [].
  Proof. intros l x seen H E. subst l. destruct H. Qed.

  Lemma rowed_check_task : forall E i t, nth_error (p_tasks p) i = Some t ->
    errs_in (rowed p) (check_task E (visit_task i t)).
  Proof.
    intros E i t Ht. unfold check_task. apply errs_in_band; [|apply errs_in_band].
    - unfold check_statements. cbn [td_body visit_task]. apply errs_in_forall_from_idx. intros j s Hj. cbn [plus].
      destruct (locate_list_nth (t_body t) j (body_base p i t) s Hj) as [r Hr].
      apply (rowed_check_stmt E p (visit_task i t) s [j] r). cbn [td_idx visit_task].
      unfold locate. rewrite Ht. exact Hr.
    - unfold check_task_inputs. apply errs_in_forall_from. intros j x Hx. apply ctx_check_vardef.
      cbn [td_idx td_ins visit_task] in *. unfold rowed. cbn [ctx_row]. rewrite Ht.
      pose proof (norm_defs_nonempty _ _ _ Hx) as Hne. destruct (t_ins t); [contradiction|discriminate].
    - unfold check_task_outputs. apply errs_in_forall_from. intros j x Hx.
      destruct (has_key x (td_vars (visit_task i t))); ein.
      cbn [td_idx td_outs visit_task] in *. unfold rowed. cbn [ctx_row]. rewrite Ht.
      destruct (t_outs t); [destruct Hx|discriminate].
  Qed.

  Lemma lined_validate_process : errs_in (lined p) (validate_process (visit_env p)).
  Proof.
    unfold validate_process. apply errs_in_band.
    - unfold check_structs. apply errs_in_forall_from. intros j [nm sd] Hin. cbn [snd].
      destruct (struct_of_env _ _ Hin) as [i [s [Hs ->]]].
      unfold check_struct_def. apply errs_in_forall_from. intros. apply ctx_check_vardef.
      right. unfold rowed. cbn [sd_idx visit_struct ctx_row]. rewrite Hs. discriminate.
    - unfold check_tasks.
      assert (Ht : errs_in (lined p)
                (forall_from (fun (_ : nat) (kv : name * tdef) => check_task (visit_env p) (snd kv)) 0
                             (e_tasks (visit_env p)))).
      { apply errs_in_forall_from. intros j [nm T] Hin. cbn [snd].
        destruct (task_of_env _ _ Hin) as [i [t [Hi ->]]].
        eapply errs_in_weaken; [|apply rowed_check_task; exact Hi]. intros c Hc. right. exact Hc. }
      destruct (forall_from _ 0 (e_tasks (visit_env p))) as [[valid es]| |k|]; try (apply errs_in_not_ok; intros; discriminate).
      destruct (has_key production_task (e_tasks (visit_env p))); [exact Ht|].
      intros b es' H e He. inversion H; subst. apply in_app_or in He. destruct He as [He|[<-|[]]].
      + eapply Ht; [reflexivity|exact He].
      + left. reflexivity.
  Qed.

  (* ---- the messages printed while visiting ---- *)
  Lemma arraylen_errs_idx : forall (mk : nat -> ctx) l e,
    In e (arraylen_errs mk l) -> exists j, j < length l /\ snd e = mk j.
  Proof.
    intros mk l e He. unfold arraylen_errs in He. apply in_flat_map in He.
    destruct He as ([j [k t]] & Hin & He). cbn [fst snd] in He.
    destruct (index_from_in _ _ _ _ _ Hin) as [j' [Hj Hn]]. cbn in Hj. subst j'.
    destruct t as [p0|p0 [| |v]]; cbn in He; try contradiction. destruct He as [<-|[]].
    exists j. split; [|reflexivity]. apply nth_error_Some. rewrite Hn. discriminate.
  Qed.

  Lemma rowed_outs_visit : forall ti pi r n ins outs e,
    locate p ti pi = Some (r, n) -> node_io n = Some (ins, outs) ->
    In e (outs_visit_errs ti pi outs) -> rowed p (snd e).
  Proof.
    intros ti pi r n ins outs e Hl Hio He. unfold outs_visit_errs in He.
    assert (Hj : exists j, j < length outs /\ snd e = CStmtOutParam ti pi j).
    { apply in_app_or in He. destruct He as [He|He].
      - apply arraylen_errs_idx in He. exact He.
      - apply in_map_iff in He. destruct He as (j & <- & Hj). apply dup_positions_range in Hj.
        exists j. split; [lia|reflexivity]. }
    destruct Hj as [j [Hj ->]]. unfold rowed. cbn [ctx_row]. rewrite Hl, Hio.
    replace (j <? length outs) with true by (symmetry; apply Nat.ltb_lt; exact Hj). discriminate.
  Qed.

  Lemma rowed_lit_visit : forall ti pi r n ins outs e,
    locate p ti pi = Some (r, n) -> node_io n = Some (ins, outs) ->
    In e (lit_visit_errs ti pi ins) -> rowed p (snd e).
  Proof.
    intros ti pi r n ins outs e Hl Hio He. unfold lit_visit_errs in He. apply in_flat_map in He.
    destruct He as ([k x] & Hin & He). cbn [fst snd] in He.
    destruct (index_from_in _ _ _ _ _ Hin) as [k' [Hk Hn]]. cbn in Hk. subst k'.
    destruct x as [| |s j]; try destruct He. apply repeat_spec in He. subst e.
    unfold rowed. cbn [snd ctx_row]. rewrite Hl, Hio, Hn. discriminate.
  Qed.

  Lemma rowed_stmt_visit : forall ti s pi r e,
    locate p ti pi = Some (r, NStmt s) -> In e (stmt_visit_errs ti pi s) -> rowed p (snd e).
  Proof.
    intros ti s. induction s as [n0 ins outs|c|cs|e0 body IH|par v lim body IH|e0 a f IHa IHf] using stmt_ind';
      intros pi r e Hl He; rewrite stmt_visit_errs_unfold in He.
    - apply in_app_or in He. destruct He as [He|He];
        [eapply rowed_lit_visit | eapply rowed_outs_visit]; try exact He; try exact Hl; reflexivity.
    - apply in_app_or in He. destruct He as [He|He];
        [eapply rowed_lit_visit | eapply rowed_outs_visit]; try exact He; try exact Hl; reflexivity.
    - apply in_flat_map in He. destruct He as ([j c] & Hin & He). cbn [fst snd] in He.
      destruct (index_from_in _ _ _ _ _ Hin) as [j' [Hj Hn]]. cbn in Hj. subst j'.
      destruct (locate_call_nth cs j (r + 1) c Hn) as [r' Hr'].
      assert (Hl' : locate p ti (pi ++ [j]) = Some (r', NCall c)).
      { rewrite (locate_app _ _ _ [j] _ _ Hl), locate_stmt_parallel. exact Hr'. }
      apply in_app_or in He. destruct He as [He|He];
        [eapply rowed_lit_visit | eapply rowed_outs_visit]; try exact He; try exact Hl'; reflexivity.
    - destruct (concat_from_in_idx _ _ _ _ He) as (j & x & Hx & Hex). cbn [plus] in Hex.
      rewrite Forall_forall in IH. destruct (locate_list_nth body j (r + 1) x Hx) as [r' Hr'].
      eapply (IH x (nth_error_In _ _ Hx)); [|exact Hex].
      rewrite (locate_app _ _ _ [j] _ _ Hl), locate_stmt_while. exact Hr'.
    - destruct (concat_from_in_idx _ _ _ _ He) as (j & x & Hx & Hex). cbn [plus] in Hex.
      rewrite Forall_forall in IH. destruct (locate_list_nth body j (r + 1) x Hx) as [r' Hr'].
      eapply (IH x (nth_error_In _ _ Hx)); [|exact Hex].
      rewrite (locate_app _ _ _ [j] _ _ Hl), locate_stmt_count. exact Hr'.
    - apply in_app_or in He. destruct He as [He|He].
      + destruct (concat_from_in_idx _ _ _ _ He) as (j & x & Hx & Hex). cbn [plus] in Hex.
        rewrite Forall_forall in IHa. destruct (locate_list_nth a j (r + 3) x Hx) as [r' Hr'].
        eapply (IHa x (nth_error_In _ _ Hx)); [|exact Hex].
        rewrite (locate_app _ _ _ [0; j] _ _ Hl), locate_stmt_cond. exact Hr'.
      + destruct (concat_from_in_idx _ _ _ _ He) as (j & x & Hx & Hex). cbn [plus] in Hex.
        rewrite Forall_forall in IHf. destruct (locate_list_nth f j (r + 3 + rows_stmts a + 1) x Hx) as [r' Hr'].
        eapply (IHf x (nth_error_In _ _ Hx)); [|exact Hex].
        rewrite (locate_app _ _ _ [1; j] _ _ Hl), locate_stmt_cond. exact Hr'.
  Qed.

  Lemma rowed_visit_errs : forall e, In e (visit_errs p) -> rowed p (snd e).
  Proof.
    intros e He. unfold visit_errs in He.
    apply in_app_or in He. destruct He as [He|He].
    { apply in_flat_map in He. destruct He as ([i s] & Hin & He). cbn [fst snd] in He.
      destruct (index_from_in _ _ _ _ _ Hin) as [i' [Hi Hn]]. cbn in Hi. subst i'.
      unfold struct_visit_errs in He.
      assert (Hj : exists j, j < length (s_attrs s) /\ snd e = CStructAttr i j).
      { apply in_app_or in He. destruct He as [He|He].
        - apply arraylen_errs_idx in He. exact He.
        - apply in_map_iff in He. destruct He as (j & <- & Hj). apply dup_positions_range in Hj.
          exists j. split; [lia|reflexivity]. }
      destruct Hj as [j [Hj ->]]. unfold rowed. cbn [ctx_row]. rewrite Hn.
      replace (j <? length (s_attrs s)) with true by (symmetry; apply Nat.ltb_lt; exact Hj). discriminate. }
    apply in_app_or in He. destruct He as [He|He].
    { apply in_map_iff in He. destruct He as (j & <- & Hj). apply dup_positions_range in Hj. rewrite map_length in Hj.
      unfold rowed. cbn [snd ctx_row]. destruct (nth_error (p_structs p) j) eqn:E; [discriminate|].
      apply nth_error_None in E. lia. }
    apply in_app_or in He. destruct He as [He|He].
    2:{ apply in_map_iff in He. destruct He as (j & <- & Hj). apply dup_positions_range in Hj. rewrite map_length in Hj.
        unfold rowed. cbn [snd ctx_row]. destruct (nth_error (p_tasks p) j) eqn:E; [discriminate|].
        apply nth_error_None in E. lia. }
    apply in_flat_map in He. destruct He as ([i t] & Hin & He). cbn [fst snd] in He.
    destruct (index_from_in _ _ _ _ _ Hin) as [i' [Hi Hn]]. cbn in Hi. subst i'.
    unfold task_visit_errs in He.
    assert (Hin_param : forall j, j < length (t_ins t) -> rowed p (CTaskInParam i j)).
    { intros j Hj. unfold rowed. cbn [ctx_row]. rewrite Hn.
      replace (j <? length (t_ins t)) with true by (symmetry; apply Nat.ltb_lt; exact Hj). discriminate. }
    apply in_app_or in He. destruct He as [He|He].
    { apply arraylen_errs_idx in He. destruct He as [j [Hj ->]]. apply Hin_param. exact Hj. }
    apply in_app_or in He. destruct He as [He|He].
    { apply in_map_iff in He. destruct He as (j & <- & Hj). apply dup_positions_range in Hj. apply Hin_param. lia. }
    rewrite body_visit_errs_concat in He.
    destruct (concat_from_in_idx _ _ _ _ He) as (j & x & Hx & Hex). cbn [plus] in Hex.
    destruct (locate_list_nth (t_body t) j (body_base p i t) x Hx) as [r Hr].
    eapply rowed_stmt_visit; [|exact Hex]. unfold locate. rewrite Hn. exact Hr.
  Qed.

  (* every message of every program is about the file as a whole or has a row *)
  Theorem every_message_lined : forall es e, validate p = Ok es -> In e es -> lined p (snd e).
  Proof.
    intros es e Hv He. unfold validate in Hv.
    destruct (validate_process (visit_env p)) as [[b es0]| |k|] eqn:Hp; try discriminate.
    injection Hv as <-. apply in_app_or in He. destruct He as [He|He].
    - right. apply rowed_visit_errs. exact He.
    - eapply lined_validate_process; eassumption.
  Qed.
End Whole.

(* ------------------------------------------------------------------------------------ *)
(* F. C19 in lines                                                                      *)
(* ------------------------------------------------------------------------------------ *)
(* every text: the line of every message printed while the statement at pi is checked lies in
   the line span of that statement *)
Theorem lines_point_into_statement : forall E T s pi b es e t p n x y,
  check_stmt E T pi s = Ok (b, es) -> In e es ->
  ctx_line t p (snd e) = Some n -> line_span t p (td_idx T) pi = Some (x, y) -> x <= n /\ n <= y.
Proof.
  intros E T s pi b es e t p n x y Hc He Hn Hs.
  eapply ctx_inside_stmt_line; [|exact Hn|exact Hs]. eapply stmt_messages_point_into_statement; eassumption.
Qed.

Lemma line_span_in_file : forall t p ti pi x y, line_span t p ti pi = Some (x, y) -> 1 <= x /\ x <= y /\ y <= nlines t.
Proof.
  intros t p ti pi x y H. unfold line_span in H. destruct (row_span p ti pi) as [[a b]|] eqn:Hs; [|discriminate].
  unfold row_first, row_last in H.
  destruct (nth_error (phys_spans t) a) as [[sa ea]|] eqn:Ea; [|discriminate].
  destruct (nth_error (phys_spans t) b) as [[sb eb]|] eqn:Eb; [|discriminate].
  cbn [option_map fst snd] in H. inversion H; subst.
  destruct (phys_spans_ok t) as [Hw _]. rewrite Forall_forall in Hw.
  pose proof (Hw _ (nth_error_In _ _ Ea)) as Wa. pose proof (Hw _ (nth_error_In _ _ Eb)) as Wb. cbn [fst snd] in *.
  assert (Hab : a <= b).
  { unfold row_span in Hs. destruct (locate p ti pi) as [[r n]|]; [|discriminate]. inversion Hs; subst.
    pose proof (rows_node_pos n). lia. }
  pose proof (rows_monotone _ _ _ _ _ _ _ Hab Ea Eb). lia.
Qed.

(* for the statement s of p at path pi and a text with the structure of p, everything is defined *)
Theorem lines_point_into_statement_of : forall E T s pi b es e t p r,
  locate p (td_idx T) pi = Some (r, NStmt s) -> text_of t p ->
  check_stmt E T pi s = Ok (b, es) -> In e es ->
  exists n x y, ctx_line t p (snd e) = Some n /\ line_span t p (td_idx T) pi = Some (x, y)
                /\ 1 <= x /\ x <= n /\ n <= y /\ y <= nlines t.
Proof.
  intros E T s pi b es e t p r Hl Ht Hc He.
  pose proof (rowed_check_stmt E p T s pi r Hl b es Hc e He) as Hr. unfold rowed in Hr.
  destruct (ctx_row p (snd e)) as [k|] eqn:Hk; [|contradiction].
  destruct (ctx_line_defined t p _ k Ht Hk) as [n Hn].
  assert (Hsp : row_span p (td_idx T) pi = Some (r, r + rows_stmt s - 1)) by (unfold row_span; rewrite Hl; reflexivity).
  destruct (line_span_defined t p _ _ _ _ Ht Hsp) as [x [y Hxy]].
  destruct (lines_point_into_statement E T s pi b es e t p n x y Hc He Hn Hxy).
  destruct (line_span_in_file _ _ _ _ _ _ Hxy) as [H1 [H2 H3]].
  exists n, x, y. repeat split; assumption || lia.
Qed.

Lemma locate_list_rel : forall l i b s1 r1 rel,
  locate_list l i b [] = Some (r1, NStmt s1) -> locate_list l i b rel = locate_stmt s1 r1 rel.
Proof.
  induction l as [|x l IH]; intros i b s1 r1 rel H; [discriminate|]. destruct i as [|i].
  - rewrite locate_list_here in *. rewrite locate_stmt_nil in H. inversion H; subst. reflexivity.
  - rewrite locate_list_next in *. apply IH. exact H.
Qed.

Lemma visible_sub_locate : forall s rel s', visible_sub s rel s' ->
  forall r, exists r', locate_stmt s r rel = Some (r', NStmt s').
Proof.
  intros s rel s' Hv. induction Hv; intros r.
  - rewrite locate_stmt_nil. eauto.
  - rewrite locate_stmt_while. destruct (locate_list_nth body i (r + 1) s1 H) as [r1 Hr1].
    rewrite (locate_list_rel _ _ _ _ _ rel Hr1). apply IHHv.
  - rewrite locate_stmt_count. destruct (locate_list_nth body i (r + 1) s1 H) as [r1 Hr1].
    rewrite (locate_list_rel _ _ _ _ _ rel Hr1). apply IHHv.
  - rewrite locate_stmt_count, locate_list_here, locate_stmt_nil. eauto.
  - rewrite locate_stmt_cond. destruct (locate_list_nth p i (r + 3) s1 H) as [r1 Hr1].
    rewrite (locate_list_rel _ _ _ _ _ rel Hr1). apply IHHv.
  - rewrite locate_stmt_cond. destruct (locate_list_nth f i (r + 3 + rows_stmts p + 1) s1 H) as [r1 Hr1].
    rewrite (locate_list_rel _ _ _ _ _ rel Hr1). apply IHHv.
Qed.

(* C19 for statements, in lines: a statement s' anywhere the validator looks inside s that is
   found invalid is reported with a message whose line lies within the lines of s' itself *)
Theorem fault_located_lines : forall E T s rel s' pi b es t p r,
  locate p (td_idx T) pi = Some (r, NStmt s) -> text_of t p ->
  visible_sub s rel s' ->
  check_stmt E T pi s = Ok (b, es) ->
  (forall b' es', check_stmt E T (pi ++ rel) s' = Ok (b', es') -> b' = false) ->
  exists e n x y, In e es /\ ctx_line t p (snd e) = Some n
                  /\ line_span t p (td_idx T) (pi ++ rel) = Some (x, y)
                  /\ 1 <= x /\ x <= n /\ n <= y /\ y <= nlines t.
Proof.
  intros E T s rel s' pi b es t p r Hl Ht Hv Hc Hbad.
  destruct (fault_located E T s rel s' pi b es Hv Hc Hbad) as [e [He Hu]].
  destruct (lines_point_into_statement_of E T s pi b es e t p r Hl Ht Hc He) as (n & _ & _ & Hn & _).
  destruct (visible_sub_locate _ _ _ Hv r) as [r' Hr'].
  assert (Hl' : locate p (td_idx T) (pi ++ rel) = Some (r', NStmt s')) by (rewrite (locate_app _ _ _ rel _ _ Hl); exact Hr').
  assert (Hsp : row_span p (td_idx T) (pi ++ rel) = Some (r', r' + rows_stmt s' - 1)) by (unfold row_span; rewrite Hl'; reflexivity).
  destruct (line_span_defined t p _ _ _ _ Ht Hsp) as [x [y Hxy]].
  destruct (ctx_inside_stmt_line t p _ _ _ n x y Hu Hn Hxy).
  destruct (line_span_in_file _ _ _ _ _ _ Hxy) as [H1 [H2 H3]].
  exists e, n, x, y. repeat split; assumption || lia.
Qed.

(* ---- tasks and structs ---- *)
Theorem ctx_inside_task_line : forall t p ti c n x y,
  ctx_in_task ti c -> ctx_line t p c = Some n -> task_line_span t p ti = Some (x, y) -> x <= n /\ n <= y.
Proof.
  intros t p ti c n x y Hc Hn Hs. unfold task_line_span in Hs.
  destruct (nth_error (p_tasks p) ti) as [tk|] eqn:Ht; [|discriminate].
  assert (Hrow : exists k, ctx_row p c = Some k /\ row_first t k = Some n
                           /\ task_base p ti <= k /\ k <= task_base p ti + rows_task tk - 1).
  { destruct Hc as [[pi [rel Hc]]|[->| ->]].
    - assert (Hk : exists k, ctx_row p c = Some k /\ row_first t k = Some n).
      { destruct Hc as [->|[->|[[j ->]|[[j ->]|[j ->]]]]]; cbn [ctx_line] in Hn;
          match type of Hn with match ?x with _ => _ end = _ => destruct x as [kk|] eqn:E; [|discriminate] end;
          exists kk; (split; [reflexivity|exact Hn]). }
      destruct Hk as [k [Hk Hf]]. exists k. split; [exact Hk|]. split; [exact Hf|].
      destruct (ctx_at_located _ _ _ _ _ Hc Hk) as [r' [n' Hl']].
      destruct (ctx_at_rows _ _ _ _ _ _ _ Hc Hk Hl') as [H3 H4].
      destruct (locate_in_task _ _ _ _ _ _ Ht Hl') as [H5 H6]. pose proof (rows_node_pos n').
      unfold body_base, rows_task in *. lia.
    - cbn [ctx_line ctx_row] in Hn. rewrite Ht in Hn. destruct (t_ins tk) as [|i0 ins] eqn:Ei; [discriminate|].
      exists (task_base p ti + 1). cbn [ctx_row]. rewrite Ht, Ei. split; [reflexivity|]. split; [exact Hn|].
      unfold rows_task. lia.
    - cbn [ctx_line ctx_row] in Hn. rewrite Ht in Hn. destruct (t_outs tk) as [|o outs] eqn:Eo; [discriminate|].
      exists (body_base p ti tk + rows_stmts (t_body tk)). cbn [ctx_row]. rewrite Ht, Eo. split; [reflexivity|].
      split; [exact Hn|]. unfold body_base, rows_task. rewrite Eo. set (bi := rows_block (t_ins tk)).
      unfold rows_block. cbn [length]. lia. }
  destruct Hrow as [k [Hk [Hf [Hlo Hhi]]]].
  unfold row_first, row_last in *.
  destruct (nth_error (phys_spans t) (task_base p ti)) as [[sa ea]|] eqn:Ea; [|discriminate].
  destruct (nth_error (phys_spans t) (task_base p ti + rows_task tk - 1)) as [[sb eb]|] eqn:Eb; [|discriminate].
  destruct (nth_error (phys_spans t) k) as [[sk ek]|] eqn:Ek; [|discriminate].
  cbn [option_map fst snd] in *. inversion Hs; subst. inversion Hf; subst.
  pose proof (rows_monotone _ _ _ _ _ _ _ Hlo Ea Ek). pose proof (rows_monotone _ _ _ _ _ _ _ Hhi Ek Eb). lia.
Qed.

Theorem task_lines_point_into_task : forall E T b es e t p n x y,
  check_task E T = Ok (b, es) -> In e es ->
  ctx_line t p (snd e) = Some n -> task_line_span t p (td_idx T) = Some (x, y) -> x <= n /\ n <= y.
Proof.
  intros E T b es e t p n x y Hc He Hn Hs.
  eapply ctx_inside_task_line; [|exact Hn|exact Hs]. eapply task_messages_point_into_task; eassumption.
Qed.

Theorem struct_ctx_inside_struct_line : forall t p i c n x y,
  (c = CStruct i \/ exists j, c = CStructAttr i j) ->
  ctx_line t p c = Some n -> struct_line_span t p i = Some (x, y) -> x <= n /\ n <= y.
Proof.
  intros t p i c n x y Hc Hn Hs. unfold struct_line_span in Hs.
  destruct (nth_error (p_structs p) i) as [s|] eqn:Hi; [|discriminate].
  assert (Hrow : exists k, row_first t k = Some n /\ struct_base p i <= k /\ k <= struct_base p i + rows_struct s - 1).
  { destruct Hc as [->|[j ->]]; cbn [ctx_line ctx_row] in Hn; rewrite Hi in Hn.
    - exists (struct_base p i). split; [exact Hn|]. unfold rows_struct. lia.
    - destruct (j <? length (s_attrs s)) eqn:Ej; [|discriminate]. apply Nat.ltb_lt in Ej.
      exists (struct_base p i + 1 + j). split; [exact Hn|]. unfold rows_struct. lia. }
  destruct Hrow as [k [Hf [Hlo Hhi]]]. unfold row_first, row_last in *.
  destruct (nth_error (phys_spans t) (struct_base p i)) as [[sa ea]|] eqn:Ea; [|discriminate].
  destruct (nth_error (phys_spans t) (struct_base p i + rows_struct s - 1)) as [[sb eb]|] eqn:Eb; [|discriminate].
  destruct (nth_error (phys_spans t) k) as [[sk ek]|] eqn:Ek; [|discriminate].
  cbn [option_map fst snd] in *. inversion Hs; subst. inversion Hf; subst.
  pose proof (rows_monotone _ _ _ _ _ _ _ Hlo Ea Ek). pose proof (rows_monotone _ _ _ _ _ _ _ Hhi Ek Eb). lia.
Qed.

(* (b) no reported line lies outside the file: every message of every program, in every text
   with the structure of the program, has a line, and it lies in 1..nlines (the message about
   the file as a whole is reported at line 1) *)
Theorem every_message_line : forall p t es e,
  validate p = Ok es -> In e es -> text_of t p ->
  exists n, ctx_line t p (snd e) = Some n /\ 1 <= n /\ (snd e = CFile -> n = 1) /\ (snd e <> CFile -> n <= nlines t).
Proof.
  intros p t es e Hv He Ht. destruct (every_message_lined p es e Hv He) as [Hf|Hr].
  - rewrite Hf. exists 1. cbn [ctx_line]. repeat split; try lia. intros X. contradiction.
  - unfold rowed in Hr. destruct (ctx_row p (snd e)) as [k|] eqn:Hk; [|contradiction].
    destruct (ctx_line_defined t p _ k Ht Hk) as [n Hn]. exists n. split; [exact Hn|].
    assert (Hnn : snd e <> CNone) by (intros X; rewrite X in Hk; discriminate).
    destruct (ctx_line_in_file t p _ n Hn Hnn) as [H1 H2]. split; [exact H1|]. split; [|exact H2].
    intros X. rewrite X in Hk. discriminate.
Qed.

Theorem no_start_task_line_1 : forall p t es,
  has_fault_no_start_task p = true -> validate p = Ok es ->
  exists e, In e es /\ ctx_line t p (snd e) = Some 1.
Proof.
  intros p t es Hf Hv. exists (KNoStartTask, CFile). split; [|reflexivity].
  eapply no_start_task_reported_at_file; eassumption.
Qed.

(* ------------------------------------------------------------------------------------ *)
(* G. agreement with the character level                                                *)
(* ------------------------------------------------------------------------------------ *)

Lemma count_lf_app : forall a b, count_lf (a ++ b) = count_lf a + count_lf b.
Proof. intros. unfold count_lf. rewrite filter_app, app_length. reflexivity. Qed.

Lemma count_lf_free : forall cs, forallb not_lf cs = true -> count_lf cs = 0.
Proof.
  induction cs as [|c cs IH]; intros H; [reflexivity|]. cbn [forallb] in H. apply andb_prop in H. destruct H as [Hc Hr].
  unfold count_lf. cbn [filter]. unfold not_lf, in_class, cl_lf in Hc. cbn [existsb fst snd] in Hc.
  destruct (Ascii.eqb c ch_lf) eqn:E.
  - apply Ascii.eqb_eq in E. subst c. discriminate Hc.
  - apply IH. exact Hr.
Qed.

Lemma count_lf_eol : forall l, count_lf (eol l) = 1.
Proof. intros l. unfold eol. destruct (l_cr l); reflexivity. Qed.

(* the characters of the physical line number k + i + 1 are preceded by exactly i line feeds
   (counted from the beginning of line k + 1) and contain none *)
Lemma line_chars_from : forall sty fnl ls k i l,
  nth_error ls i = Some l -> lf_free_from sty k ls = true ->
  exists pre post, render_clines sty k ls fnl = pre ++ render_cline sty (k + i) l ++ post
                   /\ count_lf pre = i /\ count_lf (render_cline sty (k + i) l) = 0.
Proof.
  intros sty fnl ls. induction ls as [|l0 r IH]; intros k i l Hn Hf; [destruct i; discriminate|].
  cbn [lf_free_from] in Hf. apply andb_prop in Hf. destruct Hf as [H0 Hr].
  destruct i as [|i].
  - inversion Hn; subst. exists [], (match r with [] => if fnl then eol l else [] | _ :: _ => eol l ++ render_clines sty (S k) r fnl end).
    rewrite Nat.add_0_r. cbn [render_clines app]. split; [reflexivity|]. split; [reflexivity|apply count_lf_free; exact H0].
  - cbn [nth_error] in Hn. destruct r as [|l1 r']; [destruct i; discriminate|].
    destruct (IH (S k) i l Hn Hr) as (pre & post & Heq & Hc & Hz).
    exists (render_cline sty k l0 ++ eol l0 ++ pre), post.
    replace (k + S i) with (S k + i) by lia. split; [|split; [|exact Hz]].
    + cbn [render_clines]. cbn [render_clines] in Heq. rewrite Heq. rewrite <- !app_assoc. reflexivity.
    + rewrite !count_lf_app, (count_lf_free _ H0), count_lf_eol, Hc. reflexivity.
Qed.

(* (d) for a text printed with [render_chars]: physical line n (from 1) is line n as ANTLR counts *)
Theorem line_chars : forall sty t n l,
  lf_free sty t = true -> 1 <= n -> nth_error (t_lines t) (n - 1) = Some l ->
  exists pre post, render_chars sty t = pre ++ render_cline sty (n - 1) l ++ post
                   /\ 1 + count_lf pre = n /\ count_lf (render_cline sty (n - 1) l) = 0.
Proof.
  intros sty t n l Hf Hn Hl. unfold render_chars, lf_free in *.
  destruct (line_chars_from sty (t_final_nl t) (t_lines t) 0 (n - 1) l Hl Hf) as (pre & post & Heq & Hc & Hz).
  cbn [plus] in *. exists pre, post. split; [exact Heq|]. split; [lia|exact Hz].
Qed.

(* ... in particular the line the model computes for a context: the physical line on which the
   context's row begins is line [ctx_line] of the characters *)
Theorem ctx_line_chars : forall sty t p c k n,
  lf_free sty t = true -> ctx_row p c = Some k -> ctx_line t p c = Some n ->
  exists l pre post, nth_error (t_lines t) (n - 1) = Some l
                     /\ render_chars sty t = pre ++ render_cline sty (n - 1) l ++ post
                     /\ 1 + count_lf pre = n /\ count_lf (render_cline sty (n - 1) l) = 0.
Proof.
  intros sty t p c k n Hf Hk Hn.
  assert (Hr : row_first t k = Some n).
  { destruct c; cbn [ctx_row] in Hk; try discriminate; cbn [ctx_line ctx_row] in Hn; rewrite Hk in Hn; exact Hn. }
  destruct (row_line_in_file _ _ _ Hr) as [H1 H2]. unfold nlines in H2.
  destruct (nth_error (t_lines t) (n - 1)) as [l|] eqn:El; [|apply nth_error_None in El; lia].
  destruct (line_chars sty t n l Hf H1 El) as (pre & post & H). exists l, pre, post. split; [reflexivity|exact H].
Qed.

(* ------------------------------------------------------------------------------------ *)
(* H. the printer of Front/Render.v: every layout                                       *)
(* ------------------------------------------------------------------------------------ *)
Theorem fault_located_lines_L : forall L E T s rel s' pi b es p r,
  layout_wf L = true ->
  locate p (td_idx T) pi = Some (r, NStmt s) ->
  visible_sub s rel s' ->
  check_stmt E T pi s = Ok (b, es) ->
  (forall b' es', check_stmt E T (pi ++ rel) s' = Ok (b', es') -> b' = false) ->
  exists e n x y, In e es /\ ctx_line_L L p (snd e) = Some n
                  /\ line_span_L L p (td_idx T) (pi ++ rel) = Some (x, y)
                  /\ 1 <= x /\ x <= n /\ n <= y /\ y <= nlines (render L p).
Proof.
  intros L E T s rel s' pi b es p r Hwf Hl Hv Hc Hbad. unfold ctx_line_L, line_span_L.
  eapply fault_located_lines; try eassumption. apply render_text_of. exact Hwf.
Qed.

Theorem every_message_line_L : forall L p es e,
  layout_wf L = true -> validate p = Ok es -> In e es ->
  exists n, ctx_line_L L p (snd e) = Some n /\ 1 <= n /\ (snd e = CFile -> n = 1)
            /\ (snd e <> CFile -> n <= nlines (render L p)).
Proof.
  intros L p es e Hwf Hv He. unfold ctx_line_L. eapply every_message_line; try eassumption.
  apply render_text_of. exact Hwf.
Qed.

(* the witness of Properties/C19.v::C19_example_deep_position in the example layout of
   Front/LayoutProofs.v (two filler lines before every line, CR LF, comments, 76 lines): the
   message is reported at line 72 = the line of the offending call, inside the lines 57..72 of
   the enclosing statement of the task *)
Example example_deep_line :
  validate w_unknown_task = Ok [(KUnknownTask, CStmt 0 [1; 0; 0; 1])]
  /\ ctx_line_L example_layout w_unknown_task (CStmt 0 [1; 0; 0; 1]) = Some 72
  /\ line_span_L example_layout w_unknown_task 0 [1; 0; 0; 1] = Some (72, 72)
  /\ line_span_L example_layout w_unknown_task 0 [1] = Some (57, 72)
  /\ nlines (render example_layout w_unknown_task) = 76.
Proof. vm_compute. repeat split; reflexivity. Qed.

(* ------------------------------------------------------------------------------------ *)
(* I. the row of a context begins with the first token of the context                   *)
(* ------------------------------------------------------------------------------------ *)
Definition slice_at {A : Type} (l : list A) (r : nat) (m : list A) : Prop :=
  exists pre post, l = pre ++ m ++ post /\ length pre = r.

Lemma slice_refl : forall A (l : list A), slice_at l 0 l.
Proof. intros. exists [], []. rewrite app_nil_r. split; reflexivity. Qed.

Lemma slice_cons : forall A (x : A) l r m, slice_at l r m -> slice_at (x :: l) (S r) m.
Proof. intros A x l r m (pre & post & -> & <-). exists (x :: pre), post. split; reflexivity. Qed.

Lemma slice_app_l : forall A (l l2 : list A) r m, slice_at l r m -> slice_at (l ++ l2) r m.
Proof.
  intros A l l2 r m (pre & post & -> & <-). exists pre, (post ++ l2). split; [|reflexivity].
  rewrite <- !app_assoc. reflexivity.
Qed.

Lemma slice_app_r : forall A (l1 l : list A) r m, slice_at l r m -> slice_at (l1 ++ l) (length l1 + r) m.
Proof.
  intros A l1 l r m (pre & post & -> & <-). exists (l1 ++ pre), post. split; [|apply app_length].
  rewrite <- !app_assoc. reflexivity.
Qed.

Lemma slice_trans : forall A (l m k : list A) r1 r2, slice_at l r1 m -> slice_at m r2 k -> slice_at l (r1 + r2) k.
Proof.
  intros A l m k r1 r2 (p1 & q1 & -> & <-) (p2 & q2 & -> & <-). exists (p1 ++ p2), (q2 ++ q1).
  split; [|apply app_length]. rewrite <- !app_assoc. reflexivity.
Qed.

Lemma slice_nth : forall A (l m : list A) r k x, slice_at l r m -> nth_error m k = Some x -> nth_error l (r + k) = Some x.
Proof.
  intros A l m r k x (pre & post & -> & <-) H. rewrite nth_error_app2 by lia.
  replace (length pre + k - length pre) with k by lia. rewrite nth_error_app1; [exact H|].
  apply nth_error_Some. rewrite H. discriminate.
Qed.

Lemma flatten_node_eq : forall d lex kids, flatten d [LNode lex kids] = (d, lex) :: flatten (S d) kids.
Proof. intros. cbn [flatten flat_map]. rewrite app_nil_r. apply flatten_tree_node. Qed.

Lemma flatten_cons_eq : forall d t f, flatten d (t :: f) = flatten d [t] ++ flatten d f.
Proof. intros. change (t :: f) with ([t] ++ f). apply flatten_app. Qed.

(* the calls of a Parallel block *)
Lemma locate_call_slice : forall cs j b r n d,
  locate_call cs j b = Some (r, n) ->
  exists k, r = b + k /\
    slice_at (flatten d (map (fun c => forest_call (TLower (c_name c)) (c_ins c) (c_outs c)) cs)) k (flatten d (forest_node n)).
Proof.
  induction cs as [|c cs IH]; intros j b r n d H; [discriminate|]. cbn [locate_call] in H. cbn [map].
  rewrite flatten_cons_eq. destruct j as [|j].
  - inversion H; subst. exists 0. split; [lia|]. apply slice_app_l. cbn [forest_node]. apply slice_refl.
  - destruct (IH _ _ _ _ d H) as [k [Hr Hs]]. exists (rows_call c + k). split; [lia|].
    unfold rows_call. rewrite <- (rows_forest_call d (TLower (c_name c)) (c_ins c) (c_outs c)). apply slice_app_r. exact Hs.
Qed.

Definition slice_ok (s : stmt) : Prop :=
  forall b rel r n d, locate_stmt s b rel = Some (r, n) ->
    exists k d', r = b + k /\ slice_at (flatten d (forest_stmt s)) k (flatten d' (forest_node n)).

Lemma locate_list_slice : forall l, Forall slice_ok l ->
  forall i b rel r n d, locate_list l i b rel = Some (r, n) ->
    exists k d', r = b + k /\ slice_at (flatten d (forest_stmts l)) k (flatten d' (forest_node n)).
Proof.
  induction l as [|x l IH]; intros HF i b rel r n d H; [discriminate|].
  inversion HF as [|? ? Hx Hl]; subst. unfold forest_stmts. cbn [flat_map]. rewrite flatten_app.
  destruct i as [|i].
  - rewrite locate_list_here in H. destruct (Hx _ _ _ _ d H) as (k & d' & Hr & Hs).
    exists k, d'. split; [exact Hr|]. apply slice_app_l. exact Hs.
  - rewrite locate_list_next in H. destruct (IH Hl _ _ _ _ _ d H) as (k & d' & Hr & Hs).
    exists (rows_stmt x + k), d'. split; [lia|]. rewrite <- (rows_forest_stmt x d). apply slice_app_r. exact Hs.
Qed.

Lemma locate_stmt_slice : forall s, slice_ok s.
Proof.
  induction s as [n0 ins outs|c|cs|e body IH|par v lim body IH|e a f IHa IHf] using stmt_ind';
    intros b rel r n d H; destruct rel as [|i rel];
    try (rewrite locate_stmt_nil in H; inversion H; subst; exists 0, d; split; [lia|apply slice_refl]).
  - discriminate.
  - discriminate.
  - rewrite locate_stmt_parallel in H. destruct rel; [|discriminate].
    destruct (locate_call_slice _ _ _ _ _ (S d) H) as [k [Hr Hs]]. exists (1 + k), (S d). split; [lia|].
    cbn [forest_stmt]. rewrite flatten_node_eq. apply slice_cons. exact Hs.
  - rewrite locate_stmt_while in H. destruct (locate_list_slice body IH _ _ _ _ _ (S d) H) as (k & d' & Hr & Hs).
    exists (1 + k), d'. split; [lia|]. rewrite forest_while, flatten_node_eq. apply slice_cons. exact Hs.
  - rewrite locate_stmt_count in H. destruct (locate_list_slice body IH _ _ _ _ _ (S d) H) as (k & d' & Hr & Hs).
    exists (1 + k), d'. split; [lia|]. rewrite forest_count, flatten_node_eq. apply slice_cons. exact Hs.
  - rewrite locate_stmt_cond in H. destruct rel as [|j rel'']; [discriminate|].
    rewrite forest_cond. rewrite flatten_cons_eq, flatten_node_eq. unfold leaf at 1. rewrite flatten_node_eq.
    change (flatten (S (S d)) []) with (@nil (nat * list tok)).
    rewrite (flatten_cons_eq d (LNode [KPassed] (forest_stmts a))), flatten_node_eq.
    destruct i as [|[|i]]; [| |discriminate].
    + destruct (locate_list_slice a IHa _ _ _ _ _ (S d) H) as (k & d' & Hr & Hs).
      exists (3 + k), d'. split; [lia|]. cbn [app]. do 3 apply slice_cons. apply slice_app_l. exact Hs.
    + destruct f as [|f0 f']; [discriminate H|].
      destruct (locate_list_slice _ IHf _ _ _ _ _ (S d) H) as (k & d' & Hr & Hs).
      exists (3 + (rows_stmts a + (1 + k))), d'. split; [lia|]. cbn [app]. do 3 apply slice_cons.
      rewrite flatten_node_eq. rewrite <- (rows_forest_stmts (S d) a).
      apply slice_app_r. apply slice_cons. exact Hs.
Qed.

(* ---- definitions inside the program ---- *)
Lemma nth_split : forall A (l : list A) i x, nth_error l i = Some x -> l = firstn i l ++ x :: skipn (S i) l.
Proof.
  induction l as [|y l IH]; intros i x H; [destruct i; discriminate|]. destruct i as [|i].
  - inversion H; subst. reflexivity.
  - cbn [nth_error] in H. cbn [firstn skipn app]. f_equal. apply IH. exact H.
Qed.

Lemma task_slice : forall p ti t, nth_error (p_tasks p) ti = Some t ->
  slice_at (flatten 0 (forest_of p)) (task_base p ti) (flatten 0 (forest_task t)).
Proof.
  intros p ti t H. unfold forest_of, task_base. rewrite flatten_app.
  rewrite <- (rows_forest_structs (p_structs p)). apply slice_app_r.
  rewrite (nth_split _ _ _ _ H) at 1. rewrite flat_map_app. cbn [flat_map]. rewrite !flatten_app.
  rewrite <- (rows_forest_tasks (firstn ti (p_tasks p))).
  replace (length (flatten 0 (flat_map forest_task (firstn ti (p_tasks p)))))
    with (length (flatten 0 (flat_map forest_task (firstn ti (p_tasks p)))) + 0) by lia.
  apply slice_app_r. apply slice_app_l. apply slice_refl.
Qed.

Lemma struct_slice : forall p i s, nth_error (p_structs p) i = Some s ->
  slice_at (flatten 0 (forest_of p)) (struct_base p i) (flatten 0 (forest_struct s)).
Proof.
  intros p i s H. unfold forest_of, struct_base. rewrite flatten_app. apply slice_app_l.
  rewrite (nth_split _ _ _ _ H) at 1. rewrite flat_map_app. cbn [flat_map]. rewrite !flatten_app.
  rewrite <- (rows_forest_structs (firstn i (p_structs p))).
  replace (length (flatten 0 (flat_map forest_struct (firstn i (p_structs p)))))
    with (length (flatten 0 (flat_map forest_struct (firstn i (p_structs p)))) + 0) by lia.
  apply slice_app_r. apply slice_app_l. apply slice_refl.
Qed.

Definition ins_block (t : task) : list ltree :=
  match t_ins t with [] => [] | _ => [LNode [KIn] (map (fun d => leaf (toks_vardef d)) (t_ins t))] end.
Definition outs_block (t : task) : list ltree :=
  match t_outs t with [] => [] | _ => [LNode [KOut] (map (fun n => leaf [TLower n]) (t_outs t))] end.

Lemma forest_task_eq : forall t,
  flatten 0 (forest_task t)
  = (0, [KTask; TLower (t_name t)])
    :: (flatten 1 (ins_block t) ++ flatten 1 (forest_stmts (t_body t)) ++ flatten 1 (outs_block t)) ++ [(0, [KEnd])].
Proof.
  intros t. unfold forest_task. rewrite flatten_cons_eq, flatten_node_eq. unfold leaf at 3. rewrite flatten_node_eq.
  rewrite !flatten_app. reflexivity.
Qed.

Lemma ins_block_rows : forall t, length (flatten 1 (ins_block t)) = rows_block (t_ins t).
Proof.
  intros t. unfold ins_block. destruct (t_ins t) as [|i ins]; [reflexivity|].
  rewrite flatten_node_eq. cbn [length]. rewrite flatten_length_leaves. reflexivity.
Qed.

Lemma body_slice : forall p ti t, nth_error (p_tasks p) ti = Some t ->
  slice_at (flatten 0 (forest_of p)) (body_base p ti t) (flatten 1 (forest_stmts (t_body t))).
Proof.
  intros p ti t H. unfold body_base. rewrite <- Nat.add_assoc. eapply slice_trans; [apply task_slice; exact H|].
  rewrite forest_task_eq. apply slice_cons. apply slice_app_l.
  rewrite <- (ins_block_rows t).
  replace (length (flatten 1 (ins_block t))) with (length (flatten 1 (ins_block t)) + 0) by lia.
  apply slice_app_r. apply slice_app_l. apply slice_refl.
Qed.

(* the lines of the node found by a path are a slice of the lines of the program *)
Theorem locate_slice : forall p ti pi r n, locate p ti pi = Some (r, n) ->
  exists d', slice_at (flatten 0 (forest_of p)) r (flatten d' (forest_node n)).
Proof.
  intros p ti pi r n H. pose proof H as H0. unfold locate in H0.
  destruct (nth_error (p_tasks p) ti) as [t|] eqn:Ht; [|discriminate]. destruct pi as [|i rel]; [discriminate|].
  destruct (locate_list_slice (t_body t) (proj2 (Forall_forall _ _) (fun s _ => locate_stmt_slice s)) _ _ _ _ _ 1 H0)
    as (k & d' & Hr & Hs).
  exists d'. subst r. eapply slice_trans; [apply body_slice; exact Ht|exact Hs].
Qed.

(* ---- the first line of a node, the lines of its parameters ---- *)
Lemma node_first_row : forall n d, exists lex rest, flatten d (forest_node n) = (d, node_head n :: lex) :: rest.
Proof.
  intros [s|c] d; cbn [forest_node node_head].
  - destruct s as [nm ins outs|c|cs|e body|par v lim body|e a f].
    + cbn [forest_stmt]. unfold forest_call. rewrite flatten_node_eq. eauto.
    + cbn [forest_stmt]. unfold forest_call. rewrite flatten_node_eq. eauto.
    + cbn [forest_stmt]. rewrite flatten_node_eq. eauto.
    + rewrite forest_while, flatten_node_eq. eauto.
    + rewrite forest_count, flatten_node_eq. destruct par; cbn [app]; eauto.
    + rewrite forest_cond, flatten_cons_eq, flatten_node_eq. cbn [app]. eauto.
  - unfold forest_call. rewrite flatten_node_eq. eauto.
Qed.

Lemma node_io_forest : forall n ins outs d, node_io n = Some (ins, outs) ->
  flatten d (forest_node n) = (d, [node_head n]) :: flatten (S d) (forest_io ins outs).
Proof.
  intros [s|c] ins outs d H; cbn [node_io] in H.
  - destruct s; try discriminate; inversion H; subst; cbn [forest_node forest_stmt node_head];
      unfold forest_call; apply flatten_node_eq.
  - inversion H; subst. cbn [forest_node node_head]. unfold forest_call. apply flatten_node_eq.
Qed.

Lemma nth_flatten_leaves : forall (A : Type) (g : A -> list tok) d l j a,
  nth_error l j = Some a -> nth_error (flatten d (map (fun a => leaf (g a)) l)) j = Some (d, g a).
Proof.
  intros A g d l. induction l as [|x l IH]; intros j a H; [destruct j; discriminate|].
  cbn [map]. rewrite flatten_cons_eq. unfold leaf at 1. rewrite flatten_node_eq. cbn [flatten flat_map app].
  destruct j as [|j]; [inversion H; subst; reflexivity|]. cbn [nth_error] in *. apply IH. exact H.
Qed.

Lemma params_slice : forall d ins k x, nth_error ins k = Some x ->
  slice_at (flatten d (map forest_param ins)) (rows_params (firstn k ins)) (flatten d [forest_param x]).
Proof.
  intros d ins. induction ins as [|y ins IH]; intros k x H; [destruct k; discriminate|].
  cbn [map]. rewrite flatten_cons_eq. destruct k as [|k].
  - inversion H; subst. cbn [firstn rows_params]. apply slice_app_l. apply slice_refl.
  - cbn [nth_error] in H. cbn [firstn rows_params]. rewrite <- (rows_forest_param d y). apply slice_app_r.
    apply IH. exact H.
Qed.

Lemma forest_struct_eq : forall s,
  flatten 0 (forest_struct s)
  = (0, [KStruct; TUpper (s_name s)]) :: flatten 1 (map (fun d => leaf (toks_vardef d)) (s_attrs s)) ++ [(0, [KEnd])].
Proof.
  intros s. unfold forest_struct. rewrite flatten_cons_eq, flatten_node_eq. unfold leaf at 2. rewrite flatten_node_eq.
  reflexivity.
Qed.

Lemma forest_io_eq : forall d ins outs,
  flatten d (forest_io ins outs)
  = match ins with [] => [] | _ => (d, [KIn]) :: flatten (S d) (map forest_param ins) end
    ++ match outs with [] => [] | _ => (d, [KOut]) :: flatten (S d) (map (fun x => leaf (toks_vardef x)) outs) end.
Proof.
  intros d ins outs. unfold forest_io. rewrite flatten_app. f_equal.
  - destruct ins; [reflexivity|apply flatten_node_eq].
  - destruct outs; [reflexivity|apply flatten_node_eq].
Qed.

Lemma ins_part_length : forall d ins,
  length (match ins with [] => [] | _ => (d, [KIn]) :: flatten (S d) (map forest_param ins) end) = rows_ins ins.
Proof. intros d [|p0 ins]; [reflexivity|]. cbn [length rows_ins]. rewrite rows_forest_params. reflexivity. Qed.

Lemma vardef_head : forall x, toks_vardef x = TLower (fst x) :: PColon :: toks_vtype (snd x).
Proof. reflexivity. Qed.

(* The row of a context begins with the first token of that context: the rows of LinesOf are
   tied to the forest of the program not only in number but line by line. *)
Theorem row_head : forall p c k, ctx_row p c = Some k ->
  exists d lex tk, nth_error (flatten 0 (forest_of p)) k = Some (d, tk :: lex) /\ ctx_head p c = Some tk.
Proof.
  intros p c k H. destruct c; cbn [ctx_row] in H; try discriminate; cbn [ctx_head].
  - (* CStruct *)
    destruct (nth_error (p_structs p) i) as [s|] eqn:E; [|discriminate]. inversion H; subst.
    exists 0, [TUpper (s_name s)], KStruct. split; [|reflexivity].
    rewrite <- (Nat.add_0_r (struct_base p i)). eapply slice_nth; [apply struct_slice; exact E|].
    rewrite forest_struct_eq. reflexivity.
  - (* CStructAttr *)
    destruct (nth_error (p_structs p) i) as [s|] eqn:E; [|discriminate].
    destruct (j <? length (s_attrs s)) eqn:Ej; [|discriminate]. apply Nat.ltb_lt in Ej. inversion H; subst.
    destruct (nth_error (s_attrs s) j) as [x|] eqn:Ex; [|apply nth_error_None in Ex; lia].
    exists 1, (PColon :: toks_vtype (snd x)), (TLower (fst x)). split; [|reflexivity].
    rewrite <- Nat.add_assoc. eapply slice_nth; [apply struct_slice; exact E|].
    rewrite forest_struct_eq. cbn [plus nth_error]. rewrite nth_error_app1 by (rewrite flatten_length_leaves; exact Ej).
    rewrite (nth_flatten_leaves _ toks_vardef 1 _ _ _ Ex). reflexivity.
  - (* CTask *)
    destruct (nth_error (p_tasks p) i) as [t|] eqn:E; [|discriminate]. inversion H; subst.
    exists 0, [TLower (t_name t)], KTask. split; [|reflexivity].
    rewrite <- (Nat.add_0_r (task_base p i)). eapply slice_nth; [apply task_slice; exact E|].
    rewrite forest_task_eq. reflexivity.
  - (* CTaskIn *)
    destruct (nth_error (p_tasks p) i) as [t|] eqn:E; [|discriminate].
    destruct (t_ins t) as [|i0 ins] eqn:Ei; [discriminate|]. inversion H; subst.
    exists 1, [], KIn. split; [|reflexivity].
    eapply slice_nth; [apply task_slice; exact E|]. rewrite forest_task_eq. cbn [nth_error].
    unfold ins_block. rewrite Ei. rewrite flatten_node_eq. reflexivity.
  - (* CTaskInParam *)
    destruct (nth_error (p_tasks p) i) as [t|] eqn:E; [|discriminate].
    destruct (j <? length (t_ins t)) eqn:Ej; [|discriminate]. apply Nat.ltb_lt in Ej. inversion H; subst.
    destruct (nth_error (t_ins t) j) as [x|] eqn:Ex; [|apply nth_error_None in Ex; lia].
    exists 2, (PColon :: toks_vtype (snd x)), (TLower (fst x)). split; [|reflexivity].
    rewrite <- Nat.add_assoc. eapply slice_nth; [apply task_slice; exact E|]. rewrite forest_task_eq.
    cbn [plus nth_error]. unfold ins_block. destruct (t_ins t) as [|i0 ins] eqn:Ei; [cbn in Ej; lia|]. rewrite <- Ei in *.
    rewrite flatten_node_eq. cbn [app nth_error].
    rewrite <- !app_assoc. rewrite nth_error_app1 by (rewrite flatten_length_leaves; exact Ej).
    rewrite (nth_flatten_leaves _ toks_vardef 2 _ _ _ Ex). reflexivity.
  - (* CTaskOut *)
    destruct (nth_error (p_tasks p) i) as [t|] eqn:E; [|discriminate].
    destruct (t_outs t) as [|o outs] eqn:Eo; [discriminate|]. inversion H; subst.
    exists 1, [], KOut. split; [|reflexivity].
    unfold body_base. rewrite <- !Nat.add_assoc. eapply slice_nth; [apply task_slice; exact E|]. rewrite forest_task_eq.
    cbn [plus nth_error]. rewrite <- !app_assoc.
    rewrite nth_error_app2 by (rewrite ins_block_rows; lia). rewrite ins_block_rows.
    replace (rows_block (t_ins t) + rows_stmts (t_body t) - rows_block (t_ins t)) with (rows_stmts (t_body t)) by lia.
    rewrite nth_error_app2 by (rewrite rows_forest_stmts; lia). rewrite rows_forest_stmts, Nat.sub_diag.
    unfold outs_block. rewrite Eo, flatten_node_eq. reflexivity.
  - (* CStmt *)
    destruct (locate p i pi) as [[r n]|] eqn:E; [|discriminate]. inversion H; subst.
    destruct (locate_slice _ _ _ _ _ E) as [d' Hs]. destruct (node_first_row n d') as [lex [rest Hn]].
    exists d', lex, (node_head n). split; [|reflexivity].
    rewrite <- (Nat.add_0_r k). eapply slice_nth; [exact Hs|]. rewrite Hn. reflexivity.
  - (* CStmtIn *)
    destruct (locate p i pi) as [[r n]|] eqn:E; [|discriminate].
    destruct (node_io n) as [[ins outs]|] eqn:Hio; [|discriminate]. destruct ins as [|i0 ins]; [discriminate|].
    inversion H; subst. destruct (locate_slice _ _ _ _ _ E) as [d' Hs].
    exists (S d'), [], KIn. split; [|reflexivity].
    eapply slice_nth; [exact Hs|]. rewrite (node_io_forest _ _ _ d' Hio), forest_io_eq. reflexivity.
  - (* CStmtOutParam *)
    destruct (locate p i pi) as [[r n]|] eqn:E; [|discriminate].
    destruct (node_io n) as [[ins outs]|] eqn:Hio; [|discriminate].
    destruct (j <? length outs) eqn:Ej; [|discriminate]. apply Nat.ltb_lt in Ej. inversion H; subst.
    destruct (nth_error outs j) as [x|] eqn:Ex; [|apply nth_error_None in Ex; lia].
    destruct (locate_slice _ _ _ _ _ E) as [d' Hs].
    exists (S (S d')), (PColon :: toks_vtype (snd x)), (TLower (fst x)). split; [|reflexivity].
    rewrite <- !Nat.add_assoc. eapply slice_nth; [exact Hs|].
    rewrite (node_io_forest _ _ _ d' Hio), forest_io_eq. cbn [plus nth_error].
    rewrite nth_error_app2 by (rewrite ins_part_length; lia). rewrite ins_part_length.
    replace (rows_ins ins + S j - rows_ins ins) with (S j) by lia.
    destruct outs as [|o0 outs']; [cbn in Ej; lia|]. cbn [nth_error].
    rewrite (nth_flatten_leaves _ toks_vardef (S (S d')) _ _ _ Ex). reflexivity.
  - (* CLit *)
    destruct (locate p i pi) as [[r n]|] eqn:E; [|discriminate].
    destruct (node_io n) as [[ins outs]|] eqn:Hio; [|discriminate].
    destruct (nth_error ins k0) as [[v|v es|s j]|] eqn:Ek; try discriminate. inversion H; subst.
    destruct (locate_slice _ _ _ _ _ E) as [d' Hs].
    exists (S (S d')), [], (TUpper s). split; [|reflexivity].
    replace (r + 2 + rows_params (firstn k0 ins)) with (r + (2 + (rows_params (firstn k0 ins) + 0))) by lia.
    eapply slice_nth; [exact Hs|].
    rewrite (node_io_forest _ _ _ d' Hio), forest_io_eq. cbn [plus nth_error].
    destruct ins as [|i0 ins']; [destruct k0; discriminate|]. cbn [app nth_error].
    rewrite nth_error_app1.
    + eapply slice_nth; [apply params_slice; exact Ek|]. cbn [forest_param]. rewrite flatten_node_eq. reflexivity.
    + pose proof (rows_params_split _ _ _ Ek) as Hsp. rewrite rows_forest_params. cbn [rows_param] in Hsp. lia.
  - (* CLitJson *)
    destruct (locate p i pi) as [[r n]|] eqn:E; [|discriminate].
    destruct (node_io n) as [[ins outs]|] eqn:Hio; [|discriminate].
    destruct (nth_error ins k0) as [[v|v es|s j]|] eqn:Ek; try discriminate. inversion H; subst.
    destruct (locate_slice _ _ _ _ _ E) as [d' Hs].
    destruct (toks_json true j) as [|tk lex] eqn:Ej; [exfalso; eapply toks_json_nonempty; exact Ej|].
    exists (S (S (S d'))), lex, tk. split; [|reflexivity].
    replace (r + 2 + rows_params (firstn k0 ins) + 1) with (r + (2 + (rows_params (firstn k0 ins) + 1))) by lia.
    eapply slice_nth; [exact Hs|].
    rewrite (node_io_forest _ _ _ d' Hio), forest_io_eq. cbn [plus nth_error].
    destruct ins as [|i0 ins']; [destruct k0; discriminate|]. cbn [app nth_error].
    rewrite nth_error_app1.
    + eapply slice_nth; [apply params_slice; exact Ek|]. cbn [forest_param]. rewrite flatten_node_eq.
      unfold leaf. rewrite flatten_node_eq. rewrite Ej. reflexivity.
    + pose proof (rows_params_split _ _ _ Ek) as Hsp. rewrite rows_forest_params. cbn [rows_param] in Hsp. lia.
Qed.
