(* Front/PrecedenceProofs.v — property C13, the precedence clause: which expressions the
   GENERATED parser (level table regenerated from PFDLParser.py: '*' above '/', '-' above
   '+', four separate levels) reads the way the STATED rules demand ('* /' one level, '+ -'
   one level below, comparisons, '!', And, Or; equal rank associates to the left).

   Main results
   - [gen_reads_regen]     for EVERY expression e in the normal form of the standard table the
                           generated parser reads the text of e as the tree [regen e]
                           (regen regroups  (x / y) * z  to  x / (y * z)  and  (x + y) - z  to
                           x + (y - z), bottom up); the standard parser reads it as e;
   - [C13_partial]         when e contains neither adjacency ([no_div_then_mul],
                           [no_add_then_sub]) both parsers return the same tree e;
   - [normal_gen_iff_guard] for e in standard normal form: e is in the generated table's
                           normal form  iff  the two guards hold (the guards are exact);
   - [regen_value]         without '(x / y) * z' the two trees have the same arithmetic value
                           (Qeq on numbers, equality on decisions);
   - [div_mul_values_differ] for '(x / y) * z' the two readings differ in value whenever
                           x <> 0, y <> 0, z <> 0, z * z <> 1;
   - [two_ops_any_table]   a o1 b o2 c under ANY table; [left_assoc_both_tables],
                           [equal_rank_generated], [grouping_agrees_except];
   - [C13_front_end_reads] whole programs: front_end_standard t = FOk p and
                           front_end t = FOk (regen_prog p); [C13_front_end_partial],
                           [C13_front_end_guard_exact], [C13_front_end_value_partial];
   - the full statements [C13_precedence_tree_statement], [C13_precedence_value_statement]
     are FALSE: [..._refuted]; minimal counterexamples [C13_standard_precedence_refuted]
     (8 / 2 * 2), [add_then_sub_trees_differ] (1 + 2 - 3); two operators are needed
     ([guards_fail_two_ops]).
   Naming: the critical adjacency of the '+ -' pair is '+' FOLLOWED BY '-' (the generated
   table ranks '-' above '+'), hence [no_add_then_sub]; [no_sub_then_add] is an alias. *)
From PFDL Require Import Expr ExprProofs.
From PFDL.Front Require Import Render ParserProofs RenderProofs DenterProofs ExprParseProofs RoundTrip LayoutProofs.
From PFDL.Gen Require Import Precedence ObligationsFront.
From Coq Require Import Lia QArith Bool.
Local Open Scope nat_scope.

(* ------------------------------------------------------------------------------------ *)
(* 1. The two level tables                                                              *)
(* ------------------------------------------------------------------------------------ *)
(* the table regenerated from the generated ANTLR parser *)
Definition generated_levels : level_table := expression_levels_from_source.
Definition generated_not_level : nat := not_level_from_source.

(* the table the property states: [Parser.standard_levels] *)
Definition stated_levels : level_table := standard_levels.

Lemma generated_levels_are_impl : generated_levels = impl_levels /\ generated_not_level = impl_not_level.
Proof. split; reflexivity. Qed.

Notation GT := impl_levels.
Notation ST := standard_levels.
Notation NL := impl_not_level.

(* levels as functions of the operator *)
Definition lvS (o : binop) : nat :=
  match o with
  | OMul | ODiv => 9 | OAdd | OSub => 7
  | OLt | OLe | OGt | OGe | OEq | ONe => 5 | OAnd => 3 | OOr => 2
  end.
Definition rhsS (o : binop) : nat := S (lvS o).

Definition lvG (o : binop) : nat :=
  match o with
  | OMul => 9 | ODiv => 8 | OSub => 7 | OAdd => 6
  | OLt | OLe | OGt | OGe | OEq | ONe => 5 | OAnd => 3 | OOr => 2
  end.
Definition rhsG (o : binop) : nat := S (lvG o).

Lemma level_std : forall o, level_of ST o = Some (lvS o, rhsS o).
Proof. intros []; reflexivity. Qed.

Lemma level_gen : forall o, level_of GT o = Some (lvG o, rhsG o).
Proof. intros []; reflexivity. Qed.

(* the stated rules, read off the standard table: every operator is left associative (its
   right operand is read one level higher), '* /' > '+ -' > comparisons > '!' > And > Or *)
Lemma standard_table_is_the_stated_order :
  lvS OMul = lvS ODiv /\ lvS OAdd = lvS OSub /\ lvS OAdd < lvS OMul /\ lvS OLt < lvS OAdd
  /\ lvS OLt = lvS OLe /\ lvS OLt = lvS OGt /\ lvS OLt = lvS OGe /\ lvS OLt = lvS OEq /\ lvS OLt = lvS ONe
  /\ NL <= lvS OLt /\ lvS OAnd < NL /\ lvS OOr < lvS OAnd
  /\ forall o, rhsS o = S (lvS o).
Proof. unfold rhsS, impl_not_level. cbn. repeat split; lia. Qed.

(* the generated table: four separate arithmetic levels *)
Lemma generated_table_splits_levels :
  lvG ODiv < lvG OMul /\ lvG OAdd < lvG OSub /\ lvG OSub < lvG ODiv /\ lvG OLt < lvG OAdd
  /\ (forall o, lvG o <= lvS o <= S (lvG o))
  /\ (forall o, lvG o <> lvS o <-> o = ODiv \/ o = OAdd).
Proof.
  unfold rhsS, rhsG. cbn. repeat split; try lia.
  - destruct o; cbn; lia.
  - destruct o; cbn; lia.
  - destruct o; cbn; intros H; try lia; auto.
  - intros [-> | ->]; cbn; lia.
Qed.

(* unfolding equations of the normal form under the two tables *)
Lemma normalS_bin : forall p o l r,
  normal ST NL p (EBin o l r) =
  (p <=? lvS o) && normal ST NL p l && follows_ok ST NL l (lvS o) && normal ST NL (rhsS o) r.
Proof. intros. cbn [normal]. rewrite level_std. reflexivity. Qed.

Lemma normalG_bin : forall p o l r,
  normal GT NL p (EBin o l r) =
  (p <=? lvG o) && normal GT NL p l && follows_ok GT NL l (lvG o) && normal GT NL (rhsG o) r.
Proof. intros. cbn [normal]. rewrite level_gen. reflexivity. Qed.

Lemma followsS_bin : forall o l r lv,
  follows_ok ST NL (EBin o l r) lv = (lv <? rhsS o) && follows_ok ST NL r lv.
Proof. intros. cbn [follows_ok]. rewrite level_std. reflexivity. Qed.

Lemma followsG_bin : forall o l r lv,
  follows_ok GT NL (EBin o l r) lv = (lv <? rhsG o) && follows_ok GT NL r lv.
Proof. intros. cbn [follows_ok]. rewrite level_gen. reflexivity. Qed.

Lemma follows_not : forall T x lv,
  follows_ok T NL (ENot x) lv = (lv <? NL) && follows_ok T NL x lv.
Proof. reflexivity. Qed.

(* boolean hypotheses / goals to arithmetic *)
Ltac bprop :=
  repeat match goal with
  | H : _ && _ = true |- _ => apply andb_prop in H; destruct H
  | H : (_ <=? _) = true |- _ => apply Nat.leb_le in H
  | H : (_ <? _) = true |- _ => apply Nat.ltb_lt in H
  end.
Ltac bgoal :=
  repeat match goal with
  | |- _ && _ = true => apply andb_true_intro; split
  | |- (_ <=? _) = true => apply Nat.leb_le
  | |- (_ <? _) = true => apply Nat.ltb_lt
  end.

Lemma normalS_inv : forall p o l r, normal ST NL p (EBin o l r) = true ->
  p <= lvS o /\ normal ST NL p l = true /\ follows_ok ST NL l (lvS o) = true /\ normal ST NL (rhsS o) r = true.
Proof. intros p o l r H. rewrite normalS_bin in H. bprop. auto. Qed.

Lemma normalG_inv : forall p o l r, normal GT NL p (EBin o l r) = true ->
  p <= lvG o /\ normal GT NL p l = true /\ follows_ok GT NL l (lvG o) = true /\ normal GT NL (rhsG o) r = true.
Proof. intros p o l r H. rewrite normalG_bin in H. bprop. auto. Qed.

Lemma normalG_intro : forall p o l r,
  p <= lvG o -> normal GT NL p l = true -> follows_ok GT NL l (lvG o) = true -> normal GT NL (rhsG o) r = true ->
  normal GT NL p (EBin o l r) = true.
Proof. intros p o l r H1 H2 H3 H4. rewrite normalG_bin. bgoal; assumption. Qed.

Lemma followsS_inv : forall o l r lv, follows_ok ST NL (EBin o l r) lv = true ->
  lv < rhsS o /\ follows_ok ST NL r lv = true.
Proof. intros o l r lv H. rewrite followsS_bin in H. bprop. auto. Qed.

Lemma followsG_inv : forall o l r lv, follows_ok GT NL (EBin o l r) lv = true ->
  lv < rhsG o /\ follows_ok GT NL r lv = true.
Proof. intros o l r lv H. rewrite followsG_bin in H. bprop. auto. Qed.

Lemma followsG_intro : forall o l r lv, lv < rhsG o -> follows_ok GT NL r lv = true ->
  follows_ok GT NL (EBin o l r) lv = true.
Proof. intros o l r lv H1 H2. rewrite followsG_bin. bgoal; assumption. Qed.

Lemma follows_not_inv : forall T x lv, follows_ok T NL (ENot x) lv = true ->
  lv < NL /\ follows_ok T NL x lv = true.
Proof. intros T x lv H. rewrite follows_not in H. bprop. auto. Qed.

(* the normal form is antitone in the level *)
Lemma normal_antitone : forall T e p p', normal T NL p e = true -> p' <= p -> normal T NL p' e = true.
Proof.
  intros T. induction e as [q|b|s|x pth|x IHx|x IHx|o l IHl r IHr]; intros p p' H Hle; try exact H.
  cbn [normal] in *. destruct (level_of T o) as [[lv rhs]|]; [|discriminate].
  bprop. bgoal; try assumption; try lia. eapply IHl; eassumption.
Qed.

(* ------------------------------------------------------------------------------------ *)
(* 2. The critical adjacencies                                                          *)
(* ------------------------------------------------------------------------------------ *)
Definition top_is (c : binop) (e : expr) : bool :=
  match e with EBin o _ _ => binop_eqb o c | _ => false end.

(* no sub-expression  (x / y) * z   (text: x / y * z) *)
Fixpoint no_div_then_mul (e : expr) : bool :=
  match e with
  | ENot x | EParen x => no_div_then_mul x
  | EBin o l r => negb (binop_eqb o OMul && top_is ODiv l) && no_div_then_mul l && no_div_then_mul r
  | _ => true
  end.

(* no sub-expression  (x + y) - z   (text: x + y - z) *)
Fixpoint no_add_then_sub (e : expr) : bool :=
  match e with
  | ENot x | EParen x => no_add_then_sub x
  | EBin o l r => negb (binop_eqb o OSub && top_is OAdd l) && no_add_then_sub l && no_add_then_sub r
  | _ => true
  end.

(* the name used in the task description; the critical adjacency of the '+ -' pair is '+'
   FOLLOWED BY '-' (a + b - c), because the generated table ranks '-' above '+' *)
Definition no_sub_then_add := no_add_then_sub.

(* ------------------------------------------------------------------------------------ *)
(* 3. What the generated parser reads: the regrouped tree                               *)
(* ------------------------------------------------------------------------------------ *)
(* (x / y) * z  is read as  x / (y * z) *)
Definition mul_into (l r : expr) : expr :=
  match l with
  | EBin ODiv a b => EBin ODiv a (EBin OMul b r)
  | _ => EBin OMul l r
  end.

(* (x + y) - z  is read as  x + (y - z) *)
Definition sub_into (l r : expr) : expr :=
  match l with
  | EBin OAdd a b => EBin OAdd a (EBin OSub b r)
  | _ => EBin OSub l r
  end.

Fixpoint regen (e : expr) : expr :=
  match e with
  | ENot x => ENot (regen x)
  | EParen x => EParen (regen x)
  | EBin OMul l r => mul_into (regen l) (regen r)
  | EBin OSub l r => sub_into (regen l) (regen r)
  | EBin o l r => EBin o (regen l) (regen r)
  | _ => e
  end.

Lemma top_is_inv : forall c e, top_is c e = true -> exists a b, e = EBin c a b.
Proof.
  intros c [q|b|s|x pth|x|x|o l r] H; try discriminate. cbn in H.
  assert (o = c) as -> by (destruct o, c; try discriminate; reflexivity). eauto.
Qed.

Lemma mul_into_div : forall a b r, mul_into (EBin ODiv a b) r = EBin ODiv a (EBin OMul b r).
Proof. reflexivity. Qed.

Lemma mul_into_other : forall l r, top_is ODiv l = false -> mul_into l r = EBin OMul l r.
Proof. intros [q|b|s|x pth|x|x|o l1 r1] r H; try reflexivity. destruct o; try reflexivity. discriminate. Qed.

Lemma sub_into_add : forall a b r, sub_into (EBin OAdd a b) r = EBin OAdd a (EBin OSub b r).
Proof. reflexivity. Qed.

Lemma sub_into_other : forall l r, top_is OAdd l = false -> sub_into l r = EBin OSub l r.
Proof. intros [q|b|s|x pth|x|x|o l1 r1] r H; try reflexivity. destruct o; try reflexivity. discriminate. Qed.

(* case analysis on the shape of the left operand *)
Lemma mul_into_cases : forall l r,
  (exists a b, l = EBin ODiv a b /\ mul_into l r = EBin ODiv a (EBin OMul b r))
  \/ (top_is ODiv l = false /\ mul_into l r = EBin OMul l r).
Proof.
  intros l r. destruct (top_is ODiv l) eqn:E.
  - left. destruct (top_is_inv _ _ E) as [a [b ->]]. eauto.
  - right. split; [reflexivity|apply mul_into_other; exact E].
Qed.

Lemma sub_into_cases : forall l r,
  (exists a b, l = EBin OAdd a b /\ sub_into l r = EBin OAdd a (EBin OSub b r))
  \/ (top_is OAdd l = false /\ sub_into l r = EBin OSub l r).
Proof.
  intros l r. destruct (top_is OAdd l) eqn:E.
  - left. destruct (top_is_inv _ _ E) as [a [b ->]]. eauto.
  - right. split; [reflexivity|apply sub_into_other; exact E].
Qed.

(* regrouping does not change the text *)
Lemma toks_regen : forall e, toks_expr (regen e) = toks_expr e.
Proof.
  induction e as [q|b|s|x pth|x IHx|x IHx|o l IHl r IHr]; try reflexivity.
  - cbn [regen toks_expr]. rewrite IHx. reflexivity.
  - cbn [regen toks_expr]. rewrite IHx. reflexivity.
  - assert (Hgen : toks_expr (EBin o (regen l) (regen r)) = toks_expr (EBin o l r)).
    { cbn [toks_expr]. rewrite IHl, IHr. reflexivity. }
    destruct o; try exact Hgen; cbn [regen].
    + destruct (sub_into_cases (regen l) (regen r)) as [[a [b [E ->]]]|[_ ->]]; [|exact Hgen].
      rewrite <- Hgen, E. cbn [toks_expr tok_of_binop]. rewrite <- app_assoc. reflexivity.
    + destruct (mul_into_cases (regen l) (regen r)) as [[a [b [E ->]]]|[_ ->]]; [|exact Hgen].
      rewrite <- Hgen, E. cbn [toks_expr tok_of_binop]. rewrite <- app_assoc. reflexivity.
Qed.

(* the top operator of the regrouped tree has the standard rank of the original top *)
Lemma top_regen_level : forall c e, top_is c (regen e) = true ->
  exists o l r, e = EBin o l r /\ lvS c = lvS o.
Proof.
  intros c [q|b|s|x pth|x|x|o l r] H; try discriminate.
  exists o, l, r. split; [reflexivity|].
  assert (Hgen : top_is c (EBin o (regen l) (regen r)) = true -> lvS c = lvS o).
  { cbn. destruct o, c; try discriminate; reflexivity. }
  destruct o; try exact (Hgen H); cbn [regen] in H.
  - destruct (sub_into_cases (regen l) (regen r)) as [[a [b [E Hs]]]|[_ Hs]]; rewrite Hs in H.
    + destruct c; try discriminate; reflexivity.
    + exact (Hgen H).
  - destruct (mul_into_cases (regen l) (regen r)) as [[a [b [E Hs]]]|[_ Hs]]; rewrite Hs in H.
    + destruct c; try discriminate; reflexivity.
    + exact (Hgen H).
Qed.

Lemma top_regen_normal : forall c e p, normal ST NL p e = true -> top_is c (regen e) = true -> p <= lvS c.
Proof.
  intros c e p Hn Ht. destruct (top_regen_level _ _ Ht) as [o [l [r [-> E]]]].
  apply normalS_inv in Hn. lia.
Qed.

Lemma follows_antitone : forall T e lv lv', follows_ok T NL e lv = true -> lv' <= lv -> follows_ok T NL e lv' = true.
Proof.
  intros T. induction e as [q|b|s|x pth|x IHx|x IHx|o l IHl r IHr]; intros lv lv' H Hle; try reflexivity.
  - rewrite follows_not in *. bprop. bgoal; [lia|eauto].
  - cbn [follows_ok] in *. destruct (level_of T o) as [[lvo rhs]|]; [|discriminate].
    bprop. bgoal; [lia|eauto].
Qed.

(* an operator of (standard) level lv may follow the regrouped tree; when the regrouped tree
   is a '/' and lv is the level of '*' (or '+' and the level of '-') the operator is taken
   by the right operand: that is the regrouping one level up *)
Definition follows_top (lv : nat) (e : expr) : bool :=
  match e with
  | EBin o a b => if lvG o <? lv then follows_ok GT NL b lv else follows_ok GT NL e lv
  | _ => follows_ok GT NL e lv
  end.

Lemma follows_top_strong : forall lv e,
  follows_top lv e = true -> (forall c, top_is c e = true -> lv <= lvG c) -> follows_ok GT NL e lv = true.
Proof.
  intros lv [q|b|s|x pth|x|x|o l r] H Ht; try exact H.
  unfold follows_top in H. assert (Ho : lv <= lvG o) by (apply Ht; cbn; destruct o; reflexivity).
  replace (lvG o <? lv) with false in H by (symmetry; apply Nat.ltb_ge; exact Ho). exact H.
Qed.

Lemma follows_regen : forall e p lv,
  normal ST NL p e = true -> follows_ok ST NL e lv = true -> follows_top lv (regen e) = true.
Proof.
  induction e as [q|b|s|x pth|x IHx|x IHx|o l IHl r IHr]; intros p lv Hn Hf; try reflexivity.
  - (* ! x *)
    cbn [regen]. unfold follows_top. apply follows_not_inv in Hf. destruct Hf as [Hlv Hfx].
    cbn [normal] in Hn. rewrite follows_not. bgoal; [assumption|].
    apply follows_top_strong; [eapply IHx; eassumption|].
    intros c Hc. pose proof (top_regen_normal _ _ _ Hn Hc) as Hp. unfold impl_not_level in *.
    destruct c; cbn in *; lia.
  - apply normalS_inv in Hn. destruct Hn as (Hp & Hnl & Hfl & Hnr).
    apply followsS_inv in Hf. destruct Hf as [Hlv Hfr].
    assert (Fr : follows_ok GT NL (regen r) lv = true).
    { apply follows_top_strong; [eapply IHr; eassumption|].
      intros c Hc. pose proof (top_regen_normal _ _ _ Hnr Hc) as Hpc. unfold rhsS in *.
      destruct c; cbn in *; lia. }
    assert (Hgen : follows_top lv (EBin o (regen l) (regen r)) = true).
    { unfold follows_top. destruct (lvG o <? lv) eqn:E; [exact Fr|].
      apply Nat.ltb_ge in E. apply followsG_intro; [unfold rhsG; lia|exact Fr]. }
    destruct o; try exact Hgen; cbn [regen].
    + destruct (sub_into_cases (regen l) (regen r)) as [[a [b [E ->]]]|[_ ->]]; [|exact Hgen].
      unfold follows_top. unfold rhsS in *. cbn [lvS lvG] in *.
      destruct (6 <? lv) eqn:E6.
      * apply followsG_intro; [unfold rhsG; cbn [lvG]; lia|exact Fr].
      * apply Nat.ltb_ge in E6. apply followsG_intro; [unfold rhsG; cbn [lvG]; lia|].
        apply followsG_intro; [unfold rhsG; cbn [lvG]; lia|exact Fr].
    + destruct (mul_into_cases (regen l) (regen r)) as [[a [b [E ->]]]|[_ ->]]; [|exact Hgen].
      unfold follows_top. unfold rhsS in *. cbn [lvS lvG] in *.
      destruct (8 <? lv) eqn:E8.
      * apply followsG_intro; [unfold rhsG; cbn [lvG]; lia|exact Fr].
      * apply Nat.ltb_ge in E8. apply followsG_intro; [unfold rhsG; cbn [lvG]; lia|].
        apply followsG_intro; [unfold rhsG; cbn [lvG]; lia|exact Fr].
Qed.

Lemma follows_top_level : forall c e lv,
  follows_ok ST NL e lv = true -> top_is c (regen e) = true -> lv <= lvS c.
Proof.
  intros c e lv Hf Ht. destruct (top_regen_level _ _ Ht) as [o [l [r [-> E]]]].
  apply followsS_inv in Hf. unfold rhsS in Hf. lia.
Qed.

Lemma lvS_le_S_lvG : forall o, lvG o <= lvS o <= S (lvG o).
Proof. intros []; cbn; lia. Qed.

Lemma top_is_self : forall o a b, top_is o (EBin o a b) = true.
Proof. intros [] a b; reflexivity. Qed.

Lemma follows_regen_lower : forall e p lv lv',
  normal ST NL p e = true -> follows_ok ST NL e lv = true -> lv' < lv ->
  follows_ok GT NL (regen e) lv' = true.
Proof.
  intros e p lv lv' Hn Hf Hlt. pose proof (follows_regen _ _ _ Hn Hf) as Hft.
  destruct (regen e) as [q|b|s|x pth|x|x|o1 a b] eqn:El;
    try (apply follows_antitone with (lv := lv); [exact Hft|lia]).
  assert (Hlv : lv <= lvS o1) by (apply (follows_top_level o1 e); [exact Hf|rewrite El; apply top_is_self]).
  pose proof (lvS_le_S_lvG o1) as Hg.
  unfold follows_top in Hft. destruct (lvG o1 <? lv) eqn:E1.
  - apply followsG_intro; [unfold rhsG; lia|].
    apply follows_antitone with (lv := lv); [exact Hft|lia].
  - apply follows_antitone with (lv := lv); [exact Hft|lia].
Qed.

Lemma follows_regen_same : forall e p lv,
  normal ST NL p e = true -> follows_ok ST NL e lv = true ->
  (forall c, top_is c (regen e) = true -> lv <= lvS c -> lv <= lvG c) ->
  follows_ok GT NL (regen e) lv = true.
Proof.
  intros e p lv Hn Hf Hc. apply follows_top_strong; [eapply follows_regen; eassumption|].
  intros c Ht. apply Hc; [exact Ht|]. eapply follows_top_level; eassumption.
Qed.

(* level p of the standard table corresponds to level p' of the generated one *)
Definition below (p p' : nat) : Prop := p' <= p /\ (p = 7 -> p' <= 6) /\ (p = 9 -> p' <= 8).

Lemma below_refl : forall p, p <> 7 -> p <> 9 -> below p p.
Proof. intros p H7 H9. unfold below. lia. Qed.

(* the regrouped tree is in the normal form of the generated table *)
Theorem normal_regen : forall e p p',
  normal ST NL p e = true -> below p p' -> normal GT NL p' (regen e) = true.
Proof.
  induction e as [q|b|s|x pth|x IHx|x IHx|o l IHl r IHr]; intros p p' Hn Hb; try exact Hn.
  - cbn [regen normal] in *. eapply IHx; [exact Hn|]. unfold impl_not_level. apply below_refl; lia.
  - cbn [regen normal] in *. eapply IHx; [exact Hn|]. unfold impl_paren_level. apply below_refl; lia.
  - apply normalS_inv in Hn. destruct Hn as (Hp & Hnl & Hfl & Hnr).
    assert (Hl : normal GT NL p' (regen l) = true) by (eapply IHl; eassumption).
    assert (Hr : normal GT NL (rhsG o) (regen r) = true).
    { eapply IHr; [eassumption|]. unfold below, rhsS, rhsG. destruct o; cbn; lia. }
    assert (Hp' : p' <= lvG o) by (unfold below in Hb; destruct o; cbn in *; lia).
    assert (Hgen : follows_ok GT NL (regen l) (lvG o) = true ->
                   normal GT NL p' (EBin o (regen l) (regen r)) = true).
    { intros Hc. apply normalG_intro; assumption. }
    assert (Hsame : forall c, top_is c (regen l) = true -> lvS o <= lvS c ->
                      o <> OMul -> o <> OSub -> o <> ODiv -> o <> OAdd -> lvS o <= lvG c).
    { intros c _ Hc. destruct o, c; cbn in *; intros; try lia; congruence. }
    destruct o; cbn [regen].
    1-8: apply Hgen; apply (follows_regen_same l p _ Hnl Hfl); intros c Ht Hc;
         apply (Hsame c Ht Hc); discriminate.
    + (* + *) apply Hgen. apply (follows_regen_lower l p (lvS OAdd)); [assumption|assumption|cbn; lia].
    + (* - *)
      destruct (sub_into_cases (regen l) (regen r)) as [[a [b [E ->]]]|[Et ->]].
      * pose proof (follows_regen _ _ _ Hnl Hfl) as Hft. rewrite E in *.
        apply normalG_inv in Hl. destruct Hl as (Ha1 & Ha2 & Ha3 & Ha4).
        unfold rhsG, rhsS in *. cbn [lvG lvS] in *.
        unfold follows_top in Hft. cbn [lvG] in Hft. change (6 <? 7) with true in Hft. cbn iota in Hft.
        apply normalG_intro; unfold rhsG; cbn [lvG]; try assumption; try lia.
        apply normalG_intro; unfold rhsG; cbn [lvG]; try assumption; lia.
      * apply Hgen. apply (follows_regen_same l p _ Hnl Hfl). intros c Ht Hc.
        destruct c; cbn in *; try lia. rewrite Ht in Et. discriminate.
    + (* * *)
      destruct (mul_into_cases (regen l) (regen r)) as [[a [b [E ->]]]|[Et ->]].
      * pose proof (follows_regen _ _ _ Hnl Hfl) as Hft. rewrite E in *.
        apply normalG_inv in Hl. destruct Hl as (Ha1 & Ha2 & Ha3 & Ha4).
        unfold rhsG, rhsS in *. cbn [lvG lvS] in *.
        unfold follows_top in Hft. cbn [lvG] in Hft. change (8 <? 9) with true in Hft. cbn iota in Hft.
        apply normalG_intro; unfold rhsG; cbn [lvG]; try assumption; try lia.
        apply normalG_intro; unfold rhsG; cbn [lvG]; try assumption; lia.
      * apply Hgen. apply (follows_regen_same l p _ Hnl Hfl). intros c Ht Hc.
        destruct c; cbn in *; try lia. rewrite Ht in Et. discriminate.
    + (* / *) apply Hgen. apply (follows_regen_lower l p (lvS ODiv)); [assumption|assumption|cbn; lia].
Qed.

Lemma regen_str : forall e s, regen e = EStr s -> e = EStr s.
Proof.
  intros [q|b|s0|x pth|x|x|o l r] s H; try discriminate H; try exact H.
  exfalso. destruct o; cbn [regen] in H; try discriminate H.
  - destruct (sub_into_cases (regen l) (regen r)) as [[a [b [E Hs]]]|[_ Hs]]; rewrite Hs in H; discriminate.
  - destruct (mul_into_cases (regen l) (regen r)) as [[a [b [E Hs]]]|[_ Hs]]; rewrite Hs in H; discriminate.
Qed.

Lemma expr_ok_regen : forall e, expr_ok ST NL e = true -> expr_ok GT NL (regen e) = true.
Proof.
  intros e H.
  assert (Hn : normal ST NL 0 e = true) by (destruct e; try exact H; discriminate).
  assert (Hg : normal GT NL 0 (regen e) = true) by (apply (normal_regen e 0 0 Hn); apply below_refl; lia).
  unfold expr_ok. destruct (regen e) eqn:E; try exact Hg.
  apply regen_str in E. subst e. discriminate.
Qed.

(* ---- what each parser reads ---- *)
(* For EVERY expression e in the normal form of the STANDARD table (these are exactly the
   trees the standard parser produces for their own text) the generated parser reads the text
   of e as [regen e]; the standard parser reads it as e. *)
Theorem gen_reads_regen : forall e f r,
  expr_ok ST NL e = true -> layout_head r -> length (toks_expr e) < f ->
  parse_expr GT NL (expr_fuel f) 0 (map DTok (toks_expr e) ++ r) = FOk (regen e, r)
  /\ parse_expr ST NL (expr_fuel f) 0 (map DTok (toks_expr e) ++ r) = FOk (e, r).
Proof.
  intros e f r Hok Hr Hf. split.
  - rewrite <- (toks_regen e). apply expr_roundtrip_any_table.
    + apply expr_ok_regen. exact Hok.
    + exact Hr.
    + rewrite toks_regen. exact Hf.
  - apply expr_roundtrip_any_table; assumption.
Qed.

(* ---- the regrouping is the identity exactly on the expressions without a critical
   adjacency ---- *)
Lemma regen_id_iff : forall e, regen e = e <-> no_div_then_mul e && no_add_then_sub e = true.
Proof.
  induction e as [q|b|s|x pth|x IHx|x IHx|o l IHl r IHr]; try (split; reflexivity).
  - cbn [regen no_div_then_mul no_add_then_sub]. rewrite <- IHx. split; [intros H; injection H; auto|intros ->; reflexivity].
  - cbn [regen no_div_then_mul no_add_then_sub]. rewrite <- IHx. split; [intros H; injection H; auto|intros ->; reflexivity].
  - cbn [no_div_then_mul no_add_then_sub].
    assert (Hsub : (regen l = l /\ regen r = r) <->
                   (no_div_then_mul l && no_div_then_mul r) && (no_add_then_sub l && no_add_then_sub r) = true).
    { split.
      - intros [El Er]. apply IHl in El. apply IHr in Er. apply andb_prop in El, Er.
        destruct El as [-> ->]. destruct Er as [-> ->]. reflexivity.
      - intros H. rewrite !andb_true_iff in H. destruct H as [[A B] [C D]].
        split; [apply IHl; rewrite A, C|apply IHr; rewrite B, D]; reflexivity. }
    assert (Hgen : EBin o (regen l) (regen r) = EBin o l r <-> (regen l = l /\ regen r = r)).
    { split; [intros H; injection H; auto|intros [-> ->]; reflexivity]. }
    destruct o; cbn [regen binop_eqb andb negb]; try (rewrite Hgen, Hsub; rewrite !andb_true_iff; tauto).
    + (* - *)
      destruct (sub_into_cases (regen l) (regen r)) as [[a [b [E ->]]]|[Et ->]].
      * split; [discriminate|]. intros H. exfalso.
        rewrite !andb_true_iff in H. destruct H as [[Hl1 _] [[Ht Hl2] _]].
        assert (El : regen l = l) by (apply IHl; rewrite Hl1, Hl2; reflexivity).
        rewrite El in E. rewrite E in Ht. discriminate.
      * rewrite Hgen. split.
        -- intros [El Er]. rewrite El in Et. rewrite Et. cbn [negb andb].
           apply Hsub. split; assumption.
        -- intros H. apply Hsub. rewrite !andb_true_iff in *. tauto.
    + (* * *)
      destruct (mul_into_cases (regen l) (regen r)) as [[a [b [E ->]]]|[Et ->]].
      * split; [discriminate|]. intros H. exfalso.
        rewrite !andb_true_iff in H. destruct H as [[[Ht Hl1] _] [Hl2 _]].
        assert (El : regen l = l) by (apply IHl; rewrite Hl1, Hl2; reflexivity).
        rewrite El in E. rewrite E in Ht. discriminate.
      * rewrite Hgen. split.
        -- intros [El Er]. rewrite El in Et. rewrite Et. cbn [negb andb].
           apply Hsub. split; assumption.
        -- intros H. apply Hsub. rewrite !andb_true_iff in *. tauto.
Qed.

Lemma regen_id : forall e, no_div_then_mul e = true -> no_add_then_sub e = true -> regen e = e.
Proof. intros e H1 H2. apply regen_id_iff. rewrite H1, H2. reflexivity. Qed.

(* C13, precedence clause, the part that holds: an expression in the normal form of the
   stated rules that contains no 'x / y * z' and no 'x + y - z' at one nesting level is
   read by the generated parser exactly as the stated rules demand. *)
Theorem C13_partial : forall e f r,
  expr_ok ST NL e = true -> no_div_then_mul e = true -> no_add_then_sub e = true ->
  layout_head r -> length (toks_expr e) < f ->
  parse_expr GT NL (expr_fuel f) 0 (map DTok (toks_expr e) ++ r) = FOk (e, r)
  /\ parse_expr ST NL (expr_fuel f) 0 (map DTok (toks_expr e) ++ r) = FOk (e, r).
Proof.
  intros e f r Hok H1 H2 Hr Hf. destruct (gen_reads_regen e f r Hok Hr Hf) as [Hg Hs].
  rewrite (regen_id e H1 H2) in Hg. split; assumption.
Qed.

(* ... and the guards are exact: for an expression in the standard normal form the two
   parsers agree on its text IF AND ONLY IF it contains neither adjacency *)
Theorem C13_guard_exact : forall e f r,
  expr_ok ST NL e = true -> layout_head r -> length (toks_expr e) < f ->
  (parse_expr GT NL (expr_fuel f) 0 (map DTok (toks_expr e) ++ r)
   = parse_expr ST NL (expr_fuel f) 0 (map DTok (toks_expr e) ++ r)
   <-> no_div_then_mul e && no_add_then_sub e = true).
Proof.
  intros e f r Hok Hr Hf. destruct (gen_reads_regen e f r Hok Hr Hf) as [Hg Hs].
  rewrite Hg, Hs. rewrite <- regen_id_iff. split.
  - intros H. injection H. auto.
  - intros ->. reflexivity.
Qed.

(* the same on the level of normal forms: a standard-normal tree is generated-normal iff the
   guards hold; every generated-normal tree satisfies the guards *)
Lemma normal_gen_guard : forall e p, normal GT NL p e = true -> no_div_then_mul e && no_add_then_sub e = true.
Proof.
  induction e as [q|b|s|x pth|x IHx|x IHx|o l IHl r IHr]; intros p Hn; try reflexivity.
  - cbn [normal] in Hn. exact (IHx _ Hn).
  - cbn [normal] in Hn. exact (IHx _ Hn).
  - apply normalG_inv in Hn. destruct Hn as (Hp & Hnl & Hfl & Hnr).
    specialize (IHl _ Hnl). specialize (IHr _ Hnr). apply andb_prop in IHl, IHr.
    destruct IHl as [Hl1 Hl2]. destruct IHr as [Hr1 Hr2].
    cbn [no_div_then_mul no_add_then_sub]. rewrite Hl1, Hl2, Hr1, Hr2. rewrite !andb_true_r.
    destruct o; try reflexivity; cbn [binop_eqb andb].
    + destruct (top_is OAdd l) eqn:E; [|reflexivity]. destruct (top_is_inv _ _ E) as [a [b ->]].
      apply followsG_inv in Hfl. unfold rhsG in Hfl. cbn in Hfl. lia.
    + destruct (top_is ODiv l) eqn:E; [|reflexivity]. destruct (top_is_inv _ _ E) as [a [b ->]].
      apply followsG_inv in Hfl. unfold rhsG in Hfl. cbn in Hfl. lia.
Qed.

Theorem normal_gen_iff_guard : forall e p p',
  normal ST NL p e = true -> below p p' ->
  (normal GT NL p' e = true <-> no_div_then_mul e && no_add_then_sub e = true).
Proof.
  intros e p p' Hn Hb. split.
  - apply normal_gen_guard.
  - intros H. apply regen_id_iff in H. rewrite <- H. eapply normal_regen; eassumption.
Qed.

(* ------------------------------------------------------------------------------------ *)
(* 4. Values: the '+ -' regrouping keeps the arithmetic value, the '/ *' one does not   *)
(* ------------------------------------------------------------------------------------ *)
Local Open Scope Q_scope.

(* equality of optional rationals up to Qeq *)
Definition oQeq (x y : option Q) : Prop :=
  match x, y with
  | Some a, Some b => a == b
  | None, None => True
  | _, _ => False
  end.

Lemma oQeq_refl : forall x, oQeq x x.
Proof. intros [a|]; cbn; [reflexivity|exact I]. Qed.

Lemma oQeq_sym : forall x y, oQeq x y -> oQeq y x.
Proof. intros [a|] [b|] H; cbn in *; try contradiction; [symmetry; exact H|exact I]. Qed.

Lemma oQeq_trans : forall x y z, oQeq x y -> oQeq y z -> oQeq x z.
Proof.
  intros [a|] [b|] [c|] H1 H2; cbn in *; try contradiction; try exact I.
  rewrite H1. exact H2.
Qed.

Lemma Qeq_bool_comp : forall a a' b b', a == a' -> b == b' -> Qeq_bool a b = Qeq_bool a' b'.
Proof.
  intros a a' b b' Ha Hb.
  destruct (Qeq_bool a b) eqn:E1, (Qeq_bool a' b') eqn:E2; try reflexivity.
  - apply Qeq_bool_iff in E1. rewrite Ha, Hb in E1. apply Qeq_bool_iff in E1. congruence.
  - apply Qeq_bool_iff in E2. rewrite <- Ha, <- Hb in E2. apply Qeq_bool_iff in E2. congruence.
Qed.

Lemma Qle_bool_comp : forall a a' b b', a == a' -> b == b' -> Qle_bool a b = Qle_bool a' b'.
Proof.
  intros a a' b b' Ha Hb.
  destruct (Qle_bool a b) eqn:E1, (Qle_bool a' b') eqn:E2; try reflexivity.
  - apply Qle_bool_iff in E1. rewrite Ha, Hb in E1. apply Qle_bool_iff in E1. congruence.
  - apply Qle_bool_iff in E2. rewrite <- Ha, <- Hb in E2. apply Qle_bool_iff in E2. congruence.
Qed.

Lemma ref_cmp_comp : forall o a a' b b', a == a' -> b == b' -> ref_cmp o a b = ref_cmp o a' b'.
Proof.
  intros o a a' b b' Ha Hb. unfold ref_cmp, Qlt_bool.
  destruct o; try reflexivity;
    rewrite ?(Qle_bool_comp a a' b b' Ha Hb), ?(Qle_bool_comp b b' a a' Hb Ha), ?(Qeq_bool_comp a a' b b' Ha Hb);
    reflexivity.
Qed.

Section Values.
  Variable rho : name -> option value.
  Notation rnum := (ref_num rho).
  Notation rbool := (ref_bool rho).

  (* the arithmetic value respects Qeq of the operands' values *)
  Lemma ref_num_congr : forall o l l' r r',
    oQeq (rnum l) (rnum l') -> oQeq (rnum r) (rnum r') ->
    oQeq (rnum (EBin o l r)) (rnum (EBin o l' r')).
  Proof.
    intros o l l' r r' Hl Hr. cbn [ref_num].
    destruct (rnum l) as [a|], (rnum l') as [a'|]; cbn in Hl; try contradiction;
    destruct (rnum r) as [b|], (rnum r') as [b'|]; cbn in Hr; try contradiction;
    destruct o; cbn; try exact I; try (rewrite Hl, Hr; reflexivity).
    rewrite (Qeq_bool_comp b b' 0 0 Hr (Qeq_refl 0)).
    destruct (Qeq_bool b' 0); cbn; [exact I|]. rewrite Hl, Hr. reflexivity.
  Qed.

  (* ... and so do the decisions: comparisons via Qle_bool / Qeq_bool, == and != on booleans *)
  Lemma ref_bool_congr : forall o l l' r r',
    oQeq (rnum l) (rnum l') -> oQeq (rnum r) (rnum r') -> rbool l = rbool l' -> rbool r = rbool r' ->
    rbool (EBin o l r) = rbool (EBin o l' r').
  Proof.
    intros o l l' r r' Hl Hr Bl Br. cbn [ref_bool]. rewrite <- Bl, <- Br.
    destruct (rnum l) as [a|], (rnum l') as [a'|]; cbn in Hl; try contradiction;
    destruct (rnum r) as [b|], (rnum r') as [b'|]; cbn in Hr; try contradiction;
    destruct o; try reflexivity;
    apply (ref_cmp_comp _ a a' b b' Hl Hr).
  Qed.

  Lemma ref_bool_arith : forall o l r, lvS o = 9%nat \/ lvS o = 7%nat -> rbool (EBin o l r) = None.
  Proof.
    intros o l r H. cbn [ref_bool].
    destruct o; cbn in H; try (exfalso; lia); destruct (rnum l), (rnum r); reflexivity.
  Qed.

  (* x + (y - z)  has the value of  (x + y) - z *)
  Lemma sub_regroup_value : forall x y z,
    oQeq (rnum (EBin OAdd x (EBin OSub y z))) (rnum (EBin OSub (EBin OAdd x y) z)).
  Proof.
    intros x y z. cbn [ref_num].
    destruct (rnum x) as [a|], (rnum y) as [b|], (rnum z) as [c|]; cbn; try exact I. ring.
  Qed.

  Lemma top_div_regen : forall e, no_div_then_mul e = true -> top_is ODiv (regen e) = top_is ODiv e.
  Proof.
    induction e as [q|b|s|x pth|x IHx|x IHx|o l IHl r IHr]; intros Hg; try reflexivity.
    cbn [no_div_then_mul] in Hg. apply andb_prop in Hg. destruct Hg as [Hg Hgr].
    apply andb_prop in Hg. destruct Hg as [Ht Hgl].
    destruct o; try reflexivity; cbn [regen].
    - destruct (sub_into_cases (regen l) (regen r)) as [[a [b [E ->]]]|[_ ->]]; reflexivity.
    - cbn in Ht. apply negb_true_iff in Ht. rewrite mul_into_other; [reflexivity|].
      rewrite (IHl Hgl). exact Ht.
  Qed.

  (* Without  (x / y) * z  the regrouped tree (what the generated parser builds) has the same
     arithmetic value and the same truth value as the tree the stated rules demand. *)
  Theorem regen_value : forall e, no_div_then_mul e = true ->
    oQeq (rnum (regen e)) (rnum e) /\ rbool (regen e) = rbool e.
  Proof.
    induction e as [q|b|s|x pth|x IHx|x IHx|o l IHl r IHr]; intros Hg;
      try (split; [apply oQeq_refl|reflexivity]).
    - cbn [no_div_then_mul] in Hg. destruct (IHx Hg) as [_ Hb]. split; [exact I|].
      cbn [regen ref_bool]. rewrite Hb. reflexivity.
    - cbn [no_div_then_mul] in Hg. exact (IHx Hg).
    - pose proof Hg as Hg0.
      cbn [no_div_then_mul] in Hg. apply andb_prop in Hg. destruct Hg as [Hg Hgr].
      apply andb_prop in Hg. destruct Hg as [Ht Hgl].
      destruct (IHl Hgl) as [Nl Bl]. destruct (IHr Hgr) as [Nr Br].
      assert (Hgen : oQeq (rnum (EBin o (regen l) (regen r))) (rnum (EBin o l r))
                     /\ rbool (EBin o (regen l) (regen r)) = rbool (EBin o l r)).
      { split; [apply ref_num_congr|apply ref_bool_congr]; assumption. }
      destruct o; try exact Hgen; cbn [regen].
      + (* - *)
        destruct (sub_into_cases (regen l) (regen r)) as [[a [b [E ->]]]|[_ ->]]; [|exact Hgen].
        split.
        * eapply oQeq_trans; [apply sub_regroup_value|]. rewrite <- E. exact (proj1 Hgen).
        * rewrite !ref_bool_arith by (cbn; auto). reflexivity.
      + (* * *)
        cbn in Ht. apply negb_true_iff in Ht.
        rewrite mul_into_other; [exact Hgen|]. rewrite (top_div_regen l Hgl). exact Ht.
  Qed.
End Values.

(* C13, the '+ -' half: for every expression in the standard normal form WITHOUT 'x / y * z'
   (it may contain 'x + y - z' anywhere) the generated parser builds a tree e' — in general
   different from the tree e the stated rules demand — with the same arithmetic value (Qeq)
   and the same truth value under every valuation; the scheduler's decision on e' is the
   truth value of e. *)
Theorem C13_value_partial : forall e f r,
  expr_ok ST NL e = true -> no_div_then_mul e = true ->
  layout_head r -> (length (toks_expr e) < f)%nat ->
  exists e',
    parse_expr GT NL (expr_fuel f) 0 (map DTok (toks_expr e) ++ r) = FOk (e', r)
    /\ parse_expr ST NL (expr_fuel f) 0 (map DTok (toks_expr e) ++ r) = FOk (e, r)
    /\ forall rho,
         oQeq (ref_num rho e') (ref_num rho e) /\ ref_bool rho e' = ref_bool rho e
         /\ forall b k, ref_bool rho e = Some b ->
              exists k', decide expected_ops (fun _ v => rho v) e' k = Ok (b, k').
Proof.
  intros e f r Hok Hg Hr Hf. exists (regen e).
  destruct (gen_reads_regen e f r Hok Hr Hf) as [H1 H2]. split; [exact H1|split; [exact H2|]].
  intros rho. destruct (regen_value rho e Hg) as [Hn Hb]. split; [exact Hn|split; [exact Hb|]].
  intros b k Hbe. apply (decide_is_truth_value rho). rewrite Hb. exact Hbe.
Qed.

(* ---- the '/ *' half is false: the two readings of  x / y * z  differ in value ---- *)
Lemma div_mul_differ_Q : forall a b c : Q,
  ~ a == 0 -> ~ b == 0 -> ~ c == 0 -> ~ c * c == 1 -> ~ a / (b * c) == a / b * c.
Proof.
  intros a b c Ha Hb Hc Hcc H.
  assert (E1 : a / (b * c) * (b * c) == a) by (field; split; assumption).
  assert (E2 : a / b * c * (b * c) == a * (c * c)) by (field; assumption).
  rewrite H in E1. rewrite E2 in E1.
  assert (E3 : a * (c * c - 1) == 0).
  { setoid_replace (a * (c * c - 1)) with (a * (c * c) - a) by ring. rewrite E1. ring. }
  apply Qmult_integral in E3. destruct E3 as [E3|E3]; [exact (Ha E3)|].
  apply Hcc. rewrite <- (Qplus_0_l 1). rewrite <- E3. ring.
Qed.

(* the guard a <> 0 is needed: 0 / y * z is 0 under both readings *)
Lemma div_mul_agree_at_zero : forall b c : Q, 0 / (b * c) == 0 / b * c.
Proof. intros b c. unfold Qdiv. ring. Qed.

(* ... and so is c * c <> 1 *)
Lemma div_mul_agree_at_one : forall a b c : Q, ~ b == 0 -> c * c == 1 -> a / (b * c) == a / b * c.
Proof.
  intros a b c Hb Hcc.
  assert (Hc : ~ c == 0). { intros E. rewrite E in Hcc. discriminate Hcc. }
  assert (E : a / (b * c) == a / b * c * / (c * c)) by (field; split; assumption).
  rewrite E, Hcc. field. exact Hb.
Qed.

Theorem div_mul_values_differ : forall rho x y z a b c,
  ref_num rho x = Some a -> ref_num rho y = Some b -> ref_num rho z = Some c ->
  ~ a == 0 -> ~ b == 0 -> ~ c == 0 -> ~ c * c == 1 ->
  exists u v,
    (* the generated parser's reading *)
    ref_num rho (EBin ODiv x (EBin OMul y z)) = Some u
    (* the reading the stated rules demand *)
    /\ ref_num rho (EBin OMul (EBin ODiv x y) z) = Some v
    /\ ~ u == v
    (* the decision  x / y * z == w  with w the standard value: true as stated, false as parsed *)
    /\ ref_bool rho (EBin OEq (EBin OMul (EBin ODiv x y) z) (ENum v)) = Some true
    /\ ref_bool rho (EBin OEq (EBin ODiv x (EBin OMul y z)) (ENum v)) = Some false.
Proof.
  intros rho x y z a b c Hx Hy Hz Ha Hb Hc Hcc.
  assert (Hb0 : Qeq_bool b 0 = false).
  { destruct (Qeq_bool b 0) eqn:E; [|reflexivity]. apply Qeq_bool_iff in E. contradiction. }
  assert (Hbc0 : Qeq_bool (b * c) 0 = false).
  { destruct (Qeq_bool (b * c) 0) eqn:E; [|reflexivity]. apply Qeq_bool_iff in E.
    apply Qmult_integral in E. destruct E; contradiction. }
  pose proof (div_mul_differ_Q a b c Ha Hb Hc Hcc) as Hd.
  exists (a / (b * c)), (a / b * c).
  assert (N1 : ref_num rho (EBin ODiv x (EBin OMul y z)) = Some (a / (b * c))).
  { cbn [ref_num]. rewrite Hx, Hy, Hz, Hbc0. reflexivity. }
  assert (N2 : ref_num rho (EBin OMul (EBin ODiv x y) z) = Some (a / b * c)).
  { cbn [ref_num]. rewrite Hx, Hy, Hz, Hb0. reflexivity. }
  split; [exact N1|split; [exact N2|split; [exact Hd|split]]].
  - change (ref_bool rho (EBin OEq ?l ?r))
      with (match ref_num rho l, ref_num rho r with
            | Some a0, Some b0 => ref_cmp OEq a0 b0
            | _, _ => match ref_bool rho l, ref_bool rho r with
                      | Some a0, Some b0 => Some (Bool.eqb a0 b0) | _, _ => None end
            end).
    rewrite N2. cbn [ref_num ref_cmp]. f_equal. apply Qeq_bool_iff. reflexivity.
  - change (ref_bool rho (EBin OEq ?l ?r))
      with (match ref_num rho l, ref_num rho r with
            | Some a0, Some b0 => ref_cmp OEq a0 b0
            | _, _ => match ref_bool rho l, ref_bool rho r with
                      | Some a0, Some b0 => Some (Bool.eqb a0 b0) | _, _ => None end
            end).
    rewrite N1. cbn [ref_num ref_cmp]. f_equal.
    destruct (Qeq_bool (a / (b * c)) (a / b * c)) eqn:E; [|reflexivity].
    apply Qeq_bool_iff in E. contradiction.
Qed.

(* the refutation on the level of the parsers: every text  x / y * z  (x, y, z themselves free
   of the adjacency, non-zero values, z * z <> 1) is read by the generated parser as a tree
   whose value differs from the value of the tree the stated rules demand *)
Theorem C13_div_then_mul_refuted : forall x y z f r rho a b c,
  expr_ok ST NL (EBin OMul (EBin ODiv x y) z) = true ->
  no_div_then_mul x = true -> no_div_then_mul y = true -> no_div_then_mul z = true ->
  layout_head r -> (length (toks_expr (EBin OMul (EBin ODiv x y) z)) < f)%nat ->
  ref_num rho x = Some a -> ref_num rho y = Some b -> ref_num rho z = Some c ->
  ~ a == 0 -> ~ b == 0 -> ~ c == 0 -> ~ c * c == 1 ->
  exists e' u v,
    parse_expr GT NL (expr_fuel f) 0 (map DTok (toks_expr (EBin OMul (EBin ODiv x y) z)) ++ r) = FOk (e', r)
    /\ parse_expr ST NL (expr_fuel f) 0 (map DTok (toks_expr (EBin OMul (EBin ODiv x y) z)) ++ r)
       = FOk (EBin OMul (EBin ODiv x y) z, r)
    /\ ref_num rho e' = Some u /\ ref_num rho (EBin OMul (EBin ODiv x y) z) = Some v /\ ~ u == v.
Proof.
  intros x y z f r rho a b c Hok Gx Gy Gz Hr Hf Hx Hy Hz Ha Hb Hc Hcc.
  destruct (gen_reads_regen _ f r Hok Hr Hf) as [H1 H2].
  assert (Hsome : forall e q, no_div_then_mul e = true -> ref_num rho e = Some q ->
                    exists q', ref_num rho (regen e) = Some q' /\ q' == q).
  { intros e q G E. destruct (regen_value rho e G) as [Hn _]. rewrite E in Hn.
    destruct (ref_num rho (regen e)) as [q'|]; [|contradiction]. exists q'. split; [reflexivity|exact Hn]. }
  destruct (Hsome x a Gx Hx) as [a' [Ea Qa]]. destruct (Hsome y b Gy Hy) as [b' [Eb Qb]].
  destruct (Hsome z c Gz Hz) as [c' [Ec Qc]].
  assert (Ha' : ~ a' == 0) by (rewrite Qa; exact Ha).
  assert (Hb' : ~ b' == 0) by (rewrite Qb; exact Hb).
  assert (Hc' : ~ c' == 0) by (rewrite Qc; exact Hc).
  assert (Hcc' : ~ c' * c' == 1) by (rewrite Qc; exact Hcc).
  destruct (div_mul_values_differ rho (regen x) (regen y) (regen z) a' b' c' Ea Eb Ec Ha' Hb' Hc' Hcc')
    as [u [v' [N1 [_ [Hd _]]]]].
  destruct (div_mul_values_differ rho x y z a b c Hx Hy Hz Ha Hb Hc Hcc) as [_ [v [_ [N2 _]]]].
  exists (regen (EBin OMul (EBin ODiv x y) z)), u, v.
  split; [exact H1|split; [exact H2|split; [exact N1|split; [exact N2|]]]].
  (* u = a'/(b'*c'), v = a/b*c *)
  cbn [ref_num] in N1, N2. rewrite Ea, Eb, Ec in N1. rewrite Hx, Hy, Hz in N2.
  destruct (Qeq_bool (b' * c') 0); [discriminate|]. destruct (Qeq_bool b 0); [discriminate|].
  injection N1 as <-. injection N2 as <-. rewrite Qa, Qb, Qc.
  apply div_mul_differ_Q; assumption.
Qed.

(* ---- the minimal counterexample: five tokens ---- *)
Definition d14_tokens : list tok := [TInt 8; OpSlash; TInt 2; OpStar; TInt 2].
Definition d14_generated_tree : expr := EBin ODiv (ENum 8) (EBin OMul (ENum 2) (ENum 2)).
Definition d14_stated_tree : expr := EBin OMul (EBin ODiv (ENum 8) (ENum 2)) (ENum 2).

Theorem C13_standard_precedence_refuted :
  parse_expr GT NL (expr_fuel 6) 0 (map DTok d14_tokens ++ [DNL]) = FOk (d14_generated_tree, [DNL])
  /\ parse_expr ST NL (expr_fuel 6) 0 (map DTok d14_tokens ++ [DNL]) = FOk (d14_stated_tree, [DNL])
  /\ (forall rho, oQeq (ref_num rho d14_generated_tree) (Some 2) /\ oQeq (ref_num rho d14_stated_tree) (Some 8))
  /\ ~ 2 == 8
  /\ (forall rho, ref_bool rho (EBin OEq d14_generated_tree (ENum 8)) = Some false
                  /\ ref_bool rho (EBin OEq d14_stated_tree (ENum 8)) = Some true).
Proof.
  split; [vm_compute; reflexivity|]. split; [vm_compute; reflexivity|].
  split; [intros rho; split; vm_compute; reflexivity|].
  split; [intros H; discriminate H|].
  intros rho; split; vm_compute; reflexivity.
Qed.

(* the '+ -' counterpart: the trees differ, the values do not *)
Definition add_sub_tokens : list tok := [TInt 1; OpPlus; TInt 2; OpMinus; TInt 3].

Example add_then_sub_trees_differ :
  parse_expr GT NL (expr_fuel 6) 0 (map DTok add_sub_tokens ++ [DNL])
    = FOk (EBin OAdd (ENum 1) (EBin OSub (ENum 2) (ENum 3)), [DNL])
  /\ parse_expr ST NL (expr_fuel 6) 0 (map DTok add_sub_tokens ++ [DNL])
    = FOk (EBin OSub (EBin OAdd (ENum 1) (ENum 2)) (ENum 3), [DNL])
  /\ (forall rho, oQeq (ref_num rho (EBin OAdd (ENum 1) (EBin OSub (ENum 2) (ENum 3)))) (Some 0)
                  /\ oQeq (ref_num rho (EBin OSub (EBin OAdd (ENum 1) (ENum 2)) (ENum 3))) (Some 0)).
Proof.
  split; [vm_compute; reflexivity|]. split; [vm_compute; reflexivity|].
  intros rho; split; vm_compute; reflexivity.
Qed.

(* ------------------------------------------------------------------------------------ *)
(* 5. Two operators, any table: which one gets the middle operand                       *)
(* ------------------------------------------------------------------------------------ *)
Local Close Scope Q_scope.
Local Open Scope nat_scope.

(* operands that need no parentheses anywhere: literals and attribute paths *)
Definition atomic (e : expr) : bool :=
  match e with
  | ENum _ | EBool _ | EStr _ => true
  | EPath _ p => path_ok p
  | _ => false
  end.

Lemma atomic_normal : forall T e p lv, atomic e = true ->
  normal T NL p e = true /\ follows_ok T NL e lv = true.
Proof. intros T [q|b|s|x pth|x|x|o l r] p lv H; try discriminate; split; try reflexivity; exact H. Qed.

Lemma atomic_regen : forall e, atomic e = true -> regen e = e.
Proof. intros [q|b|s|x pth|x|x|o l r] H; try discriminate; reflexivity. Qed.

Lemma toks_two_ops : forall o1 o2 a b c,
  toks_expr (EBin o2 (EBin o1 a b) c) = toks_expr (EBin o1 a (EBin o2 b c)).
Proof. intros. cbn [toks_expr]. rewrite <- app_assoc. reflexivity. Qed.

(* For ANY level table: the text  a o1 b o2 c  (a, b, c atomic) is read as (a o1 b) o2 c when
   the level of o2 is below the level at which o1 reads its right operand, and as
   a o1 (b o2 c) otherwise. *)
Theorem two_ops_any_table : forall T o1 o2 lv1 rhs1 lv2 rhs2 a b c f r,
  level_of T o1 = Some (lv1, rhs1) -> level_of T o2 = Some (lv2, rhs2) ->
  atomic a = true -> atomic b = true -> atomic c = true ->
  layout_head r -> length (toks_expr (EBin o2 (EBin o1 a b) c)) < f ->
  parse_expr T NL (expr_fuel f) 0 (map DTok (toks_expr (EBin o2 (EBin o1 a b) c)) ++ r)
  = FOk (if lv2 <? rhs1 then EBin o2 (EBin o1 a b) c else EBin o1 a (EBin o2 b c), r).
Proof.
  intros T o1 o2 lv1 rhs1 lv2 rhs2 a b c f r L1 L2 Ha Hb Hc Hr Hf.
  destruct (lv2 <? rhs1) eqn:E.
  - apply expr_roundtrip_any_table; [|exact Hr|exact Hf].
    cbn [expr_ok normal follows_ok]. rewrite L1, L2, E.
    rewrite (proj1 (atomic_normal T a 0 lv1 Ha)), (proj2 (atomic_normal T a 0 lv1 Ha)).
    rewrite (proj1 (atomic_normal T b rhs1 lv2 Hb)), (proj2 (atomic_normal T b rhs1 lv2 Hb)).
    rewrite (proj1 (atomic_normal T c rhs2 0 Hc)). reflexivity.
  - rewrite toks_two_ops in *. apply expr_roundtrip_any_table; [|exact Hr|exact Hf].
    apply Nat.ltb_ge in E. apply Nat.leb_le in E.
    cbn [expr_ok normal follows_ok]. rewrite L1, L2, E.
    rewrite (proj1 (atomic_normal T a 0 lv1 Ha)), (proj2 (atomic_normal T a 0 lv1 Ha)).
    rewrite (proj1 (atomic_normal T b rhs1 lv2 Hb)), (proj2 (atomic_normal T b rhs1 lv2 Hb)).
    rewrite (proj1 (atomic_normal T c rhs2 0 Hc)). reflexivity.
Qed.

(* the stated rules: o2 takes the middle operand iff it binds strictly tighter *)
Definition groups_left_stated (o1 o2 : binop) : bool := lvS o2 <=? lvS o1.
Definition groups_left_generated (o1 o2 : binop) : bool := lvG o2 <=? lvG o1.

Theorem two_ops_stated : forall o1 o2 a b c f r,
  atomic a = true -> atomic b = true -> atomic c = true ->
  layout_head r -> length (toks_expr (EBin o2 (EBin o1 a b) c)) < f ->
  parse_expr ST NL (expr_fuel f) 0 (map DTok (toks_expr (EBin o2 (EBin o1 a b) c)) ++ r)
  = FOk (if groups_left_stated o1 o2 then EBin o2 (EBin o1 a b) c else EBin o1 a (EBin o2 b c), r).
Proof.
  intros o1 o2 a b c f r Ha Hb Hc Hr Hf.
  rewrite (two_ops_any_table ST o1 o2 _ _ _ _ a b c f r (level_std o1) (level_std o2) Ha Hb Hc Hr Hf).
  unfold groups_left_stated, rhsS. reflexivity.
Qed.

Theorem two_ops_generated : forall o1 o2 a b c f r,
  atomic a = true -> atomic b = true -> atomic c = true ->
  layout_head r -> length (toks_expr (EBin o2 (EBin o1 a b) c)) < f ->
  parse_expr GT NL (expr_fuel f) 0 (map DTok (toks_expr (EBin o2 (EBin o1 a b) c)) ++ r)
  = FOk (if groups_left_generated o1 o2 then EBin o2 (EBin o1 a b) c else EBin o1 a (EBin o2 b c), r).
Proof.
  intros o1 o2 a b c f r Ha Hb Hc Hr Hf.
  rewrite (two_ops_any_table GT o1 o2 _ _ _ _ a b c f r (level_gen o1) (level_gen o2) Ha Hb Hc Hr Hf).
  unfold groups_left_generated, rhsG. reflexivity.
Qed.

(* the generated table decides every pair of operators as stated except '/ then *' and
   '+ then -' *)
Theorem grouping_agrees_except : forall o1 o2,
  groups_left_generated o1 o2 = groups_left_stated o1 o2
  <-> ~ ((o1 = ODiv /\ o2 = OMul) \/ (o1 = OAdd /\ o2 = OSub)).
Proof.
  intros o1 o2. split.
  - intros H [[-> ->]|[-> ->]]; discriminate H.
  - intros H. destruct o1, o2; try reflexivity; exfalso; apply H; auto.
Qed.

(* operators of different stated rank are ordered by the generated table as stated *)
Theorem generated_keeps_rank_order : forall o1 o2, lvS o1 < lvS o2 -> lvG o1 < lvG o2.
Proof. intros [] []; cbn; lia. Qed.

(* equal rank associates to the left: one operator repeated, under both tables *)
Theorem left_assoc_both_tables : forall o a b c f r,
  atomic a = true -> atomic b = true -> atomic c = true ->
  layout_head r -> length (toks_expr (EBin o (EBin o a b) c)) < f ->
  parse_expr GT NL (expr_fuel f) 0 (map DTok (toks_expr (EBin o (EBin o a b) c)) ++ r)
    = FOk (EBin o (EBin o a b) c, r)
  /\ parse_expr ST NL (expr_fuel f) 0 (map DTok (toks_expr (EBin o (EBin o a b) c)) ++ r)
    = FOk (EBin o (EBin o a b) c, r).
Proof.
  intros o a b c f r Ha Hb Hc Hr Hf. split.
  - rewrite (two_ops_generated o o a b c f r Ha Hb Hc Hr Hf).
    unfold groups_left_generated. rewrite Nat.leb_refl. reflexivity.
  - rewrite (two_ops_stated o o a b c f r Ha Hb Hc Hr Hf).
    unfold groups_left_stated. rewrite Nat.leb_refl. reflexivity.
Qed.

(* equal stated rank, two different operators: left under the stated table; under the
   generated table left for '* then /' and '- then +', RIGHT for '/ then *' and '+ then -' *)
Theorem equal_rank_generated : forall o1 o2 a b c f r,
  lvS o1 = lvS o2 ->
  atomic a = true -> atomic b = true -> atomic c = true ->
  layout_head r -> length (toks_expr (EBin o2 (EBin o1 a b) c)) < f ->
  parse_expr ST NL (expr_fuel f) 0 (map DTok (toks_expr (EBin o2 (EBin o1 a b) c)) ++ r)
    = FOk (EBin o2 (EBin o1 a b) c, r)
  /\ parse_expr GT NL (expr_fuel f) 0 (map DTok (toks_expr (EBin o2 (EBin o1 a b) c)) ++ r)
    = FOk (if binop_eqb o1 ODiv && binop_eqb o2 OMul || binop_eqb o1 OAdd && binop_eqb o2 OSub
           then EBin o1 a (EBin o2 b c) else EBin o2 (EBin o1 a b) c, r).
Proof.
  intros o1 o2 a b c f r Hl Ha Hb Hc Hr Hf. split.
  - rewrite (two_ops_stated o1 o2 a b c f r Ha Hb Hc Hr Hf).
    unfold groups_left_stated. rewrite Hl, Nat.leb_refl. reflexivity.
  - rewrite (two_ops_generated o1 o2 a b c f r Ha Hb Hc Hr Hf).
    destruct o1, o2; cbn in Hl; try lia; reflexivity.
Qed.

(* ------------------------------------------------------------------------------------ *)
(* 6. Whole programs: the two front ends                                                *)
(* ------------------------------------------------------------------------------------ *)
(* the front end with an arbitrary level table; [front_end] and [front_end_standard] are the
   instances for the generated and the stated table *)
Definition front_end_with (T : level_table) (t : text) : fres program :=
  do p <- parse_program T NL (fuel_for (denter t)) (denter t) ;;
  if visitor_errors p then FVisitor else FOk p.

Lemma front_end_is_generated : forall t, front_end t = front_end_with GT t.
Proof. reflexivity. Qed.

Lemma front_end_standard_is_stated : forall t, front_end_standard t = front_end_with ST t.
Proof. reflexivity. Qed.

(* round trip of whole programs for ANY level table *)
Theorem front_end_any_table : forall T t p,
  prog_ok T NL p = true -> canon t = Some (flatten 0 (forest_of p)) -> front_end_with T t = FOk p.
Proof.
  intros T t [ss ts] Hok Hc. unfold front_end_with. rewrite (denter_skeleton _ _ Hc).
  pose proof (prog_ok_no_visitor_errors T NL _ Hok) as Hv.
  unfold prog_ok in Hok. cbn [p_structs p_tasks] in Hok.
  apply andb_prop in Hok. destruct Hok as [Hok Htasks]. apply andb_prop in Hok. destruct Hok as [_ Hstructs].
  assert (Hp : parse_program T NL (fuel_for (skeleton (flatten 0 (forest_of {| p_structs := ss; p_tasks := ts |}))))
                 (skeleton (flatten 0 (forest_of {| p_structs := ss; p_tasks := ts |})))
               = FOk {| p_structs := ss; p_tasks := ts |}).
  { unfold forest_of. cbn [p_structs p_tasks].
    destruct (flat_map forest_struct ss ++ flat_map forest_task ts) as [|k0 k] eqn:E.
    - assert (ss = [] /\ ts = []) as [-> ->].
      { apply app_eq_nil in E. destruct E as [E1 E2]. split.
        - destruct ss as [|s ss]; [reflexivity|]. destruct s; discriminate.
        - destruct ts as [|t0 ts]; [reflexivity|]. destruct t0; discriminate. }
      reflexivity.
    - rewrite <- E. rewrite skeleton_flatten by (rewrite E; discriminate).
      unfold fuel_for.
      apply (parse_program_rt T NL (expr_roundtrip T NL) ss ts); try assumption.
      pose proof (items_len ss ts). rewrite app_length. cbn [length]. lia. }
  rewrite Hp. cbn [fbind]. rewrite Hv. reflexivity.
Qed.

(* ---- regrouping every guard of a program ---- *)
Fixpoint regen_stmt (s : stmt) : stmt :=
  match s with
  | SWhile e body => SWhile (regen e) (map regen_stmt body)
  | SCount par v lim body => SCount par v lim (map regen_stmt body)
  | SCond e a b => SCond (regen e) (map regen_stmt a) (map regen_stmt b)
  | _ => s
  end.

Definition regen_task (t : task) : task :=
  {| t_name := t_name t; t_ins := t_ins t; t_body := map regen_stmt (t_body t); t_outs := t_outs t |}.

Definition regen_prog (p : program) : program :=
  {| p_structs := p_structs p; p_tasks := map regen_task (p_tasks p) |}.

(* every guard of the program is free of both adjacencies *)
Definition expr_guard (e : expr) : bool := no_div_then_mul e && no_add_then_sub e.

Fixpoint stmt_guard (s : stmt) : bool :=
  match s with
  | SWhile e body => expr_guard e && forallb stmt_guard body
  | SCount _ _ _ body => forallb stmt_guard body
  | SCond e a b => expr_guard e && forallb stmt_guard a && forallb stmt_guard b
  | _ => true
  end.

Definition prog_guard (p : program) : bool :=
  forallb (fun t => forallb stmt_guard (t_body t)) (p_tasks p).

Lemma stmt_ok_while : forall T e body,
  stmt_ok T NL (SWhile e body) =
  expr_ok T NL e && match body with [] => false | _ => true end && forallb (stmt_ok T NL) body.
Proof. reflexivity. Qed.

Lemma stmt_ok_count : forall T par v lim body,
  stmt_ok T NL (SCount par v lim body) =
  limit_ok lim && match body with [] => false | _ => true end && forallb (stmt_ok T NL) body.
Proof. reflexivity. Qed.

Lemma stmt_ok_cond : forall T e a b,
  stmt_ok T NL (SCond e a b) =
  expr_ok T NL e && match a with [] => false | _ => true end
  && forallb (stmt_ok T NL) a && forallb (stmt_ok T NL) b.
Proof. reflexivity. Qed.

Lemma map_nonempty : forall (A B : Type) (g : A -> B) (l : list A) (X Y : bool),
  match map g l with [] => X | _ => Y end = match l with [] => X | _ => Y end.
Proof. intros A B g [|x l] X Y; reflexivity. Qed.

Lemma forallb_map_Forall : forall (P Q : stmt -> bool) (g : stmt -> stmt) l,
  Forall (fun s => P s = true -> Q (g s) = true) l ->
  forallb P l = true -> forallb Q (map g l) = true.
Proof.
  induction l as [|x l IH]; intros HF H; [reflexivity|].
  pose proof (Forall_inv HF) as H1. pose proof (Forall_inv_tail HF) as H2.
  cbn [forallb map] in *. apply andb_prop in H. destruct H as [Hx Hl].
  rewrite (H1 Hx), (IH H2 Hl). reflexivity.
Qed.

Lemma stmt_ok_regen : forall s, stmt_ok ST NL s = true -> stmt_ok GT NL (regen_stmt s) = true.
Proof.
  induction s as [n ins outs|c|cs|e body IH|par v lim body IH|e a b IHa IHb] using stmt_ind'; intros Hok;
    try exact Hok.
  - cbn [regen_stmt]. rewrite stmt_ok_while in *. rewrite map_nonempty.
    apply andb_prop in Hok. destruct Hok as [Hok Hb]. apply andb_prop in Hok. destruct Hok as [He Hne].
    rewrite (expr_ok_regen e He), Hne. cbn [andb]. exact (forallb_map_Forall _ _ _ _ IH Hb).
  - cbn [regen_stmt]. rewrite stmt_ok_count in *. rewrite map_nonempty.
    apply andb_prop in Hok. destruct Hok as [Hok Hb]. rewrite Hok. cbn [andb].
    exact (forallb_map_Forall _ _ _ _ IH Hb).
  - cbn [regen_stmt]. rewrite stmt_ok_cond in *. rewrite map_nonempty.
    apply andb_prop in Hok. destruct Hok as [Hok Hb]. apply andb_prop in Hok. destruct Hok as [Hok Ha].
    apply andb_prop in Hok. destruct Hok as [He Hne].
    rewrite (expr_ok_regen e He), Hne. cbn [andb].
    rewrite (forallb_map_Forall _ _ _ _ IHa Ha), (forallb_map_Forall _ _ _ _ IHb Hb). reflexivity.
Qed.

Lemma flat_map_map_ext : forall (A B : Type) (g : A -> A) (h : A -> list B) l,
  Forall (fun x => h (g x) = h x) l -> flat_map h (map g l) = flat_map h l.
Proof.
  induction l as [|x l IH]; intros HF; [reflexivity|].
  pose proof (Forall_inv HF) as H1. pose proof (Forall_inv_tail HF) as H2.
  cbn [map flat_map]. rewrite H1, (IH H2). reflexivity.
Qed.

Lemma forest_stmt_regen : forall s, forest_stmt (regen_stmt s) = forest_stmt s.
Proof.
  induction s as [n ins outs|c|cs|e body IH|par v lim body IH|e a b IHa IHb] using stmt_ind'; try reflexivity.
  - cbn [regen_stmt]. rewrite !forest_while. rewrite toks_regen. unfold forest_stmts.
    rewrite (flat_map_map_ext _ _ _ _ _ IH). reflexivity.
  - cbn [regen_stmt]. rewrite !forest_count. unfold forest_stmts.
    rewrite (flat_map_map_ext _ _ _ _ _ IH). reflexivity.
  - cbn [regen_stmt]. rewrite !forest_cond. rewrite toks_regen. unfold forest_stmts.
    rewrite (flat_map_map_ext _ _ _ _ _ IHa), (flat_map_map_ext _ _ _ _ _ IHb).
    destruct b; reflexivity.
Qed.

Lemma forest_task_regen : forall t, forest_task (regen_task t) = forest_task t.
Proof.
  intros [n ins body outs]. unfold forest_task, regen_task. cbn [t_name t_ins t_body t_outs].
  unfold forest_stmts. rewrite (flat_map_map_ext _ _ regen_stmt forest_stmt body); [reflexivity|].
  apply Forall_forall. intros s _. apply forest_stmt_regen.
Qed.

Lemma forest_of_regen : forall p, forest_of (regen_prog p) = forest_of p.
Proof.
  intros [ss ts]. unfold forest_of, regen_prog. cbn [p_structs p_tasks].
  rewrite (flat_map_map_ext _ _ regen_task forest_task ts); [reflexivity|].
  apply Forall_forall. intros t _. apply forest_task_regen.
Qed.

Lemma task_ok_regen : forall t, task_ok ST NL t = true -> task_ok GT NL (regen_task t) = true.
Proof.
  intros [n ins body outs] H. unfold task_ok, regen_task in *. cbn [t_name t_ins t_body t_outs] in *.
  apply andb_prop in H. destruct H as [Hins Hb]. rewrite Hins. cbn [andb].
  destruct body as [|s0 body]; [discriminate|].
  change (forallb (stmt_ok GT NL) (map regen_stmt (s0 :: body)) = true).
  apply (forallb_map_Forall (stmt_ok ST NL)); [|exact Hb].
  apply Forall_forall. intros s _. apply stmt_ok_regen.
Qed.

Lemma prog_ok_regen : forall p, prog_ok ST NL p = true -> prog_ok GT NL (regen_prog p) = true.
Proof.
  intros [ss ts] H. unfold prog_ok, regen_prog in *. cbn [p_structs p_tasks] in *.
  apply andb_prop in H. destruct H as [H Htasks]. apply andb_prop in H. destruct H as [H Hstructs].
  apply andb_prop in H. destruct H as [Hds Hdt].
  rewrite Hds, Hstructs. cbn [andb].
  assert (Hn : map t_name (map regen_task ts) = map t_name ts).
  { rewrite map_map. apply map_ext. intros []; reflexivity. }
  rewrite Hn, Hdt. cbn [andb].
  clear Hn Hdt. induction ts as [|t ts IH]; [reflexivity|].
  cbn [forallb map] in *. apply andb_prop in Htasks. destruct Htasks as [Ht Hts].
  rewrite (task_ok_regen t Ht), (IH Hts). reflexivity.
Qed.

(* For EVERY program p in the normal form of the STATED rules and every text with the
   structure of p: the front end with the stated precedence returns p, the front end with
   the generated parser's precedence returns p with every guard regrouped. *)
Theorem C13_front_end_reads : forall t p,
  prog_ok ST NL p = true -> canon t = Some (flatten 0 (forest_of p)) ->
  front_end_standard t = FOk p /\ front_end t = FOk (regen_prog p).
Proof.
  intros t p Hok Hc. split.
  - rewrite front_end_standard_is_stated. apply front_end_any_table; assumption.
  - rewrite front_end_is_generated. apply front_end_any_table.
    + apply prog_ok_regen. exact Hok.
    + rewrite forest_of_regen. exact Hc.
Qed.

Lemma map_id_iff : forall (A : Type) (g : A -> A) l, map g l = l <-> Forall (fun x => g x = x) l.
Proof.
  induction l as [|x l IH]; [split; [constructor|reflexivity]|].
  cbn [map]. split.
  - intros H. injection H as Hx Hl. constructor; [exact Hx|apply IH; exact Hl].
  - intros H. rewrite (Forall_inv H). f_equal. apply IH. exact (Forall_inv_tail H).
Qed.

Lemma Forall_iff_forallb : forall (g : stmt -> stmt) (G : stmt -> bool) l,
  Forall (fun s => g s = s <-> G s = true) l ->
  (Forall (fun x => g x = x) l <-> forallb G l = true).
Proof.
  induction l as [|x l IH]; intros HF; [split; [reflexivity|constructor]|].
  pose proof (Forall_inv HF) as H1. pose proof (Forall_inv_tail HF) as H2.
  cbn [forallb]. rewrite andb_true_iff. rewrite <- H1, <- (IH H2). split.
  - intros H. split; [exact (Forall_inv H)|exact (Forall_inv_tail H)].
  - intros [Hx Hl]. constructor; assumption.
Qed.

Lemma regen_stmt_id_iff : forall s, regen_stmt s = s <-> stmt_guard s = true.
Proof.
  induction s as [n ins outs|c|cs|e body IH|par v lim body IH|e a b IHa IHb] using stmt_ind';
    try (split; reflexivity).
  - cbn [regen_stmt stmt_guard]. rewrite andb_true_iff. unfold expr_guard.
    rewrite <- regen_id_iff, <- (Forall_iff_forallb _ _ _ IH), <- map_id_iff. split.
    + intros H. injection H as He Hb. split; assumption.
    + intros [-> ->]. reflexivity.
  - cbn [regen_stmt stmt_guard].
    rewrite <- (Forall_iff_forallb _ _ _ IH), <- map_id_iff. split.
    + intros H. injection H as Hb. exact Hb.
    + intros ->. reflexivity.
  - cbn [regen_stmt stmt_guard]. rewrite !andb_true_iff. unfold expr_guard.
    rewrite <- regen_id_iff, <- (Forall_iff_forallb _ _ _ IHa), <- (Forall_iff_forallb _ _ _ IHb), <- !map_id_iff.
    split.
    + intros H. injection H as He Ha Hb. repeat split; assumption.
    + intros [[-> ->] ->]. reflexivity.
Qed.

Lemma regen_prog_id_iff : forall p, regen_prog p = p <-> prog_guard p = true.
Proof.
  intros [ss ts]. unfold regen_prog, prog_guard. cbn [p_structs p_tasks]. split.
  - intros H. injection H as H. apply map_id_iff in H.
    apply forallb_forall. intros t Hin. rewrite Forall_forall in H. specialize (H t Hin).
    destruct t as [n ins body outs]. unfold regen_task in H. cbn [t_name t_ins t_body t_outs] in *.
    injection H as H. apply map_id_iff in H.
    apply forallb_forall. intros s Hs. rewrite Forall_forall in H. apply regen_stmt_id_iff. exact (H s Hs).
  - intros H. f_equal. apply map_id_iff. apply Forall_forall. intros t Hin.
    rewrite forallb_forall in H. specialize (H t Hin).
    destruct t as [n ins body outs]. unfold regen_task. cbn [t_name t_ins t_body t_outs] in *.
    f_equal. apply map_id_iff. apply Forall_forall. intros s Hs.
    rewrite forallb_forall in H. apply regen_stmt_id_iff. exact (H s Hs).
Qed.

(* C13, precedence clause for whole programs, the part that holds: a program in the normal
   form of the stated rules whose guards contain no 'x / y * z' and no 'x + y - z' is read
   by the front end (generated parser's precedence) exactly as the stated rules demand. *)
Theorem C13_front_end_partial : forall t p,
  prog_ok ST NL p = true -> prog_guard p = true -> canon t = Some (flatten 0 (forest_of p)) ->
  front_end t = FOk p /\ front_end_standard t = FOk p.
Proof.
  intros t p Hok Hg Hc. destruct (C13_front_end_reads t p Hok Hc) as [H1 H2].
  apply regen_prog_id_iff in Hg. rewrite Hg in H2. split; assumption.
Qed.

(* ... and the guard is exact *)
Theorem C13_front_end_guard_exact : forall t p,
  prog_ok ST NL p = true -> canon t = Some (flatten 0 (forest_of p)) ->
  (front_end t = front_end_standard t <-> prog_guard p = true).
Proof.
  intros t p Hok Hc. destruct (C13_front_end_reads t p Hok Hc) as [H1 H2].
  rewrite H1, H2, <- regen_prog_id_iff. split.
  - intros H. injection H. auto.
  - intros ->. reflexivity.
Qed.

(* the same for the printer of the layout family *)
Theorem C13_front_end_render_partial : forall L p,
  layout_wf L = true -> prog_ok ST NL p = true -> prog_guard p = true ->
  front_end (render L p) = FOk p /\ front_end_standard (render L p) = FOk p.
Proof.
  intros L p HL Hok Hg. apply C13_front_end_partial; [exact Hok|exact Hg|].
  apply canon_render. exact HL.
Qed.

(* ---- the guards of a program, in text order, and their values ---- *)
Fixpoint stmt_exprs (s : stmt) : list expr :=
  match s with
  | SWhile e body => e :: flat_map stmt_exprs body
  | SCount _ _ _ body => flat_map stmt_exprs body
  | SCond e a b => e :: flat_map stmt_exprs a ++ flat_map stmt_exprs b
  | _ => []
  end.

Definition prog_exprs (p : program) : list expr :=
  flat_map (fun t => flat_map stmt_exprs (t_body t)) (p_tasks p).

Lemma flat_map_map_regen : forall (A : Type) (g : A -> A) (h : A -> list expr) l,
  Forall (fun x => h (g x) = map regen (h x)) l -> flat_map h (map g l) = map regen (flat_map h l).
Proof.
  induction l as [|x l IH]; intros HF; [reflexivity|].
  cbn [map flat_map]. rewrite map_app, (Forall_inv HF), (IH (Forall_inv_tail HF)). reflexivity.
Qed.

Lemma stmt_exprs_regen : forall s, stmt_exprs (regen_stmt s) = map regen (stmt_exprs s).
Proof.
  induction s as [n ins outs|c|cs|e body IH|par v lim body IH|e a b IHa IHb] using stmt_ind'; try reflexivity.
  - cbn [regen_stmt stmt_exprs map]. rewrite (flat_map_map_regen _ _ _ _ IH). reflexivity.
  - cbn [regen_stmt stmt_exprs map]. rewrite (flat_map_map_regen _ _ _ _ IH). reflexivity.
  - cbn [regen_stmt stmt_exprs map].
    rewrite (flat_map_map_regen _ _ _ _ IHa), (flat_map_map_regen _ _ _ _ IHb), map_app. reflexivity.
Qed.

Lemma prog_exprs_regen : forall p, prog_exprs (regen_prog p) = map regen (prog_exprs p).
Proof.
  intros [ss ts]. unfold prog_exprs, regen_prog. cbn [p_tasks].
  apply flat_map_map_regen. apply Forall_forall. intros [n ins body outs] _.
  unfold regen_task. cbn [t_body]. apply flat_map_map_regen.
  apply Forall_forall. intros s _. apply stmt_exprs_regen.
Qed.

(* C13 for whole programs, the '+ -' half: when no guard contains 'x / y * z' the program the
   front end returns has, guard by guard, the truth value the stated rules give, and the
   scheduler's decision on the returned guard is that truth value. *)
Theorem C13_front_end_value_partial : forall t p,
  prog_ok ST NL p = true -> forallb no_div_then_mul (prog_exprs p) = true ->
  canon t = Some (flatten 0 (forest_of p)) ->
  exists p',
    front_end t = FOk p' /\ front_end_standard t = FOk p
    /\ Forall2 (fun e' e => forall rho,
                  oQeq (ref_num rho e') (ref_num rho e) /\ ref_bool rho e' = ref_bool rho e
                  /\ forall b k, ref_bool rho e = Some b ->
                       exists k', decide expected_ops (fun _ v => rho v) e' k = Ok (b, k'))
               (prog_exprs p') (prog_exprs p).
Proof.
  intros t p Hok Hg Hc. exists (regen_prog p).
  destruct (C13_front_end_reads t p Hok Hc) as [H1 H2]. split; [exact H2|split; [exact H1|]].
  rewrite prog_exprs_regen. induction (prog_exprs p) as [|e l IH]; [constructor|].
  cbn [forallb map] in *. apply andb_prop in Hg. destruct Hg as [He Hl].
  constructor; [|exact (IH Hl)].
  intros rho. destruct (regen_value rho e He) as [Hn Hb]. split; [exact Hn|split; [exact Hb|]].
  intros b k Hbe. apply (decide_is_truth_value rho). rewrite Hb. exact Hbe.
Qed.

(* ------------------------------------------------------------------------------------ *)
(* 7. The full statements (false) and their refutations                                 *)
(* ------------------------------------------------------------------------------------ *)
(* "the generated parser reads every expression as the stated rules demand" *)
Definition C13_precedence_tree_statement : Prop :=
  forall e f r, expr_ok ST NL e = true -> layout_head r -> length (toks_expr e) < f ->
    parse_expr GT NL (expr_fuel f) 0 (map DTok (toks_expr e) ++ r) = FOk (e, r).

(* "... at least up to the truth value of the guard" *)
Definition C13_precedence_value_statement : Prop :=
  forall e f r, expr_ok ST NL e = true -> layout_head r -> length (toks_expr e) < f ->
    exists e', parse_expr GT NL (expr_fuel f) 0 (map DTok (toks_expr e) ++ r) = FOk (e', r)
               /\ forall rho, ref_bool rho e' = ref_bool rho e.

Theorem C13_precedence_tree_statement_refuted : ~ C13_precedence_tree_statement.
Proof.
  intros H. specialize (H (EBin OSub (EBin OAdd (ENum 1) (ENum 2)) (ENum 3)) 6 [DNL] eq_refl I).
  assert (Hl : length (toks_expr (EBin OSub (EBin OAdd (ENum 1) (ENum 2)) (ENum 3))) < 6) by (vm_compute; lia).
  specialize (H Hl). vm_compute in H. discriminate H.
Qed.

Theorem C13_precedence_value_statement_refuted : ~ C13_precedence_value_statement.
Proof.
  intros H. specialize (H (EBin OEq d14_stated_tree (ENum 8)) 8 [DNL] eq_refl I).
  assert (Hl : length (toks_expr (EBin OEq d14_stated_tree (ENum 8))) < 8) by (vm_compute; lia).
  destruct (H Hl) as [e' [Hp Hv]]. vm_compute in Hp. injection Hp as <-.
  specialize (Hv (fun _ => None)). vm_compute in Hv. discriminate Hv.
Qed.

(* ------------------------------------------------------------------------------------ *)
(* 8. The guards are inhabited by non-trivial expressions and programs                  *)
(* ------------------------------------------------------------------------------------ *)
Local Open Scope Q_scope.
(*  9.2 * 2 / 3 - 1 + 4 * 5 < 6 And !(9.2 / (7.2 * 2) == 0) Or true :
    '*' and '/', '+' and '-', comparisons, '!', parentheses, And, Or — no critical adjacency *)
Definition guarded_example : expr :=
  EBin OOr
    (EBin OAnd
       (EBin OLt
          (EBin OAdd
             (EBin OSub (EBin ODiv (EBin OMul (EPath 9%nat [PF 2%nat]) (ENum 2)) (ENum 3)) (ENum 1))
             (EBin OMul (ENum 4) (ENum 5)))
          (ENum 6))
       (ENot (EParen (EBin OEq (EBin ODiv (EPath 9%nat [PF 2%nat])
                                          (EParen (EBin OMul (EPath 7%nat [PF 2%nat]) (ENum 2))))
                               (ENum 0)))))
    (EBool true).

Example guarded_example_ok :
  expr_ok ST NL guarded_example = true
  /\ no_div_then_mul guarded_example = true /\ no_add_then_sub guarded_example = true.
Proof. vm_compute. repeat split; reflexivity. Qed.

(*  1 + 2 - 9.2 * 4 / 5 - 1 + 3 <= 0 : contains 'x + y - z' (twice) but no 'x / y * z' — the
    value theorem applies, the tree theorem does not *)
Definition add_sub_example : expr :=
  EBin OLe
    (EBin OAdd
       (EBin OSub
          (EBin OSub (EBin OAdd (ENum 1) (ENum 2))
                     (EBin ODiv (EBin OMul (EPath 9%nat [PF 2%nat]) (ENum 4)) (ENum 5)))
          (ENum 1))
       (ENum 3))
    (ENum 0).

Example add_sub_example_ok :
  expr_ok ST NL add_sub_example = true
  /\ no_div_then_mul add_sub_example = true /\ no_add_then_sub add_sub_example = false
  /\ regen add_sub_example <> add_sub_example
  /\ regen add_sub_example =
     EBin OLe
       (EBin OAdd
          (EBin OAdd (ENum 1)
             (EBin OSub (EBin OSub (ENum 2) (EBin ODiv (EBin OMul (EPath 9%nat [PF 2%nat]) (ENum 4)) (ENum 5)))
                        (ENum 1)))
          (ENum 3))
       (ENum 0).
Proof. vm_compute. repeat split; try reflexivity. discriminate. Qed.

(* both guards fail:  2 / 4 * 3 + 1 - 2 *)
Example both_adjacencies_example :
  let e := EBin OSub (EBin OAdd (EBin OMul (EBin ODiv (ENum 2) (ENum 4)) (ENum 3)) (ENum 1)) (ENum 2) in
  expr_ok ST NL e = true /\ no_div_then_mul e = false /\ no_add_then_sub e = false
  /\ regen e = EBin OAdd (EBin ODiv (ENum 2) (EBin OMul (ENum 4) (ENum 3))) (EBin OSub (ENum 1) (ENum 2)).
Proof. vm_compute. repeat split; reflexivity. Qed.

(* the example program of the round trip (Front/RoundTrip.v: '+' with '*', '/' with '-',
   comparisons, '!', parentheses, And, Or) satisfies all guards of the program theorem *)
Example example_program_guarded :
  prog_ok ST NL example_program = true /\ prog_guard example_program = true
  /\ length (prog_exprs example_program) = 2%nat.
Proof. vm_compute. repeat split; reflexivity. Qed.

(* a program with the guarded example as loop guard and the '+ -' example as condition *)
Definition precedence_program : program :=
  {| p_structs := [];
     p_tasks := [ {| t_name := 0%nat; t_ins := [];
                     t_body := [ SWhile guarded_example [SService 1%nat [] []];
                                 SCond add_sub_example [SService 1%nat [] []] [SService 2%nat [] []] ];
                     t_outs := [] |} ] |}.

Example precedence_program_ok :
  prog_ok ST NL precedence_program = true
  /\ forallb no_div_then_mul (prog_exprs precedence_program) = true
  /\ prog_guard precedence_program = false
  /\ prog_exprs precedence_program = [guarded_example; add_sub_example].
Proof. vm_compute. repeat split; reflexivity. Qed.

(* ------------------------------------------------------------------------------------ *)
(* 9. Simple sufficient conditions for the guards                                       *)
(* ------------------------------------------------------------------------------------ *)
Local Close Scope Q_scope.

(* operator c does not occur in e *)
Fixpoint no_op (c : binop) (e : expr) : bool :=
  match e with
  | ENot x | EParen x => no_op c x
  | EBin o l r => negb (binop_eqb o c) && no_op c l && no_op c r
  | _ => true
  end.

Lemma no_op_top : forall c e, no_op c e = true -> top_is c e = false.
Proof.
  intros c [q|b|s|x pth|x|x|o l r] H; try reflexivity.
  cbn [no_op] in H. apply andb_prop in H. destruct H as [H _]. apply andb_prop in H. destruct H as [H _].
  apply negb_true_iff in H. exact H.
Qed.

Lemma no_mul_guard : forall e, no_op OMul e = true -> no_div_then_mul e = true.
Proof.
  induction e as [q|b|s|x pth|x IHx|x IHx|o l IHl r IHr]; intros H; try reflexivity; try exact (IHx H).
  cbn [no_op no_div_then_mul] in *. apply andb_prop in H. destruct H as [H Hr]. apply andb_prop in H.
  destruct H as [Ho Hl]. rewrite (IHl Hl), (IHr Hr). apply negb_true_iff in Ho. rewrite Ho. reflexivity.
Qed.

Lemma no_div_guard : forall e, no_op ODiv e = true -> no_div_then_mul e = true.
Proof.
  induction e as [q|b|s|x pth|x IHx|x IHx|o l IHl r IHr]; intros H; try reflexivity; try exact (IHx H).
  cbn [no_op no_div_then_mul] in *. apply andb_prop in H. destruct H as [H Hr]. apply andb_prop in H.
  destruct H as [Ho Hl]. rewrite (IHl Hl), (IHr Hr), (no_op_top _ _ Hl), andb_false_r. reflexivity.
Qed.

Lemma no_sub_guard : forall e, no_op OSub e = true -> no_add_then_sub e = true.
Proof.
  induction e as [q|b|s|x pth|x IHx|x IHx|o l IHl r IHr]; intros H; try reflexivity; try exact (IHx H).
  cbn [no_op no_add_then_sub] in *. apply andb_prop in H. destruct H as [H Hr]. apply andb_prop in H.
  destruct H as [Ho Hl]. rewrite (IHl Hl), (IHr Hr). apply negb_true_iff in Ho. rewrite Ho. reflexivity.
Qed.

Lemma no_add_guard : forall e, no_op OAdd e = true -> no_add_then_sub e = true.
Proof.
  induction e as [q|b|s|x pth|x IHx|x IHx|o l IHl r IHr]; intros H; try reflexivity; try exact (IHx H).
  cbn [no_op no_add_then_sub] in *. apply andb_prop in H. destruct H as [H Hr]. apply andb_prop in H.
  destruct H as [Ho Hl]. rewrite (IHl Hl), (IHr Hr), (no_op_top _ _ Hl), andb_false_r. reflexivity.
Qed.

(* comparisons, '!', And, Or, parentheses, and arithmetic that does not mix '*' with '/' nor
   '+' with '-': the two tables agree *)
Theorem C13_unmixed_agree : forall e f r,
  expr_ok ST NL e = true ->
  no_op OMul e = true \/ no_op ODiv e = true ->
  no_op OAdd e = true \/ no_op OSub e = true ->
  layout_head r -> length (toks_expr e) < f ->
  parse_expr GT NL (expr_fuel f) 0 (map DTok (toks_expr e) ++ r) = FOk (e, r)
  /\ parse_expr ST NL (expr_fuel f) 0 (map DTok (toks_expr e) ++ r) = FOk (e, r).
Proof.
  intros e f r Hok Hm Ha Hr Hf. apply C13_partial; try assumption.
  - destruct Hm; [apply no_mul_guard|apply no_div_guard]; assumption.
  - destruct Ha; [apply no_add_guard|apply no_sub_guard]; assumption.
Qed.

(* ---- minimality of the counterexamples: two binary operators are needed ---- *)
Fixpoint bin_count (e : expr) : nat :=
  match e with
  | ENot x | EParen x => bin_count x
  | EBin _ l r => S (bin_count l + bin_count r)
  | _ => 0
  end.

Lemma top_is_count : forall c e, top_is c e = true -> 1 <= bin_count e.
Proof. intros c e H. destruct (top_is_inv _ _ H) as [a [b ->]]. cbn [bin_count]. lia. Qed.

Lemma guards_fail_two_ops : forall e,
  no_div_then_mul e && no_add_then_sub e = false -> 2 <= bin_count e.
Proof.
  induction e as [q|b|s|x pth|x IHx|x IHx|o l IHl r IHr]; intros H; try discriminate H;
    try exact (IHx H).
  cbn [no_div_then_mul no_add_then_sub bin_count] in *.
  destruct (no_div_then_mul l && no_add_then_sub l) eqn:El.
  - destruct (no_div_then_mul r && no_add_then_sub r) eqn:Er.
    + apply andb_prop in El, Er. destruct El as [E1 E2]. destruct Er as [E3 E4].
      rewrite E1, E2, E3, E4, !andb_true_r in H.
      assert (Ht : top_is ODiv l = true \/ top_is OAdd l = true).
      { destruct (top_is ODiv l); [auto|]. destruct (top_is OAdd l); [auto|].
        rewrite !andb_false_r in H. discriminate H. }
      destruct Ht as [Ht|Ht]; apply top_is_count in Ht; lia.
    + specialize (IHr eq_refl). lia.
  - specialize (IHl eq_refl). lia.
Qed.

(* an expression with at most one binary operator is read identically under both tables *)
Theorem C13_one_operator_agree : forall e f r,
  expr_ok ST NL e = true -> bin_count e <= 1 ->
  layout_head r -> length (toks_expr e) < f ->
  parse_expr GT NL (expr_fuel f) 0 (map DTok (toks_expr e) ++ r) = FOk (e, r)
  /\ parse_expr ST NL (expr_fuel f) 0 (map DTok (toks_expr e) ++ r) = FOk (e, r).
Proof.
  intros e f r Hok Hc Hr Hf.
  destruct (no_div_then_mul e && no_add_then_sub e) eqn:E.
  - apply andb_prop in E. destruct E. apply C13_partial; assumption.
  - apply guards_fail_two_ops in E. lia.
Qed.
