(* Front/DenterProofs.v — the INDENT/DEDENT/NL skeleton emitted by the denter depends only
   on the nesting structure of the text. *)
From PFDL.Front Require Import Denter.
From Coq Require Import Lia.

(* ---- CR arithmetic of handle_newline_token ---- *)
Lemma nl_indent_spaces : forall cr n, nl_indent cr n = n.
Proof.
  intros cr n. unfold nl_indent. destruct cr; cbn [andb].
  - destruct n as [|n].
    + reflexivity.
    + replace (1 + 1 + S n - 1) with (S (S n)) by lia.
      cbn [Nat.ltb Nat.leb andb]. lia.
  - rewrite Bool.andb_false_r. lia.
Qed.

(* ---- the indentation stack ---- *)
Fixpoint stack_ok (st : list nat) : Prop :=
  match st with
  | [] => False
  | x :: r => match r with [] => x = 0 | y :: _ => y < x /\ stack_ok r end
  end.

Lemma stack_ok_tail : forall x y r, stack_ok (x :: y :: r) -> stack_ok (y :: r).
Proof. intros x y r H. cbn in H. tauto. Qed.

Lemma stack_ok_push : forall i top r, stack_ok (top :: r) -> top < i -> stack_ok (i :: top :: r).
Proof. intros i top r H Hlt. cbn. cbn in H. tauto. Qed.

Lemma pop_to_length : forall i st st', pop_to i st = Some st' -> length st' <= length st.
Proof.
  intros i st. induction st as [|top st IH]; intros st' H; cbn [pop_to] in H.
  - discriminate.
  - destruct (top =? i) eqn:E1.
    + inversion H; subst. lia.
    + destruct (i <? top) eqn:E2.
      * specialize (IH _ H). cbn. lia.
      * discriminate.
Qed.

Lemma pop_to_ok : forall i st st', stack_ok st -> pop_to i st = Some st' -> stack_ok st'.
Proof.
  intros i st. induction st as [|top st IH]; intros st' Hok H; cbn [pop_to] in H.
  - discriminate.
  - destruct (top =? i) eqn:E1.
    + inversion H; subst. exact Hok.
    + destruct (i <? top) eqn:E2; [|discriminate].
      destruct st as [|y r].
      * cbn in H. discriminate.
      * apply IH; [exact (stack_ok_tail _ _ _ Hok)|exact H].
Qed.

Lemma pop_to_nonempty : forall i st st', pop_to i st = Some st' -> 1 <= length st'.
Proof.
  intros i st. induction st as [|top st IH]; intros st' H; cbn [pop_to] in H.
  - discriminate.
  - destruct (top =? i) eqn:E1.
    + inversion H; subst. cbn. lia.
    + destruct (i <? top) eqn:E2; [|discriminate]. eauto.
Qed.

(* popping to a strictly smaller width removes at least one entry *)
Lemma pop_to_shorter : forall i top st st',
  i < top -> pop_to i (top :: st) = Some st' -> length st' <= length st.
Proof.
  intros i top st st' Hlt H. cbn [pop_to] in H.
  destruct (top =? i) eqn:E1.
  - apply Nat.eqb_eq in E1. lia.
  - destruct (i <? top) eqn:E2; [|discriminate]. eapply pop_to_length; eauto.
Qed.

Lemma unwind_loop_pop : forall i st st',
  pop_to i st = Some st' ->
  exists rest, st' = i :: rest /\
               unwind_loop i st = (repeat DDedent (length st - length st'), rest).
Proof.
  intros i st. induction st as [|top st IH]; intros st' H; cbn [pop_to] in H.
  - discriminate.
  - cbn [unwind_loop]. destruct (top =? i) eqn:E1.
    + inversion H; subst. apply Nat.eqb_eq in E1. subst.
      exists st. split; [reflexivity|]. rewrite Nat.sub_diag. reflexivity.
    + destruct (i <? top) eqn:E2; [|discriminate].
      assert (Hnlt : (top <? i) = false).
      { apply Nat.ltb_ge. apply Nat.ltb_lt in E2. lia. }
      rewrite Hnlt.
      destruct (IH _ H) as [rest [Hst' Hloop]].
      exists rest. split; [exact Hst'|]. rewrite Hloop.
      pose proof (pop_to_length _ _ _ H) as Hlen.
      cbn [length]. replace (S (length st) - length st') with (S (length st - length st')) by lia.
      reflexivity.
Qed.

Lemma unwind_pop : forall i st st',
  pop_to i st = Some st' ->
  unwind i st = (DNL :: repeat DDedent (length st - length st'), st').
Proof.
  intros i st st' H. unfold unwind.
  destruct (unwind_loop_pop _ _ _ H) as [rest [Hst' Hloop]].
  rewrite Hloop. subst. reflexivity.
Qed.

Lemma pop_to_zero : forall st, stack_ok st -> exists k, pop_to 0 st = Some [0] /\ length st = S k.
Proof.
  induction st as [|top st IH]; intros Hok.
  - contradiction.
  - destruct st as [|y r].
    + cbn in Hok. subst. exists 0. split; reflexivity.
    + destruct Hok as [Hlt Hok].
      destruct (IH Hok) as [k [Hp Hl]].
      exists (S k). split.
      * cbn [pop_to]. replace (top =? 0) with false by (symmetry; apply Nat.eqb_neq; lia).
        replace (0 <? top) with true by (symmetry; apply Nat.ltb_lt; lia).
        exact Hp.
      * cbn [length] in *. lia.
Qed.

Lemma at_eof_sep : forall st, stack_ok st -> at_eof st = sep (length st - 1) 0 ++ [DEOF].
Proof.
  intros st Hok. destruct (pop_to_zero _ Hok) as [k [Hp Hl]].
  unfold at_eof. destruct st as [|top r]; [contradiction|].
  rewrite (unwind_pop _ _ _ Hp). cbn [fst]. rewrite Hl. cbn [length].
  replace (S k - 1) with k by lia.
  unfold sep. destruct k as [|k].
  - reflexivity.
  - cbn [Nat.eqb Nat.ltb Nat.leb]. rewrite Nat.sub_0_r. reflexivity.
Qed.

(* ---- run, equation by equation ---- *)
Lemma run_toks : forall lex st r, run st (map RTok lex ++ r) = map DTok lex ++ run st r.
Proof.
  induction lex as [|t lex IH]; intros st r.
  - reflexivity.
  - cbn [map app run]. rewrite IH. reflexivity.
Qed.

Definition nl_or_eof_head (ts : list rtok) : Prop :=
  match ts with RNL _ _ :: _ => True | REOF :: _ => True | _ => False end.

Lemma run_skip_nl : forall st cr sp ts, nl_or_eof_head ts -> run st (RNL cr sp :: ts) = run st ts.
Proof.
  intros st cr sp ts H. destruct ts as [|[t|cr' sp'|] r]; try contradiction; reflexivity.
Qed.

Lemma raw_rest_head_blank : forall prev ls fnl,
  nl_or_eof_head (raw_rest prev ls fnl).
Proof.
  intros prev ls fnl. destruct ls as [|l r]; cbn [raw_rest].
  - destruct fnl; exact I.
  - exact I.
Qed.

Lemma run_nl_tok : forall top st cr i t r,
  run (top :: st) (RNL cr i :: RTok t :: r) =
  if i =? top then DNL :: run (top :: st) (RTok t :: r)
  else if top <? i then DIndent :: run (i :: top :: st) (RTok t :: r)
  else let '(out, st') := unwind i (top :: st) in out ++ run st' (RTok t :: r).
Proof.
  intros. cbn [run]. rewrite nl_indent_spaces. reflexivity.
Qed.

(* ---- the main induction: the lines after the first ---- *)
Lemma run_rest : forall ls prev st fnl ds,
  stack_ok st ->
  depths st ls = Some ds ->
  run st (raw_rest prev ls fnl) = skel (length st - 1) ds.
Proof.
  induction ls as [|l r IH]; intros prev st fnl ds Hok Hd.
  - cbn in Hd. inversion Hd; subst. cbn [raw_rest skel].
    rewrite <- (at_eof_sep _ Hok).
    destruct fnl; reflexivity.
  - cbn [raw_rest]. cbn [depths] in Hd.
    destruct (l_lex l) as [|t lex] eqn:Hlex.
    + (* blank or comment-only line *)
      cbn [map app].
      rewrite run_skip_nl by apply raw_rest_head_blank.
      apply IH; assumption.
    + destruct st as [|top st0]; [contradiction|].
      change (map RTok (t :: lex) ++ raw_rest l r fnl)
        with (RTok t :: (map RTok lex ++ raw_rest l r fnl)).
      rewrite run_nl_tok.
      destruct (top <? l_indent l) eqn:Elt.
      * (* deeper: INDENT *)
        destruct (depths (l_indent l :: top :: st0) r) as [ds'|] eqn:Hd'; [|discriminate].
        inversion Hd; subst ds. clear Hd.
        apply Nat.ltb_lt in Elt.
        replace (l_indent l =? top) with false by (symmetry; apply Nat.eqb_neq; lia).
        change (RTok t :: map RTok lex ++ raw_rest l r fnl)
          with (map RTok (t :: lex) ++ raw_rest l r fnl).
        rewrite run_toks.
        rewrite (IH l _ fnl ds' (stack_ok_push _ _ _ Hok Elt) Hd').
        cbn [length].
        replace (S (S (length st0)) - 1) with (S (length st0)) by lia.
        replace (S (length st0) - 1) with (length st0) by lia.
        cbn [skel]. unfold sep.
        replace (S (length st0) =? length st0) with false
          by (symmetry; apply Nat.eqb_neq; lia).
        replace (length st0 <? S (length st0)) with true
          by (symmetry; apply Nat.ltb_lt; lia).
        reflexivity.
      * destruct (pop_to (l_indent l) (top :: st0)) as [st'|] eqn:Hp; [|discriminate].
        destruct (depths st' r) as [ds'|] eqn:Hd'; [|discriminate].
        inversion Hd; subst ds. clear Hd.
        apply Nat.ltb_ge in Elt.
        pose proof (pop_to_ok _ _ _ Hok Hp) as Hok'.
        pose proof (pop_to_nonempty _ _ _ Hp) as Hne.
        destruct (l_indent l =? top) eqn:Eeq.
        -- (* same indentation: NL *)
           apply Nat.eqb_eq in Eeq.
           assert (st' = top :: st0).
           { cbn [pop_to] in Hp. rewrite Eeq in Hp. rewrite Nat.eqb_refl in Hp. inversion Hp. reflexivity. }
           subst st'.
           change (RTok t :: map RTok lex ++ raw_rest l r fnl)
             with (map RTok (t :: lex) ++ raw_rest l r fnl).
           rewrite run_toks. rewrite (IH l _ fnl ds' Hok Hd').
           cbn [skel]. unfold sep. rewrite Nat.eqb_refl. reflexivity.
        -- (* shallower: NL and DEDENTs *)
           apply Nat.eqb_neq in Eeq.
           assert (Hlt : l_indent l < top) by lia.
           pose proof (pop_to_shorter _ _ _ _ Hlt Hp) as Hsh.
           rewrite (unwind_pop _ _ _ Hp).
           change (RTok t :: map RTok lex ++ raw_rest l r fnl)
             with (map RTok (t :: lex) ++ raw_rest l r fnl).
           rewrite run_toks. rewrite (IH l _ fnl ds' Hok' Hd').
           cbn [skel length]. unfold sep.
           replace (length st' - 1 =? S (length st0) - 1) with false
             by (symmetry; apply Nat.eqb_neq; lia).
           replace (S (length st0) - 1 <? length st' - 1) with false
             by (symmetry; apply Nat.ltb_ge; lia).
           replace (S (length st0) - 1 - (length st' - 1)) with (S (length st0) - length st') by lia.
           cbn [app]. reflexivity.
Qed.

(* ---- the beginning of the text: init_if_first_run ---- *)
Lemma stack_ok_base : stack_ok [0].
Proof. reflexivity. Qed.

Lemma init_rest : forall r prev fnl ds,
  first_column r = 0 ->
  depths [0] r = Some ds ->
  run [0] (drop_nls (raw_rest prev r fnl)) = skeleton ds.
Proof.
  induction r as [|l r IH]; intros prev fnl ds Hc Hd.
  - cbn in Hd. inversion Hd; subst. cbn [raw_rest]. destruct fnl; reflexivity.
  - cbn [raw_rest drop_nls]. cbn [first_column] in Hc. cbn [depths] in Hd.
    destruct (l_lex l) as [|t lex] eqn:Hlex.
    + cbn [map app]. apply IH; assumption.
    + rewrite Hc in Hd. cbn [Nat.ltb Nat.leb pop_to Nat.eqb] in Hd.
      destruct (depths [0] r) as [ds'|] eqn:Hd'; [|discriminate].
      inversion Hd; subst ds. clear Hd.
      cbn [drop_nls map app].
      change (RTok t :: map RTok lex ++ raw_rest l r fnl)
        with (map RTok (t :: lex) ++ raw_rest l r fnl).
      rewrite run_toks. rewrite (run_rest r l [0] fnl ds' stack_ok_base Hd').
      reflexivity.
Qed.

Theorem denter_skeleton : forall t ds, canon t = Some ds -> denter t = skeleton ds.
Proof.
  intros t ds H. unfold canon in H. unfold denter, denter_init, raw_tokens.
  destruct (first_column (logical_lines t) =? 0) eqn:Hc; [|discriminate].
  apply Nat.eqb_eq in Hc. rewrite Hc. cbn [Nat.ltb Nat.leb].
  destruct (logical_lines t) as [|l r] eqn:Hl.
  - cbn in H. inversion H; subst. reflexivity.
  - cbn [first_column] in Hc. cbn [depths] in H.
    destruct (l_lex l) as [|tk lex] eqn:Hlex.
    + cbn [map app]. apply init_rest; assumption.
    + rewrite Hc in H. cbn [Nat.ltb Nat.leb pop_to Nat.eqb] in H.
      destruct (depths [0] r) as [ds'|] eqn:Hd'; [|discriminate].
      inversion H; subst ds. clear H.
      cbn [map app drop_nls].
      change (RTok tk :: map RTok lex ++ raw_rest l r (t_final_nl t))
        with (map RTok (tk :: lex) ++ raw_rest l r (t_final_nl t)).
      rewrite run_toks. rewrite (run_rest r l [0] _ ds' stack_ok_base Hd').
      reflexivity.
Qed.

(* The token stream the parser sees is a function of the structure [canon] alone: two
   well-formed layouts of the same structure — whatever their indentation widths, blank
   and comment-only lines, trailing blanks and comments, LF / CR LF line ends, final
   newline, and line breaks inside struct literals — give the same stream. *)
Theorem denter_layout_independent : forall t1 t2,
  layout_ok t1 = true -> layout_ok t2 = true -> canon t1 = canon t2 -> denter t1 = denter t2.
Proof.
  intros t1 t2 H1 H2 Heq. unfold layout_ok in *.
  destruct (canon t1) as [d1|] eqn:E1; [|discriminate].
  destruct (canon t2) as [d2|] eqn:E2; [|discriminate].
  inversion Heq; subst.
  rewrite (denter_skeleton _ _ E1), (denter_skeleton _ _ E2). reflexivity.
Qed.

(* ---- the guard is inhabited by non-trivial layouts ---- *)
Definition ln (i : nat) (lex : list tok) : line :=
  {| l_indent := i; l_lex := lex; l_comment := None; l_trail := 0; l_cr := false |}.

(* Struct A / x: number / End / Task t / S / In / A / {"x": 1} / Loop While ... / S / End,
   4 blanks per level, LF, final newline *)
Definition example_plain : text :=
  {| t_lines :=
       [ ln 0 [KStruct; TUpper 1]; ln 4 [TLower 2; PColon; KNumberP]; ln 0 [KEnd];
         ln 0 [KTask; TLower 0];
         ln 4 [TUpper 3]; ln 8 [KIn]; ln 12 [TUpper 1];
         ln 16 [PJsonOpen; JString 2; JColon; JNumber 1; JClose];
         ln 4 [KLoop; KWhile; KTrue]; ln 8 [TUpper 3];
         ln 0 [KEnd] ];
     t_final_nl := true |}.

(* the same structure: widths 1, 2, 3, 7 per block, blank and comment-only lines with
   arbitrary indentation, trailing blanks and comments, CR LF on some lines, the struct
   literal broken over three lines, no final newline but trailing blank lines *)
Definition example_wild : text :=
  {| t_lines :=
       [ {| l_indent := 3; l_lex := []; l_comment := Some 5; l_trail := 0; l_cr := true |};
         {| l_indent := 0; l_lex := [KStruct; TUpper 1]; l_comment := Some 2; l_trail := 2; l_cr := true |};
         ln 9 [];
         ln 7 [TLower 2; PColon; KNumberP];
         {| l_indent := 0; l_lex := [KEnd]; l_comment := None; l_trail := 3; l_cr := true |};
         ln 0 [];
         ln 0 [KTask; TLower 0];
         ln 1 [TUpper 3]; ln 3 [KIn];
         {| l_indent := 12; l_lex := []; l_comment := Some 1; l_trail := 0; l_cr := false |};
         ln 6 [TUpper 1];
         ln 13 [PJsonOpen];
         ln 0 [];
         {| l_indent := 2; l_lex := [JString 2; JColon; JNumber 1]; l_comment := Some 4; l_trail := 1; l_cr := true |};
         ln 40 [JClose];
         ln 1 [KLoop; KWhile; KTrue]; ln 2 [TUpper 3];
         ln 0 [KEnd];
         ln 5 []; ln 0 [] ];
     t_final_nl := false |}.

Example layout_ok_plain : layout_ok example_plain = true.
Proof. vm_compute. reflexivity. Qed.

Example layout_ok_wild : layout_ok example_wild = true.
Proof. vm_compute. reflexivity. Qed.

Example same_structure : canon example_plain = canon example_wild.
Proof. vm_compute. reflexivity. Qed.

Example same_tokens : denter example_plain = denter example_wild.
Proof.
  apply denter_layout_independent;
    [exact layout_ok_plain | exact layout_ok_wild | exact same_structure].
Qed.

(* the guard excludes what the language does not treat as insignificant: a dedent to a
   width that was never opened, and an indented first line *)
Example layout_not_ok_dedent :
  layout_ok {| t_lines := [ln 0 [KTask; TLower 0]; ln 4 [TUpper 3]; ln 2 [KEnd]];
               t_final_nl := true |} = false.
Proof. vm_compute. reflexivity. Qed.

Example layout_not_ok_first :
  layout_ok {| t_lines := [ln 2 [KTask; TLower 0]; ln 4 [TUpper 3]; ln 2 [KEnd]];
               t_final_nl := true |} = false.
Proof. vm_compute. reflexivity. Qed.
