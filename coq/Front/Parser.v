(* Front/Parser.v — recursive-descent parser for PFDLParser.g4 over the denter's token
   stream that builds the AST of PFDL.Syntax the way pfdl_tree_visitor.py builds the
   Process (model support file: definitions only).

   One function per grammar rule, in the order of PFDLParser.g4; the alternatives are
   chosen by the look-ahead the generated parser uses for sentences of the grammar.
   NOT modelled: ANTLR's adaptive prediction and error recovery — on a sentence of the
   grammar every correct parser builds the same tree (the grammar's only ambiguities are
   in which rule absorbs NL tokens, which the visitor ignores); on a non-sentence the
   implementation reports syntax errors and returns no model, the model returns
   [FSyntax].

   Expressions: the generated parser implements the left-recursive rule [expression] by
   precedence climbing ([precpred(_ctx, k)] is  k >= _p); [parse_expr] does the same,
   parametrised by the level table — Gen/Precedence.v regenerates the table from
   PFDLParser.py and Gen/ObligationsFront.v proves it equal to [impl_levels]. *)
From PFDL.Front Require Export Denter.
From Coq Require Import String.

Inductive fres (A : Type) : Type :=
| FOk (a : A)
| FSyntax          (* the parser reports a syntax error: parse_string returns (False, None) *)
| FVisitor         (* the tree visitor reports an error: duplicate definition, array length not an integer *)
| FUnsupported     (* the visitor silently builds no expression (a string literal alone) *)
| FFuel.
Arguments FOk {A} a.
Arguments FSyntax {A}.
Arguments FVisitor {A}.
Arguments FUnsupported {A}.
Arguments FFuel {A}.

Definition fbind {A B} (r : fres A) (f : A -> fres B) : fres B :=
  match r with
  | FOk a => f a
  | FSyntax => FSyntax
  | FVisitor => FVisitor
  | FUnsupported => FUnsupported
  | FFuel => FFuel
  end.

Notation "'do' x <- e ;; f" := (fbind e (fun x => f))
  (at level 200, x name, e at level 100, f at level 200, right associativity).
Notation "'do' ' p <- e ;; f" := (fbind e (fun x => match x with p => f end))
  (at level 200, p pattern, e at level 100, f at level 200, right associativity).

Definition toks := list dtok.

(* ---- precedence levels of the rule [expression] ---- *)
(* (class of the operator token, precpred level of the alternative, level passed to the
   recursive call for the right operand) *)
Definition level_table := list (string * nat * nat).

Definition impl_levels : level_table :=
  [ ("STAR", 9, 10); ("SLASH", 8, 9); ("MINUS", 7, 8); ("PLUS", 6, 7);
    ("binOperation", 5, 6); ("BOOLEAN_AND", 3, 4); ("BOOLEAN_OR", 2, 3) ]%string.

(* 'unOperation expression': level passed to the recursive call for the operand of '!' *)
Definition impl_not_level : nat := 4.

(* '( expression )': level passed to the inner expression *)
Definition impl_paren_level : nat := 0.

(* first tokens of the alternative 'value' (TRUE | FALSE | number | STRING | attribute_access) *)
Definition impl_value_first : list string :=
  [ "TRUE"; "FALSE"; "MINUS"; "INTEGER"; "FLOAT"; "STRING"; "STARTS_WITH_LOWER_C_STR" ]%string.

(* the tokens of rule binOperation *)
Definition impl_binop_tokens : list string :=
  [ "LESS_THAN"; "LESS_THAN_OR_EQUAL"; "GREATER_THAN"; "GREATER_THAN_OR_EQUAL"; "EQUAL";
    "NOT_EQUAL" ]%string.

(* the precedence the property states: * / over + - over comparisons over And over Or *)
Definition standard_levels : level_table :=
  [ ("STAR", 9, 10); ("SLASH", 9, 10); ("MINUS", 7, 8); ("PLUS", 7, 8);
    ("binOperation", 5, 6); ("BOOLEAN_AND", 3, 4); ("BOOLEAN_OR", 2, 3) ]%string.

Definition op_class (t : tok) : option (binop * string) :=
  match t with
  | OpStar => Some (OMul, "STAR") | OpSlash => Some (ODiv, "SLASH")
  | OpMinus => Some (OSub, "MINUS") | OpPlus => Some (OAdd, "PLUS")
  | OpLt => Some (OLt, "binOperation") | OpLe => Some (OLe, "binOperation")
  | OpGt => Some (OGt, "binOperation") | OpGe => Some (OGe, "binOperation")
  | OpEq => Some (OEq, "binOperation") | OpNe => Some (ONe, "binOperation")
  | OpAnd => Some (OAnd, "BOOLEAN_AND") | OpOr => Some (OOr, "BOOLEAN_OR")
  | _ => None
  end%string.

Fixpoint lookup_level (c : string) (T : level_table) : option (nat * nat) :=
  match T with
  | [] => None
  | (c', lv, rhs) :: r => if String.eqb c c' then Some (lv, rhs) else lookup_level c r
  end.

(* ---- small helpers ---- *)
Definition is_indent (d : dtok) := match d with DIndent => true | _ => false end.
Definition is_dedent (d : dtok) := match d with DDedent => true | _ => false end.
Definition is_nl (d : dtok) := match d with DNL => true | _ => false end.

Definition expect_indent (ts : toks) : fres toks :=
  match ts with DIndent :: r => FOk r | _ => FSyntax end.
Definition expect_dedent (ts : toks) : fres toks :=
  match ts with DDedent :: r => FOk r | _ => FSyntax end.

(* NL* *)
Fixpoint skip_nls (ts : toks) : toks :=
  match ts with
  | DNL :: r => skip_nls r
  | _ => ts
  end.

(* NL+ *)
Definition nl_plus (ts : toks) : fres toks :=
  match ts with
  | DNL :: r => FOk (skip_nls r)
  | _ => FSyntax
  end.

(* ---- primitive: NUMBER_P | STRING_P | BOOLEAN_P | STARTS_WITH_UPPER_C_STR ---- *)
Definition parse_prim (ts : toks) : fres (prim * toks) :=
  match ts with
  | DTok KNumberP :: r => FOk (TNumber, r)
  | DTok KStringP :: r => FOk (TString, r)
  | DTok KBooleanP :: r => FOk (TBoolean, r)
  | DTok (TUpper s) :: r => FOk (TStructName s, r)
  | _ => FSyntax
  end.

(* ---- array: ARRAY_LEFT (INTEGER | STARTS_WITH_LOWER_C_STR)? ARRAY_RIGHT ---- *)
(* visitArray: int(text) | text | -1 *)
Definition parse_array (ts : toks) : fres (alen * toks) :=
  match ts with
  | DTok PArrL :: DTok PArrR :: r => FOk (LenNone, r)
  | DTok PArrL :: DTok (TInt n) :: DTok PArrR :: r => FOk (LenNat n, r)
  | DTok PArrL :: DTok (TLower v) :: DTok PArrR :: r => FOk (LenVar v, r)
  | _ => FSyntax
  end.

Definition starts_array (ts : toks) : bool :=
  match ts with DTok PArrL :: _ => true | _ => false end.

(* ---- variable_type: primitive array? ---- *)
Definition parse_vtype (ts : toks) : fres (vtype * toks) :=
  do '(p, r) <- parse_prim ts ;;
  if starts_array r then
    do '(l, r') <- parse_array r ;; FOk (TArray p l, r')
  else FOk (TPlain p, r).

(* ---- variable_definition: STARTS_WITH_LOWER_C_STR COLON variable_type ---- *)
Definition parse_vardef (ts : toks) : fres ((name * vtype) * toks) :=
  match ts with
  | DTok (TLower n) :: DTok PColon :: r =>
    do '(t, r') <- parse_vtype r ;; FOk ((n, t), r')
  | _ => FSyntax
  end.

Definition starts_lower (ts : toks) : bool :=
  match ts with DTok (TLower _) :: _ => true | _ => false end.

(* (variable_definition NL+)+ *)
Fixpoint parse_vardefs (f : nat) (ts : toks) : fres (list (name * vtype) * toks) :=
  match f with
  | O => FFuel
  | S f' =>
    do '(d, r) <- parse_vardef ts ;;
    do r1 <- nl_plus r ;;
    if starts_lower r1 then
      do '(ds, r2) <- parse_vardefs f' r1 ;; FOk (d :: ds, r2)
    else FOk ([d], r1)
  end.

(* INDENT (variable_definition NL+)+ DEDENT *)
Definition parse_vardef_block (f : nat) (ts : toks) : fres (list (name * vtype) * toks) :=
  do r <- expect_indent ts ;;
  do '(ds, r1) <- parse_vardefs f r ;;
  do r2 <- expect_dedent r1 ;;
  FOk (ds, r2).

(* ---- attribute_access: LOWER (DOT LOWER array?)+ ; visitAttribute_access keeps every
   child text except "." : the field names and the array suffixes "[i]" "[3]" "[]" ---- *)
Definition pelem_of_len (l : alen) : pelem :=
  match l with LenNone => PIdxNone | LenNat k => PIdxLit k | LenVar v => PIdxVar v end.

Fixpoint parse_path_tail (f : nat) (ts : toks) : fres (list pelem * toks) :=
  match f with
  | O => FFuel
  | S f' =>
    match ts with
    | DTok PDot :: DTok (TLower a) :: r =>
      if starts_array r then
        do '(l, r1) <- parse_array r ;;
        do '(p, r2) <- parse_path_tail f' r1 ;;
        FOk (PF a :: pelem_of_len l :: p, r2)
      else
        do '(p, r2) <- parse_path_tail f' r ;;
        FOk (PF a :: p, r2)
    | DTok PDot :: _ => FSyntax
    | _ => FOk ([], ts)
    end
  end.

Definition starts_dot (ts : toks) : bool :=
  match ts with DTok PDot :: _ => true | _ => false end.

(* after the leading identifier: (DOT LOWER array?)+ *)
Definition parse_path_rest (f : nat) (ts : toks) : fres (list pelem * toks) :=
  if starts_dot ts then parse_path_tail f ts else FSyntax.

(* ---- json_object / json_value / json_array, then json.loads + parse_json ---- *)
(* Python dict: a repeated key keeps its first position and takes the last value *)
Fixpoint dict_set {V} (k : name) (v : V) (l : list (name * V)) : list (name * V) :=
  match l with
  | [] => [(k, v)]
  | (k', v') :: r => if Nat.eqb k k' then (k, v) :: r else (k', v') :: dict_set k v r
  end.

Definition dict_of {V} (l : list (name * V)) : list (name * V) :=
  fold_left (fun acc kv => dict_set (fst kv) (snd kv) acc) l [].

(* parse_json: the elements of a list are kept when they are primitives or objects; a list
   directly inside a list is dropped *)
Fixpoint json_norm (j : json) : json :=
  match j with
  | JObj fs =>
    JObj (dict_of ((fix go (l : list (name * json)) :=
                      match l with [] => [] | (k, v) :: r => (k, json_norm v) :: go r end) fs))
  | JArr es =>
    JArr ((fix go (l : list json) :=
             match l with
             | [] => []
             | JArr _ :: r => go r
             | e :: r => json_norm e :: go r
             end) es)
  | _ => j
  end.

Definition is_json_open (d : dtok) : bool :=
  match d with DTok PJsonOpen | DTok JOpen2 => true | _ => false end.

Fixpoint parse_json_value (f : nat) (ts : toks) : fres (json * toks) :=
  match f with
  | O => FFuel
  | S f' =>
    match ts with
    | DTok (JString s) :: r => FOk (JStr s, r)
    | DTok JTrue :: r => FOk (JBool true, r)
    | DTok JFalse :: r => FOk (JBool false, r)
    | DTok (JNumber q) :: r => FOk (JNum q, r)
    | DTok JArrL :: DTok JArrR :: r => FOk (JArr [], r)
    | DTok JArrL :: r =>
      do '(es, r1) <- parse_json_elems f' r ;;
      match r1 with
      | DTok JArrR :: r2 => FOk (JArr es, r2)
      | _ => FSyntax
      end
    | d :: r => if is_json_open d then parse_json_object f' ts else FSyntax
    | [] => FSyntax
    end
  end
(* json_value (JSON_COMMA json_value)* *)
with parse_json_elems (f : nat) (ts : toks) : fres (list json * toks) :=
  match f with
  | O => FFuel
  | S f' =>
    do '(e, r) <- parse_json_value f' ts ;;
    match r with
    | DTok JComma :: r1 =>
      do '(es, r2) <- parse_json_elems f' r1 ;; FOk (e :: es, r2)
    | _ => FOk ([e], r)
    end
  end
(* json_open_bracket pair (JSON_COMMA pair)* JSON_CLOSE | json_open_bracket JSON_CLOSE *)
with parse_json_object (f : nat) (ts : toks) : fres (json * toks) :=
  match f with
  | O => FFuel
  | S f' =>
    match ts with
    | d :: DTok JClose :: r => if is_json_open d then FOk (JObj [], r) else FSyntax
    | d :: r =>
      if is_json_open d then
        do '(fs, r1) <- parse_json_pairs f' r ;;
        match r1 with
        | DTok JClose :: r2 => FOk (JObj fs, r2)
        | _ => FSyntax
        end
      else FSyntax
    | [] => FSyntax
    end
  end
(* pair: JSON_STRING JSON_COLON json_value *)
with parse_json_pairs (f : nat) (ts : toks) : fres (list (name * json) * toks) :=
  match f with
  | O => FFuel
  | S f' =>
    match ts with
    | DTok (JString k) :: DTok JColon :: r =>
      do '(v, r1) <- parse_json_value f' r ;;
      match r1 with
      | DTok JComma :: r2 =>
        do '(fs, r3) <- parse_json_pairs f' r2 ;; FOk ((k, v) :: fs, r3)
      | _ => FOk ([(k, v)], r1)
      end
    | _ => FSyntax
    end
  end.

Section Levels.
  Variable T : level_table.
  Variable not_level : nat.

  (* ---- value / number / expression ---- *)
  (* number: MINUS? (INTEGER | FLOAT); cast_element gives int(text) / float(text) *)
  Definition q_of_nat (n : nat) : Q := Qmake (Z.of_nat n) 1.

  Fixpoint parse_expr (f : nat) (p : nat) (ts : toks) : fres (expr * toks) :=
    match f with
    | O => FFuel
    | S f' =>
      do '(lhs, r) <- parse_primary f' ts ;;
      parse_ops f' p lhs r
    end
  with parse_primary (f : nat) (ts : toks) : fres (expr * toks) :=
    match f with
    | O => FFuel
    | S f' =>
      match ts with
      | DTok PLParen :: r =>
        do '(e, r1) <- parse_expr f' impl_paren_level r ;;
        match r1 with
        | DTok PRParen :: r2 => FOk (EParen e, r2)
        | _ => FSyntax
        end
      | DTok OpNot :: r =>
        do '(e, r1) <- parse_expr f' not_level r ;; FOk (ENot e, r1)
      | DTok KTrue :: r => FOk (EBool true, r)
      | DTok KFalse :: r => FOk (EBool false, r)
      | DTok OpMinus :: DTok (TInt n) :: r => FOk (ENum (Qopp (q_of_nat n)), r)
      | DTok OpMinus :: DTok (TFloat q) :: r => FOk (ENum (Qopp q), r)
      | DTok (TInt n) :: r => FOk (ENum (q_of_nat n), r)
      | DTok (TFloat q) :: r => FOk (ENum q, r)
      | DTok (TStr s) :: r => FOk (EStr s, r)
      | DTok (TLower v) :: r =>
        do '(p, r1) <- parse_path_rest f' r ;; FOk (EPath v p, r1)
      | _ => FSyntax
      end
    end
  with parse_ops (f : nat) (p : nat) (lhs : expr) (ts : toks) : fres (expr * toks) :=
    match f with
    | O => FFuel
    | S f' =>
      match ts with
      | DTok t :: r =>
        match op_class t with
        | Some (o, c) =>
          match lookup_level c T with
          | Some (lv, rhs_level) =>
            if p <=? lv then
              do '(rhs, r1) <- parse_expr f' rhs_level r ;;
              parse_ops f' p (EBin o lhs rhs) r1
            else FOk (lhs, ts)
          | None => FSyntax
          end
        | None => FOk (lhs, ts)
        end
      | _ => FOk (lhs, ts)
      end
    end.

  (* the expression parser descends two calls per prefix operator / parenthesis and one per
     operator: it is given three units of fuel per unit of the statement parser *)
  Definition expr_fuel (f : nat) : nat := 3 * f.

  (* visitExpression returns None for a lone string literal: the statement then holds no
     expression at all *)
  Definition top_expr (e : expr) : fres expr :=
    match e with EStr _ => FUnsupported | _ => FOk e end.

  (* ---- call_input: IN INDENT (parameter NL+ | struct_initialization)+ DEDENT ---- *)
  Definition starts_param (ts : toks) : bool :=
    match ts with DTok (TLower _) :: _ | DTok (TUpper _) :: _ => true | _ => false end.

  Definition parse_param (f : nat) (ts : toks) : fres (param * toks) :=
    match ts with
    | DTok (TLower v) :: r =>
      (* parameter: STARTS_WITH_LOWER_C_STR | attribute_access *)
      if starts_dot r then
        do '(p, r1) <- parse_path_tail f r ;;
        do r2 <- nl_plus r1 ;; FOk (PPath v p, r2)
      else
        do r2 <- nl_plus r ;; FOk (PVar v, r2)
    | DTok (TUpper s) :: DIndent :: r =>
      (* struct_initialization: UPPER INDENT json_object NL+ DEDENT *)
      do '(j, r1) <- parse_json_object f r ;;
      do r2 <- nl_plus r1 ;;
      do r3 <- expect_dedent r2 ;;
      FOk (PLit s (json_norm j), r3)
    | DTok (TUpper s) :: r =>
      (* struct_initialization: UPPER NL* json_object NL* *)
      do '(j, r1) <- parse_json_object f (skip_nls r) ;;
      FOk (PLit s (json_norm j), skip_nls r1)
    | _ => FSyntax
    end.

  Fixpoint parse_params (f : nat) (ts : toks) : fres (list param * toks) :=
    match f with
    | O => FFuel
    | S f' =>
      do '(p, r) <- parse_param f' ts ;;
      if starts_param r then
        do '(ps, r1) <- parse_params f' r ;; FOk (p :: ps, r1)
      else FOk ([p], r)
    end.

  (* call_input? call_output? after the INDENT of a call *)
  Definition parse_call_body (f : nat) (ts : toks) : fres ((list param * outparams) * toks) :=
    do '(ins, r) <-
      match ts with
      | DTok KIn :: r0 =>
        do r1 <- expect_indent r0 ;;
        do '(ps, r2) <- parse_params f r1 ;;
        do r3 <- expect_dedent r2 ;; FOk (ps, r3)
      | _ => FOk ([], ts)
      end ;;
    do '(outs, r') <-
      match r with
      | DTok KOut :: r0 => parse_vardef_block f r0
      | _ => FOk ([], r)
      end ;;
    FOk ((ins, outs), r').

  (* service_call / task_call after the name:  NL+  |  INDENT call_input? call_output? DEDENT *)
  Definition parse_call_rest (f : nat) (ts : toks) : fres ((list param * outparams) * toks) :=
    match ts with
    | DNL :: _ => do r <- nl_plus ts ;; FOk (([], []), r)
    | DIndent :: r =>
      do '(io, r1) <- parse_call_body f r ;;
      do r2 <- expect_dedent r1 ;; FOk (io, r2)
    | _ => FSyntax
    end.

  (* task_call+ *)
  Fixpoint parse_task_calls (f : nat) (ts : toks) : fres (list call * toks) :=
    match f with
    | O => FFuel
    | S f' =>
      match ts with
      | DTok (TLower n) :: r =>
        do '((ins, outs), r1) <- parse_call_rest f' r ;;
        let c := {| c_name := n; c_ins := ins; c_outs := outs |} in
        if starts_lower r1 then
          do '(cs, r2) <- parse_task_calls f' r1 ;; FOk (c :: cs, r2)
        else FOk ([c], r1)
      | _ => FSyntax
      end
    end.

  Definition starts_stmt (ts : toks) : bool :=
    match ts with
    | DTok KLoop :: _ | DTok KParallel :: _ | DTok KCondition :: _
    | DTok (TLower _) :: _ | DTok (TUpper _) :: _ => true
    | _ => false
    end.

  (* ---- statement and the rules below it ---- *)
  Fixpoint parse_stmt (f : nat) (ts : toks) : fres (stmt * toks) :=
    match f with
    | O => FFuel
    | S f' =>
      match ts with
      | DTok (TUpper n) :: r =>                               (* service_call *)
        do '((ins, outs), r1) <- parse_call_rest f' r ;; FOk (SService n ins outs, r1)
      | DTok (TLower n) :: r =>                               (* task_call *)
        do '((ins, outs), r1) <- parse_call_rest f' r ;;
        FOk (SCall {| c_name := n; c_ins := ins; c_outs := outs |}, r1)
      | DTok KParallel :: DTok KLoop :: r => parse_counting f' true r
      | DTok KParallel :: r =>                                (* parallel: PARALLEL INDENT task_call+ DEDENT *)
        do r1 <- expect_indent r ;;
        do '(cs, r2) <- parse_task_calls f' r1 ;;
        do r3 <- expect_dedent r2 ;; FOk (SParallel cs, r3)
      | DTok KLoop :: DTok KWhile :: r =>                     (* while_loop *)
        do '(e, r1) <- parse_expr (expr_fuel f') 0 r ;;
        do e' <- top_expr e ;;
        do '(body, r2) <- parse_block f' r1 ;; FOk (SWhile e' body, r2)
      | DTok KLoop :: r => parse_counting f' false r
      | DTok KCondition :: r =>                               (* condition *)
        do r1 <- expect_indent r ;;
        do '(e, r2) <- parse_expr (expr_fuel f') 0 r1 ;;
        do e' <- top_expr e ;;
        do r3 <- nl_plus r2 ;;
        do r4 <- expect_dedent r3 ;;
        match r4 with
        | DTok KPassed :: r5 =>
          do '(passed, r6) <- parse_block f' r5 ;;
          match r6 with
          | DTok KFailed :: r7 =>
            do '(failed, r8) <- parse_block f' r7 ;; FOk (SCond e' passed failed, r8)
          | _ => FOk (SCond e' passed [], r6)
          end
        | _ => FSyntax
        end
      | _ => FSyntax
      end
    end
  (* counting_loop after PARALLEL? LOOP:  LOWER TO (attribute_access | INTEGER) INDENT statement+ DEDENT *)
  with parse_counting (f : nat) (par : bool) (ts : toks) : fres (stmt * toks) :=
    match f with
    | O => FFuel
    | S f' =>
      match ts with
      | DTok (TLower v) :: DTok KTo :: DTok (TInt n) :: r =>
        do '(body, r1) <- parse_block f' r ;; FOk (SCount par v (LimInt n) body, r1)
      | DTok (TLower v) :: DTok KTo :: DTok (TLower x) :: r =>
        do '(p, r1) <- parse_path_rest f' r ;;
        do '(body, r2) <- parse_block f' r1 ;; FOk (SCount par v (LimPath x p) body, r2)
      | _ => FSyntax
      end
    end
  (* INDENT statement+ DEDENT *)
  with parse_block (f : nat) (ts : toks) : fres (list stmt * toks) :=
    match f with
    | O => FFuel
    | S f' =>
      do r <- expect_indent ts ;;
      do '(ss, r1) <- parse_stmts f' r ;;
      do r2 <- expect_dedent r1 ;; FOk (ss, r2)
    end
  (* statement+ *)
  with parse_stmts (f : nat) (ts : toks) : fres (list stmt * toks) :=
    match f with
    | O => FFuel
    | S f' =>
      do '(s, r) <- parse_stmt f' ts ;;
      if starts_stmt r then
        do '(ss, r1) <- parse_stmts f' r ;; FOk (s :: ss, r1)
      else FOk ([s], r)
    end.

  (* ---- struct: STRUCT UPPER INDENT (variable_definition NL+)+ DEDENT END ---- *)
  Definition parse_struct (f : nat) (ts : toks) : fres (structdef * toks) :=
    match ts with
    | DTok KStruct :: DTok (TUpper n) :: r =>
      do '(attrs, r1) <- parse_vardef_block f r ;;
      match r1 with
      | DTok KEnd :: r2 => FOk ({| s_name := n; s_attrs := attrs |}, r2)
      | _ => FSyntax
      end
    | _ => FSyntax
    end.

  (* (STARTS_WITH_LOWER_C_STR NL+)+ *)
  Fixpoint parse_names (f : nat) (ts : toks) : fres (list name * toks) :=
    match f with
    | O => FFuel
    | S f' =>
      match ts with
      | DTok (TLower n) :: r =>
        do r1 <- nl_plus r ;;
        if starts_lower r1 then
          do '(ns, r2) <- parse_names f' r1 ;; FOk (n :: ns, r2)
        else FOk ([n], r1)
      | _ => FSyntax
      end
    end.

  (* task_in?: IN INDENT (variable_definition NL+)+ DEDENT *)
  Definition parse_task_in (f : nat) (ts : toks) : fres (list (name * vtype) * toks) :=
    match ts with
    | DTok KIn :: r => parse_vardef_block f r
    | _ => FOk ([], ts)
    end.

  (* task_out?: OUT INDENT (STARTS_WITH_LOWER_C_STR NL+)+ DEDENT *)
  Definition parse_task_out (f : nat) (ts : toks) : fres (list name * toks) :=
    match ts with
    | DTok KOut :: r =>
      do r1 <- expect_indent r ;;
      do '(ns, r2) <- parse_names f r1 ;;
      do r3 <- expect_dedent r2 ;; FOk (ns, r3)
    | _ => FOk ([], ts)
    end.

  (* ---- task: TASK LOWER INDENT task_in? statement+ task_out? DEDENT END ---- *)
  Definition parse_task (f : nat) (ts : toks) : fres (task * toks) :=
    match ts with
    | DTok KTask :: DTok (TLower n) :: r =>
      do r0 <- expect_indent r ;;
      do '(ins, r1) <- parse_task_in f r0 ;;
      do '(body, r2) <- parse_stmts f r1 ;;
      do '(outs, r3) <- parse_task_out f r2 ;;
      do r4 <- expect_dedent r3 ;;
      match r4 with
      | DTok KEnd :: r5 =>
        FOk ({| t_name := n; t_ins := ins; t_body := body; t_outs := outs |}, r5)
      | _ => FSyntax
      end
    | _ => FSyntax
    end.

  (* ---- program: (NL | struct | task)* EOF ---- *)
  Fixpoint parse_program (f : nat) (ts : toks) : fres program :=
    match f with
    | O => FFuel
    | S f' =>
      match ts with
      | [DEOF] => FOk {| p_structs := []; p_tasks := [] |}
      | DNL :: r => parse_program f' r
      | DTok KStruct :: _ =>
        do '(s, r) <- parse_struct f' ts ;;
        do p <- parse_program f' r ;;
        FOk {| p_structs := s :: p_structs p; p_tasks := p_tasks p |}
      | DTok KTask :: _ =>
        do '(t, r) <- parse_task f' ts ;;
        do p <- parse_program f' r ;;
        FOk {| p_structs := p_structs p; p_tasks := t :: p_tasks p |}
      | _ => FSyntax
      end
    end.
End Levels.

(* ------------------------------------------------------------------------------------ *)
(* The tree visitor's own errors (raised after a successful parse)                      *)
(* ------------------------------------------------------------------------------------ *)
Fixpoint has_dup (l : list name) : bool :=
  match l with
  | [] => false
  | x :: r => mem x r || has_dup r
  end.

(* initializeArray: "Array length has to be specified by an integer" *)
Definition bad_len (t : vtype) : bool :=
  match t with TArray _ (LenVar _) => true | _ => false end.

Definition vardefs_bad (ds : list (name * vtype)) : bool :=
  has_dup (map fst ds) || existsb (fun d => bad_len (snd d)) ds.

Definition call_bad (c : call) : bool := vardefs_bad (c_outs c).

Fixpoint stmt_bad (s : stmt) : bool :=
  match s with
  | SService _ _ outs => vardefs_bad outs
  | SCall c => call_bad c
  | SParallel cs => existsb call_bad cs
  | SWhile _ body => (fix go (l : list stmt) := match l with [] => false | x :: r => stmt_bad x || go r end) body
  | SCount _ _ _ body => (fix go (l : list stmt) := match l with [] => false | x :: r => stmt_bad x || go r end) body
  | SCond _ a b =>
    (fix go (l : list stmt) := match l with [] => false | x :: r => stmt_bad x || go r end) a
    || (fix go (l : list stmt) := match l with [] => false | x :: r => stmt_bad x || go r end) b
  end.

Definition task_bad (t : task) : bool :=
  vardefs_bad (t_ins t) || existsb stmt_bad (t_body t).

Definition visitor_errors (p : program) : bool :=
  has_dup (map s_name (p_structs p)) || has_dup (map t_name (p_tasks p))
  || existsb (fun s => vardefs_bad (s_attrs s)) (p_structs p)
  || existsb task_bad (p_tasks p).
