(* Front/Tokens.v — the token vocabulary of PFDLLexer.g4 (model support file:
   definitions only).

   One constructor per token type of the lexer.  Tokens whose text matters to the
   visitor carry its *value*: identifiers and string contents interned as [name]
   (harness/front_lines.py: FrontInterner), INTEGER as the natural number int(text)
   denotes, FLOAT and the JSON NUMBER as the rational float(text) denotes.  What lies
   below this level — characters to lexemes, maximal munch, the keyword/identifier
   distinction, int()/float()/json string decoding — is NOT modelled; the harness
   establishes it by running the real lexer on the same texts. *)
From PFDL Require Export Syntax.

Inductive tok :=
(* default mode: keywords *)
| KStruct | KTask | KIn | KOut | KLoop | KWhile | KTo | KParallel | KCondition
| KPassed | KFailed | KOnDone | KEnd | KNumberP | KStringP | KBooleanP | KTrue | KFalse
(* default mode: punctuation *)
| PColon | PDot | PComma | PJsonOpen | PQuote | PArrL | PArrR | PLParen | PRParen
(* default mode: operators *)
| OpLt | OpLe | OpGt | OpGe | OpEq | OpNe | OpAnd | OpOr | OpNot
| OpStar | OpSlash | OpMinus | OpPlus
(* default mode: literals and identifiers *)
| TInt (n : nat) | TFloat (q : Q) | TStr (s : name) | TLower (n : name) | TUpper (n : name)
(* JSON mode (entered by '{', left by the matching '}') *)
| JString (s : name) | JTrue | JFalse | JColon | JQuote | JArrL | JArrR | JComma
| JNumber (q : Q) | JOpen2 | JClose.

(* Tokens after the denter: the lexer's own tokens plus the synthesised layout tokens. *)
Inductive dtok := DTok (t : tok) | DNL | DIndent | DDedent | DEOF.

(* '{' pushes the JSON mode, '}' pops it *)
Definition opens_json (t : tok) : bool :=
  match t with PJsonOpen | JOpen2 => true | _ => false end.
Definition closes_json (t : tok) : bool :=
  match t with JClose => true | _ => false end.

(* JSON-mode depth after a list of lexemes, starting from depth d *)
Fixpoint json_depth (d : nat) (ts : list tok) : nat :=
  match ts with
  | [] => d
  | t :: r => json_depth (if opens_json t then S d else if closes_json t then pred d else d) r
  end.
