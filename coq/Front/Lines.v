(* Front/Lines.v — a program text as a list of physical lines (model support file:
   definitions only).

   A line is: its indentation (number of leading blanks), the lexemes on it, an optional
   trailing comment ("# ..." up to the end of the line; only its presence matters), the
   number of blanks between the last lexeme and the comment / line end, and whether the
   line ends with CR LF.  [t_final_nl] says whether the last line is terminated.

   [raw_tokens] is what PFDLLexer's generated [nextToken] (below the denter) produces for
   such a text: the lexemes, and one NL token per line break *in the default mode*,
   carrying the blanks that follow the break, i.e. the indentation of the next line
   (lexer rule  NL: ('\r'? '\n' ' '* )).  Inside a struct literal the lexer is in its JSON
   mode, where line breaks are white space: lines that begin inside '{' ... '}' are
   continuation lines and [join] appends them to the line that opened the literal.
   Comments and blanks are skipped by the lexer (rules COMMENT, WHITESPACE); a comment
   swallows a CR that precedes the LF (COMMENT: '#' ~[\n]* ). *)
From PFDL.Front Require Export Tokens.

Record line := {
  l_indent : nat;
  l_lex : list tok;
  l_comment : option nat;
  l_trail : nat;
  l_cr : bool
}.

Record text := { t_lines : list line; t_final_nl : bool }.

(* tokens of the lexer proper, before the denter *)
Inductive rtok := RTok (t : tok) | RNL (cr : bool) (spaces : nat) | REOF.

(* the NL token that ends line l starts with CR iff the line ends with CR LF and the CR
   was not consumed by a comment *)
Definition nl_cr (l : line) : bool :=
  match l_comment l with Some _ => false | None => l_cr l end.

(* ---- JSON continuation lines ---- *)
(* [join cur d ls]: cur = the logical line being assembled (if any), d = JSON depth at its end *)
Fixpoint join (cur : option line) (d : nat) (ls : list line) : list line :=
  match ls with
  | [] => match cur with Some c => [c] | None => [] end
  | l :: r =>
    match cur with
    | None => join (Some l) (json_depth 0 (l_lex l)) r
    | Some c =>
      match d with
      | O => c :: join (Some l) (json_depth 0 (l_lex l)) r
      | S _ =>
        (* l continues the struct literal opened on c: its indentation is white space; the
           line break that matters afterwards is l's *)
        join (Some {| l_indent := l_indent c; l_lex := l_lex c ++ l_lex l;
                      l_comment := l_comment l; l_trail := l_trail l; l_cr := l_cr l |})
             (json_depth d (l_lex l)) r
      end
    end
  end.

Definition logical_lines (t : text) : list line := join None 0 (t_lines t).

(* ---- the raw token stream ---- *)
(* the lines after the first: each is announced by the NL that ends its predecessor *)
Fixpoint raw_rest (prev : line) (ls : list line) (final_nl : bool) : list rtok :=
  match ls with
  | [] => (if final_nl then [RNL (nl_cr prev) 0] else []) ++ [REOF]
  | l :: r => RNL (nl_cr prev) (l_indent l) :: map RTok (l_lex l) ++ raw_rest l r final_nl
  end.

Definition raw_tokens (t : text) : list rtok :=
  match logical_lines t with
  | [] => [REOF]
  | l :: r => map RTok (l_lex l) ++ raw_rest l r (t_final_nl t)
  end.

(* column of the first token that is not an NL (DenterHelper's first-token rule looks at
   it).  Lines without lexemes contribute no token.  If the text has no lexeme at all the
   first non-NL token is EOF; its column is taken to be 0 (abstraction: the model does not
   know the width of a comment). *)
Fixpoint first_column (ls : list line) : nat :=
  match ls with
  | [] => 0
  | l :: r => match l_lex l with [] => first_column r | _ :: _ => l_indent l end
  end.
