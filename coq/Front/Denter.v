(* Front/Denter.v — executable transliteration of antlr_denter.DenterHelper as
   instantiated by PFDLLexer (nl_token = NL, should_ignore_eof = False), as a function
   from the raw token stream to the token stream the parser sees (model support file:
   definitions only).

   DenterHelper.next_token is a state machine over (dents_buffer, indentations,
   reached_eof); a CommonTokenStream reads it up to and including the first EOF.  The
   function below produces that prefix.  Correspondence with the Python:
     init_if_first_run      -> [denter_init]
     handle_newline_token   -> the RNL case of [run] (+ merging of consecutive NLs)
     unwind_to              -> [unwind]
     apply (at EOF)         -> [at_eof] *)
From PFDL.Front Require Export Lines.

(* indent = len(nl_text) - 1; if indent > 0 and nl_text[0] == '\r': indent -= 1 *)
Definition nl_indent (cr : bool) (spaces : nat) : nat :=
  let len := (if cr then 1 else 0) + 1 + spaces in
  let indent := len - 1 in
  if andb (0 <? indent) cr then indent - 1 else indent.

(* the loop of unwind_to, after the NL has been queued: pops [indentations] *)
Fixpoint unwind_loop (target : nat) (st : list nat) : list dtok * list nat :=
  match st with
  | [] => ([], [])          (* indentations.pop(0) on an empty list: unreachable, the bottom is 0 *)
  | prev :: st' =>
    if prev =? target then ([], st')
    else if prev <? target then ([DIndent], prev :: st')
    else let '(out, st'') := unwind_loop target st' in (DDedent :: out, st'')
  end.

Definition unwind (target : nat) (st : list nat) : list dtok * list nat :=
  let '(out, st') := unwind_loop target st in (DNL :: out, target :: st').

(* apply(EOF): unwind all indentations, then EOF *)
Definition at_eof (st : list nat) : list dtok :=
  match st with
  | [] => [DNL; DEOF]
  | _ => fst (unwind 0 st) ++ [DEOF]
  end.

Fixpoint run (st : list nat) (ts : list rtok) : list dtok :=
  match ts with
  | [] => []                                (* not reached: the stream ends with REOF *)
  | RTok t :: r => DTok t :: run st r
  | REOF :: _ => at_eof st
  | RNL cr sp :: r =>
    match r with
    | RNL _ _ :: _ => run st r              (* while next_next.type == nl_token: t = next_next *)
    | REOF :: _ => at_eof st                (* if next_next.type == EOF: apply(next_next) *)
    | _ =>
      let indent := nl_indent cr sp in
      match st with
      | [] => []                            (* indentations[0] on an empty list: unreachable *)
      | prev :: _ =>
        if indent =? prev then DNL :: run st r
        else if prev <? indent then DIndent :: run (indent :: st) r
        else let '(out, st') := unwind indent st in out ++ run st' r
      end
    end
  end.

Fixpoint drop_nls (ts : list rtok) : list rtok :=
  match ts with
  | RNL _ _ :: r => drop_nls r
  | _ => ts
  end.

(* init_if_first_run: skip leading NLs; a first token that does not start in column 0
   opens a block *)
Definition denter_init (col : nat) (ts : list rtok) : list dtok :=
  if 0 <? col then DIndent :: run [col; 0] (drop_nls ts)
  else run [0] (drop_nls ts).

Definition denter (t : text) : list dtok :=
  denter_init (first_column (logical_lines t)) (raw_tokens t).

(* ------------------------------------------------------------------------------------ *)
(* The structure of a text: its significant lines with their nesting depth.             *)
(* ------------------------------------------------------------------------------------ *)

(* pop the indentation stack down to width i; None when i is not on the stack *)
Fixpoint pop_to (i : nat) (st : list nat) : option (list nat) :=
  match st with
  | [] => None
  | top :: st' =>
    if top =? i then Some st
    else if i <? top then pop_to i st'
    else None
  end.

(* depth of every significant line = height of the indentation stack below it *)
Fixpoint depths (st : list nat) (ls : list line) : option (list (nat * list tok)) :=
  match ls with
  | [] => Some []
  | l :: r =>
    match l_lex l with
    | [] => depths st r                                   (* blank / comment-only line *)
    | _ :: _ =>
      let i := l_indent l in
      match st with
      | [] => None
      | top :: _ =>
        let st1 := if top <? i then Some (i :: st) else pop_to i st in
        match st1 with
        | None => None
        | Some st' =>
          match depths st' r with
          | None => None
          | Some ds => Some ((length st' - 1, l_lex l) :: ds)
          end
        end
      end
    end
  end.

(* the executable well-formedness predicate of layouts: the first significant line
   starts in column 0 and every dedent returns to an indentation that is still open *)
Definition canon (t : text) : option (list (nat * list tok)) :=
  if first_column (logical_lines t) =? 0 then depths [0] (logical_lines t) else None.

Definition layout_ok (t : text) : bool :=
  match canon t with Some _ => true | None => false end.

(* the token stream determined by the structure alone *)
Definition sep (d d' : nat) : list dtok :=
  if d' =? d then [DNL]
  else if d <? d' then [DIndent]
  else DNL :: repeat DDedent (d - d').

Fixpoint skel (d : nat) (ls : list (nat * list tok)) : list dtok :=
  match ls with
  | [] => sep d 0 ++ [DEOF]
  | (d', lex) :: r => sep d d' ++ map DTok lex ++ skel d' r
  end.

Definition skeleton (ls : list (nat * list tok)) : list dtok :=
  match ls with
  | [] => [DNL; DEOF]
  | (d, lex) :: r => map DTok lex ++ skel d r
  end.
