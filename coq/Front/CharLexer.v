(* Front/CharLexer.v — the lexer of PFDLLexer.g4 at the level of characters (model support
   file: definitions only).

   Input: a list of bytes ([ascii]; a text is taken in its UTF-8 encoding, so every
   character outside ASCII is a sequence of bytes >= 128).  Output: the raw token stream
   [Lines.rtok] (what the generated PFDLLexer's own nextToken hands to the DenterHelper)
   or an error (ANTLR: "token recognition error", LexerNoViableAltException; since the
   SyntaxErrorListener is attached to the lexer in utils/parsing_utils.py::parse_string,
   one such error makes the file invalid).

   ANTLR's discipline, as implemented by antlr4.atn.LexerATNSimulator:
     * at every position all rules of the current mode are tried; the LONGEST match wins,
       among rules with the same longest List.length the one written FIRST ([best]);
     * a rule may accept at several lengths; the last accept seen before the simulation
       dies counts (FLOAT falls back to INTEGER on "1.", NUMBER to its INT part on "1e");
     * the non-greedy loop of STRING/JSON_STRING  QUOTE ( BACKSLASH QUOTE | . )*? QUOTE  : once the exit
       branch has accepted, all configurations of the same rule with lower priority are
       dropped.  Worked out on the ATN (exit branch first, then BACKSLASH QUOTE, then '.'), the rule
       accepts at every quote that directly follows a backslash and keeps running there, and
       stops at the first quote that does not directly follow a backslash ([str_body]);
       '.' matches every character, also line breaks;
     * modes: '{' pushes JSON (from either mode), '}' pops it; the mode stack holds JSON
       entries only above the default mode, so it is a depth counter;
     * "-> skip" rules produce no token, but they do consume their match;
     * if no rule accepts any prefix: error.  Nothing is ever consumed without being
       matched by a rule ([scan_covers] in CharLexerProofs.v).

   Every rule is a record [crule]: mode, ANTLR name, a description [rspec] of its pattern
   and its command.  The matcher ([match_spec]) and the source text of the rule body
   ([spec_src]) are both functions of the description; Gen/ObligationsCharLexer.v proves
   that the source texts are those of the current PFDLLexer.g4. *)
From PFDL.Front Require Export Lexemes Lines Denter FrontEnd.
From Coq Require Import Ascii String.
Import ListNotations.
Local Open Scope char_scope.

(* ------------------------------------------------------------------------------------ *)
(* Characters and character classes                                                      *)
(* ------------------------------------------------------------------------------------ *)
Definition ch_lf : ascii := ascii_of_nat 10.
Definition ch_cr : ascii := ascii_of_nat 13.
Definition ch_tab : ascii := ascii_of_nat 9.
Definition ch_quote : ascii := ascii_of_nat 34.
Definition ch_bslash : ascii := ascii_of_nat 92.

Definition code (c : ascii) : N := N_of_ascii c.

(* a class is a list of inclusive ranges *)
Definition cclass := list (ascii * ascii).

Definition in_class (k : cclass) (c : ascii) : bool :=
  existsb (fun r => andb (N.leb (code (fst r)) (code c)) (N.leb (code c) (code (snd r)))) k.

Definition cl_lower : cclass := [("a", "z")].
Definition cl_upper : cclass := [("A", "Z")].
Definition cl_idrest : cclass := [("a", "z"); ("A", "Z"); ("0", "9"); ("_", "_")].
Definition cl_digit : cclass := [("0", "9")].
Definition cl_digit19 : cclass := [("1", "9")].
Definition cl_blank : cclass := [(" ", " "); (ch_tab, ch_tab)].
Definition cl_ws : cclass := [(" ", " "); (ch_tab, ch_tab); (ch_lf, ch_lf); (ch_cr, ch_cr)].
Definition cl_lf : cclass := [(ch_lf, ch_lf)].
Definition cl_exp : cclass := [("E", "E"); ("e", "e")].
Definition cl_sign : cclass := [("+", "+"); ("-", "-")].

Definition is_lower := in_class cl_lower.
Definition is_upper := in_class cl_upper.
Definition is_idrest := in_class cl_idrest.
Definition is_digit := in_class cl_digit.
Definition is_blank := in_class cl_blank.
Definition is_ws := in_class cl_ws.
Definition not_lf (c : ascii) : bool := negb (in_class cl_lf c).
Definition is_space (c : ascii) : bool := Ascii.eqb c " ".

Definition chars (s : string) : list ascii := list_ascii_of_string s.

(* ------------------------------------------------------------------------------------ *)
(* Matchers: List.length of the longest accepted prefix, or None                              *)
(* ------------------------------------------------------------------------------------ *)
Fixpoint span (p : ascii -> bool) (cs : list ascii) : nat :=
  match cs with
  | c :: r => if p c then S (span p r) else 0
  | [] => 0
  end.

Fixpoint prefix (s cs : list ascii) : bool :=
  match s with
  | [] => true
  | a :: s' => match cs with
               | c :: cs' => andb (Ascii.eqb a c) (prefix s' cs')
               | [] => false
               end
  end.

Definition m_lit (s : list ascii) (cs : list ascii) : option nat :=
  if prefix s cs then Some (List.length s) else None.

(* K+ *)
Definition m_plus (p : ascii -> bool) (cs : list ascii) : option nat :=
  match span p cs with 0 => None | n => Some n end.

(* COMMENT: '#' ~[\n]* *)
Definition m_comment (cs : list ascii) : option nat :=
  match cs with
  | c :: r => if Ascii.eqb c "#" then Some (S (span not_lf r)) else None
  | [] => None
  end.

(* JSON_COMMENT: '#' ~[\n]+ *)
Definition m_jcomment (cs : list ascii) : option nat :=
  match cs with
  | c :: r => if Ascii.eqb c "#" then match span not_lf r with 0 => None | n => Some (S n) end else None
  | [] => None
  end.

(* NL: '\r'? '\n' ' '* *)
Definition m_nl (cs : list ascii) : option nat :=
  match cs with
  | c :: r =>
    if Ascii.eqb c ch_lf then Some (S (span is_space r))
    else if Ascii.eqb c ch_cr then
      match r with
      | c2 :: r2 => if Ascii.eqb c2 ch_lf then Some (S (S (span is_space r2))) else None
      | [] => None
      end
    else None
  | [] => None
  end.

(* FLOAT: INTEGER '.' INTEGER  with INTEGER: [0-9]+ *)
Definition m_float (cs : list ascii) : option nat :=
  match span is_digit cs with
  | 0 => None
  | n =>
    match skipn n cs with
    | c :: r => if Ascii.eqb c "." then match span is_digit r with 0 => None | k => Some (n + 1 + k) end
                else None
    | [] => None
    end
  end.

(* [a-z][a-zA-Z0-9_]*  /  [A-Z][a-zA-Z0-9_]* *)
Definition m_ident (first : ascii -> bool) (cs : list ascii) : option nat :=
  match cs with
  | c :: r => if first c then Some (S (span is_idrest r)) else None
  | [] => None
  end.

(* the part of  QUOTE ( BACKSLASH QUOTE | . )*? QUOTE  after the opening quote; esc = the previous
   character of the body is a backslash.  Result: number of characters up to and including
   the accepting quote. *)
Fixpoint str_body (esc : bool) (cs : list ascii) : option nat :=
  match cs with
  | [] => None
  | c :: r =>
    if Ascii.eqb c ch_quote then
      if esc then
        (* accepted here; the configurations that read backslash-quote as an escape run on *)
        match str_body false r with Some n => Some (S n) | None => Some 1 end
      else Some 1
    else match str_body (Ascii.eqb c ch_bslash) r with Some n => Some (S n) | None => None end
  end.

Definition m_string (cs : list ascii) : option nat :=
  match cs with
  | c :: r => if Ascii.eqb c ch_quote then option_map S (str_body false r) else None
  | [] => None
  end.

(* fragment INT: '0' | [1-9] [0-9]* *)
Definition m_int (cs : list ascii) : option nat :=
  match cs with
  | c :: r => if Ascii.eqb c "0" then Some 1
              else if in_class cl_digit19 c then Some (S (span is_digit r)) else None
  | [] => None
  end.

Definition opt0 (o : option nat) : nat := match o with Some n => n | None => 0 end.

(* ('.' [0-9]+) *)
Definition m_frac (cs : list ascii) : option nat :=
  match cs with
  | c :: r => if Ascii.eqb c "." then match span is_digit r with 0 => None | k => Some (S k) end else None
  | [] => None
  end.

(* fragment EXP: [Ee] [+\-]? INT *)
Definition m_exp (cs : list ascii) : option nat :=
  match cs with
  | c :: r =>
    if in_class cl_exp c then
      match r with
      | s :: r2 => if in_class cl_sign s then option_map (fun k => 2 + k) (m_int r2)
                   else option_map S (m_int r)
      | [] => None
      end
    else None
  | [] => None
  end.

(* NUMBER: '-'? INT ('.' [0-9]+)? EXP? *)
Definition m_number (cs : list ascii) : option nat :=
  let '(sg, r) := match cs with
                  | c :: r => if Ascii.eqb c "-" then (1, r) else (0, cs)
                  | [] => (0, cs)
                  end in
  match m_int r with
  | None => None
  | Some n =>
    let r1 := skipn n r in
    let f := opt0 (m_frac r1) in
    let e := opt0 (m_exp (skipn f r1)) in
    Some (sg + n + f + e)
  end.

(* ------------------------------------------------------------------------------------ *)
(* Rule descriptions                                                                    *)
(* ------------------------------------------------------------------------------------ *)
Inductive command := CNone | CSkip | CPush | CPop.

Inductive rspec :=
| SLit (s : string)          (* 'text' *)
| SComment                   (* '#' ~[\n]* *)
| SJComment                  (* '#' ~[\n]+ *)
| SBlanks                    (* [ \t]+ *)
| SWs                        (* [ \t\n\r]+ *)
| SNewline                   (* ('\r'? '\n' ' '* ) *)
| SInteger                   (* [0-9]+ *)
| SFloat                     (* INTEGER '.' INTEGER *)
| SString                    (* QUOTE ( BACKSLASH QUOTE | . )*? QUOTE *)
| SIdent (upper : bool)      (* [a-z][a-zA-Z0-9_]*  /  [A-Z][a-zA-Z0-9_]* *)
| SNumber.                   (* '-'? INT ('.' [0-9]+)? EXP? *)

Definition match_spec (s : rspec) : list ascii -> option nat :=
  match s with
  | SLit t => m_lit (chars t)
  | SComment => m_comment
  | SJComment => m_jcomment
  | SBlanks => m_plus is_blank
  | SWs => m_plus is_ws
  | SNewline => m_nl
  | SInteger => m_plus is_digit
  | SFloat => m_float
  | SString => m_string
  | SIdent false => m_ident is_lower
  | SIdent true => m_ident is_upper
  | SNumber => m_number
  end.

(* what a rule produces: a token of the model (its shape: the constructor, payload 0) or
   one of the rules that are not tokens of the model *)
Inductive lrule := RT (shape : tok) | RComment | RBlanks | RNewline | RJComment | RJWs.

Record crule := {
  cr_mode : string;
  cr_name : string;
  cr_spec : rspec;
  cr_cmd : command;
  cr_id : lrule
}.

Definition mk (m n : string) (s : rspec) (c : command) (i : lrule) : crule :=
  {| cr_mode := m; cr_name := n; cr_spec := s; cr_cmd := c; cr_id := i |}.

(* a token rule of the model: mode and name come from Lexemes.tok_rule *)
Definition tk (t : tok) (s : rspec) (c : command) : crule :=
  mk (fst (tok_rule t)) (snd (tok_rule t)) s c (RT t).

Local Open Scope string_scope.

(* the rules of the default mode, in the order of PFDLLexer.g4 *)
Definition default_rules : list crule :=
  [ tk KStruct (SLit "Struct") CNone; tk KTask (SLit "Task") CNone; tk KIn (SLit "In") CNone;
    tk KOut (SLit "Out") CNone; tk KLoop (SLit "Loop") CNone; tk KWhile (SLit "While") CNone;
    tk KTo (SLit "To") CNone; tk KParallel (SLit "Parallel") CNone;
    tk KCondition (SLit "Condition") CNone; tk KPassed (SLit "Passed") CNone;
    tk KFailed (SLit "Failed") CNone; tk KOnDone (SLit "OnDone") CNone; tk KEnd (SLit "End") CNone;
    tk KNumberP (SLit "number") CNone; tk KStringP (SLit "string") CNone;
    tk KBooleanP (SLit "boolean") CNone; tk KTrue (SLit "true") CNone; tk KFalse (SLit "false") CNone;
    tk PColon (SLit ":") CNone; tk PDot (SLit ".") CNone; tk PComma (SLit ",") CNone;
    tk PJsonOpen (SLit "{") CPush; tk PQuote (SLit """") CNone;
    tk PArrL (SLit "[") CNone; tk PArrR (SLit "]") CNone;
    mk "DEFAULT_MODE" "COMMENT" SComment CSkip RComment;
    mk "DEFAULT_MODE" "WHITESPACE" SBlanks CSkip RBlanks;
    mk "DEFAULT_MODE" "NL" SNewline CNone RNewline;
    tk PLParen (SLit "(") CNone; tk PRParen (SLit ")") CNone;
    tk OpLt (SLit "<") CNone; tk OpLe (SLit "<=") CNone; tk OpGt (SLit ">") CNone;
    tk OpGe (SLit ">=") CNone; tk OpEq (SLit "==") CNone; tk OpNe (SLit "!=") CNone;
    tk OpAnd (SLit "And") CNone; tk OpOr (SLit "Or") CNone; tk OpNot (SLit "!") CNone;
    tk OpStar (SLit "*") CNone; tk OpSlash (SLit "/") CNone; tk OpMinus (SLit "-") CNone;
    tk OpPlus (SLit "+") CNone;
    tk (TInt 0) SInteger CNone; tk (TFloat 0) SFloat CNone; tk (TStr 0) SString CNone;
    tk (TLower 0) (SIdent false) CNone; tk (TUpper 0) (SIdent true) CNone ].

(* the rules of the JSON mode (the fragments INT and EXP are part of SNumber) *)
Definition json_rules : list crule :=
  [ tk (JString 0) SString CNone; tk JTrue (SLit "true") CNone; tk JFalse (SLit "false") CNone;
    tk JColon (SLit ":") CNone; tk JQuote (SLit """") CNone;
    mk "JSON" "JSON_COMMENT" SJComment CSkip RJComment;
    tk JArrL (SLit "[") CNone; tk JArrR (SLit "]") CNone; tk JComma (SLit ",") CNone;
    tk (JNumber 0) SNumber CNone;
    mk "JSON" "WS" SWs CSkip RJWs;
    tk JOpen2 (SLit "{") CPush; tk JClose (SLit "}") CPop ].

Local Close Scope string_scope.

(* the mode is the depth of the mode stack: 0 = default mode, S _ = JSON *)
Definition rules_of (depth : nat) : list crule :=
  match depth with O => default_rules | S _ => json_rules end.

Definition depth_after (c : command) (d : nat) : nat :=
  match c with CPush => S d | CPop => pred d | _ => d end.

(* ------------------------------------------------------------------------------------ *)
(* Longest match, first rule among equals                                               *)
(* ------------------------------------------------------------------------------------ *)
Fixpoint best (rs : list crule) (cs : list ascii) (acc : option (crule * nat)) : option (crule * nat) :=
  match rs with
  | [] => acc
  | r :: rest =>
    let acc' :=
      match match_spec (cr_spec r) cs with
      | Some n =>
        match acc with
        | Some (_, m) => if Nat.ltb m n then Some (r, n) else acc
        | None => Some (r, n)
        end
      | None => acc
      end in
    best rest cs acc'
  end.

Definition best_match (depth : nat) (cs : list ascii) : option (crule * nat) :=
  best (rules_of depth) cs None.

(* ------------------------------------------------------------------------------------ *)
(* The scanner: all matched lexemes (skipped ones included), or the place of the error   *)
(* ------------------------------------------------------------------------------------ *)
Record lexeme := Lx { lx_rule : lrule; lx_text : list ascii }.

(* (lexemes matched, None) at the end of the input; (lexemes matched, Some rest) when no
   rule matches a prefix of [rest] *)
Definition scan_result := (list lexeme * option (list ascii))%type.

Definition push_lx (x : lexeme) (r : scan_result) : scan_result := (x :: fst r, snd r).

(* fuel: every token consumes at least one character (a match of List.length 0 is treated as
   no match: no rule of this grammar accepts the empty string), so [length cs] suffices *)
Fixpoint scan (fuel : nat) (depth : nat) (cs : list ascii) : scan_result :=
  match cs with
  | [] => ([], None)
  | _ :: _ =>
    match fuel with
    | O => ([], Some cs)
    | S fuel' =>
      match best_match depth cs with
      | Some (r, S n) =>
        push_lx (Lx (cr_id r) (firstn (S n) cs))
                (scan fuel' (depth_after (cr_cmd r) depth) (skipn (S n) cs))
      | _ => ([], Some cs)
      end
    end
  end.

Definition scan_all (cs : list ascii) : scan_result := scan (List.length cs) 0 cs.

(* ------------------------------------------------------------------------------------ *)
(* From lexemes to the tokens of the model                                              *)
(* ------------------------------------------------------------------------------------ *)
Definition digit_val (c : ascii) : nat := nat_of_ascii c - 48.

Definition nat_of_digits (cs : list ascii) : nat :=
  fold_left (fun a c => 10 * a + digit_val c) cs 0.

Definition Z_of_digits (cs : list ascii) : Z :=
  fold_left (fun a c => (10 * a + Z.of_nat (digit_val c))%Z) cs 0%Z.

Definition pow10 (n : nat) : positive := Pos.pow 10 (Pos.of_nat n).

(* mantissa * 10^e as a reduced fraction *)
Definition scale10 (m : Z) (e : Z) : Q :=
  match e with
  | Z0 => Qred (Qmake m 1)
  | Zpos p => Qred (Qmake (m * Z.pos (Pos.pow 10 p)) 1)
  | Zneg p => Qred (Qmake m (Pos.pow 10 p))
  end.

(* float(text) of  D+ '.' D+ *)
Definition q_of_float (cs : list ascii) : Q :=
  let n := span is_digit cs in
  let ip := firstn n cs in
  let fp := skipn (S n) cs in
  scale10 (Z_of_digits (ip ++ fp)) (- Z.of_nat (List.length fp)).

(* Fraction(text) of a JSON NUMBER *)
Definition q_of_number (cs : list ascii) : Q :=
  let '(neg, r) := match cs with
                   | c :: r => if Ascii.eqb c "-"%char then (true, r) else (false, cs)
                   | [] => (false, cs)
                   end in
  let n := span is_digit r in
  let ip := firstn n r in
  let r1 := skipn n r in
  let f := opt0 (m_frac r1) in
  let fp := skipn 1 (firstn f r1) in
  let r2 := skipn f r1 in
  let ex : Z :=
    match r2 with
    | _ :: s :: r3 =>
      if Ascii.eqb s "-"%char then (- Z_of_digits r3)%Z
      else if Ascii.eqb s "+"%char then Z_of_digits r3 else Z_of_digits (s :: r3)
    | _ => 0%Z
    end in
  let m := Z_of_digits (ip ++ fp) in
  scale10 (if neg then (- m)%Z else m) (ex - Z.of_nat (List.length fp)).

(* the text between the quotes *)
Definition str_inner (cs : list ascii) : list ascii := removelast (tl cs).

Section Intern.
  (* identifiers and string contents are names of the model: the interning of their text *)
  Variable intern : list ascii -> name.

  Definition conv (shape : tok) (txt : list ascii) : tok :=
    match shape with
    | TInt _ => TInt (nat_of_digits txt)
    | TFloat _ => TFloat (q_of_float txt)
    | TStr _ => TStr (intern (str_inner txt))
    | TLower _ => TLower (intern txt)
    | TUpper _ => TUpper (intern txt)
    | JString _ => JString (intern (str_inner txt))
    | JNumber _ => JNumber (q_of_number txt)
    | t => t
    end.

  (* NL: '\r'? '\n' ' '*  ->  RNL (starts with CR) (number of blanks) *)
  Definition nl_token (txt : list ascii) : rtok :=
    match txt with
    | c :: r => if Ascii.eqb c ch_cr then RNL true (List.length r - 1) else RNL false (List.length r)
    | [] => RNL false 0
    end.

  Fixpoint emit (ls : list lexeme) : list rtok :=
    match ls with
    | [] => [REOF]
    | Lx (RT sh) txt :: r => RTok (conv sh txt) :: emit r
    | Lx RNewline txt :: r => nl_token txt :: emit r
    | Lx _ _ :: r => emit r
    end.
End Intern.

(* ---- column of the first token that is not an NL (DenterHelper's first-token rule) ---- *)
(* ANTLR counts characters, the model sees UTF-8 bytes: continuation bytes 10xxxxxx do not
   advance the column *)
Definition is_cont (c : ascii) : bool := andb (N.leb 128 (code c)) (N.leb (code c) 191).

Fixpoint col_after (col : nat) (cs : list ascii) : nat :=
  match cs with
  | [] => col
  | c :: r => col_after (if Ascii.eqb c ch_lf then 0 else if is_cont c then col else S col) r
  end.

Definition emits_token (r : lrule) : bool :=
  match r with RT _ => true | _ => false end.

(* column of the first RT lexeme; if there is none, of EOF *)
Fixpoint first_col (col : nat) (ls : list lexeme) : nat :=
  match ls with
  | [] => col
  | Lx r txt :: rest => if emits_token r then col else first_col (col_after col txt) rest
  end.

(* ------------------------------------------------------------------------------------ *)
(* The lexer and the front end on characters                                            *)
(* ------------------------------------------------------------------------------------ *)
Inductive lex_result :=
| LexOk (ts : list rtok) (first_column : nat)
| LexError (before : list rtok) (at_offset : nat).   (* tokens before the error, its offset *)

Definition lex (intern : list ascii -> name) (cs : list ascii) : lex_result :=
  match scan_all cs with
  | (ls, None) => LexOk (emit intern ls) (first_col 0 ls)
  | (ls, Some rest) => LexError (removelast (emit intern ls)) (List.length cs - List.length rest)
  end.

(* utils/parsing_utils.py::parse_string up to the semantic checker, on characters: a token
   recognition error makes the file invalid *)
Definition front_end_chars (intern : list ascii -> name) (cs : list ascii) : fres program :=
  match lex intern cs with
  | LexError _ _ => FSyntax
  | LexOk ts col =>
    do p <- parse_tokens (denter_init col ts) ;;
    if visitor_errors p then FVisitor else FOk p
  end.

(* ------------------------------------------------------------------------------------ *)
(* The source text of the rules (compared with the regenerated table in                  *)
(* Gen/ObligationsCharLexer.v)                                                          *)
(* ------------------------------------------------------------------------------------ *)
Local Open Scope string_scope.

Definition str1 (c : ascii) : string := String c EmptyString.

(* a character inside '...' or [...] as the grammar file writes it *)
Definition esc_char (c : ascii) : string :=
  if Ascii.eqb c ch_lf then "\n"
  else if Ascii.eqb c ch_cr then "\r"
  else if Ascii.eqb c ch_tab then "\t"
  else if Ascii.eqb c ch_bslash then "\\"
  else str1 c.

Definition esc_set_char (c : ascii) : string :=
  if Ascii.eqb c "-"%char then "\-" else esc_char c.

Definition lit_src (s : string) : string :=
  "'" ++ String.concat "" (map esc_char (chars s)) ++ "'".

Definition set_src (k : cclass) : string :=
  "[" ++ String.concat "" (map (fun r => if Ascii.eqb (fst r) (snd r) then esc_set_char (fst r)
                                  else esc_set_char (fst r) ++ "-" ++ esc_set_char (snd r)) k) ++ "]".

Definition spec_src (s : rspec) : string :=
  match s with
  | SLit t => lit_src t
  | SComment => lit_src "#" ++ " ~" ++ set_src cl_lf ++ "*"
  | SJComment => lit_src "#" ++ " ~" ++ set_src cl_lf ++ "+"
  | SBlanks => set_src cl_blank ++ "+"
  | SWs => set_src cl_ws ++ "+"
  | SNewline => "(" ++ lit_src (str1 ch_cr) ++ "? " ++ lit_src (str1 ch_lf) ++ " " ++ lit_src " " ++ "*)"
  | SInteger => set_src cl_digit ++ "+"
  | SFloat => "INTEGER " ++ lit_src "." ++ " INTEGER"
  | SString => lit_src (str1 ch_quote) ++ " (" ++ lit_src (String ch_bslash (str1 ch_quote)) ++ " | .)*? "
               ++ lit_src (str1 ch_quote)
  | SIdent false => set_src cl_lower ++ set_src cl_idrest ++ "*"
  | SIdent true => set_src cl_upper ++ set_src cl_idrest ++ "*"
  | SNumber => lit_src "-" ++ "? INT (" ++ lit_src "." ++ " " ++ set_src cl_digit ++ "+)? EXP?"
  end.

Definition cmd_src (c : command) : string :=
  match c with
  | CNone => "" | CSkip => " -> skip" | CPush => " -> pushMode(JSON)" | CPop => " -> popMode"
  end.

Definition rule_src (r : crule) : string * string * string :=
  (cr_mode r, cr_name r, spec_src (cr_spec r) ++ cmd_src (cr_cmd r)).

(* the fragments used by SNumber ([m_int], [m_exp]) *)
Definition fragment_srcs : list (string * string * string) :=
  [ ("JSON", "fragment INT", lit_src "0" ++ " | " ++ set_src cl_digit19 ++ " " ++ set_src cl_digit ++ "*");
    ("JSON", "fragment EXP", set_src cl_exp ++ " " ++ set_src cl_sign ++ "? INT") ].

(* all rules in the order of the grammar file: the fragments follow NUMBER *)
Definition char_rule_sources : list (string * string * string) :=
  (map rule_src default_rules ++ map rule_src (firstn 10 json_rules) ++ fragment_srcs
   ++ map rule_src (skipn 10 json_rules))%list.

(* a rule with command skip yields no token; pushMode / popMode are the two switches *)
Definition skip_rule (r : lrule) : bool :=
  match r with RComment | RBlanks | RJComment | RJWs => true | _ => false end.

(* (mode, ANTLR name) of a lexeme's rule, for the correspondence check *)
Definition lrule_name (r : lrule) : string * string :=
  match r with
  | RT t => tok_rule t
  | RComment => ("DEFAULT_MODE", "COMMENT")
  | RBlanks => ("DEFAULT_MODE", "WHITESPACE")
  | RNewline => ("DEFAULT_MODE", "NL")
  | RJComment => ("JSON", "JSON_COMMENT")
  | RJWs => ("JSON", "WS")
  end.

(* ------------------------------------------------------------------------------------ *)
(* Alphabets: the characters that can occur in a match of a rule                         *)
(* ------------------------------------------------------------------------------------ *)
Definition in_alphabet (s : rspec) (c : ascii) : bool :=
  match s with
  | SLit t => existsb (Ascii.eqb c) (chars t)
  | SComment | SJComment | SString => true
  | SBlanks => is_blank c
  | SWs => is_ws c
  | SNewline => Ascii.eqb c ch_cr || Ascii.eqb c ch_lf || is_space c
  | SInteger => is_digit c
  | SFloat => is_digit c || Ascii.eqb c "."%char
  | SIdent _ => is_idrest c
  | SNumber => is_digit c || Ascii.eqb c "-"%char || Ascii.eqb c "."%char || in_class cl_exp c || in_class cl_sign c
  end.

(* the rules that match arbitrary characters: comments and string literals *)
Definition universal (s : rspec) : bool :=
  match s with SComment | SJComment | SString => true | _ => false end.

Definition free_text_rule (r : lrule) : bool :=
  match r with RComment | RJComment | RT (TStr _) | RT (JString _) => true | _ => false end.

(* a character outside the language: in the alphabet of no rule of either mode, comments
   and string literals apart ('#' itself opens a comment).  These are the 168 bytes other
   than TAB LF CR SPACE ! QUOTE # ( ) * + , - . / 0-9 : < = > A-Z [ ] _ a-z { } *)
Definition illegal (c : ascii) : bool :=
  negb (Ascii.eqb c "#"%char) &&
  forallb (fun r => universal (cr_spec r) || negb (in_alphabet (cr_spec r) c)) (default_rules ++ json_rules).

(* the rule of the lexeme that covers position k of the input *)
Fixpoint covering (ls : list lexeme) (k : nat) : option lrule :=
  match ls with
  | [] => None
  | l :: r => if Nat.ltb k (List.length (lx_text l)) then Some (lx_rule l)
              else covering r (k - List.length (lx_text l))
  end.

(* ------------------------------------------------------------------------------------ *)
(* Support for the correspondence check (harness/front_chars.py): texts travel as        *)
(* strings of hexadecimal digits                                                        *)
(* ------------------------------------------------------------------------------------ *)
Definition hex_digit (n : N) : ascii :=
  ascii_of_N (if N.ltb n 10 then 48 + n else 87 + n).

Fixpoint hex_of (cs : list ascii) : string :=
  match cs with
  | [] => EmptyString
  | c :: r => String (hex_digit (N.div (code c) 16)) (String (hex_digit (N.modulo (code c) 16)) (hex_of r))
  end.

Definition hex_val (c : ascii) : N :=
  let n := code c in if N.ltb n 58 then n - 48 else n - 87.

Fixpoint unhex (s : string) : list ascii :=
  match s with
  | String a (String b r) => ascii_of_N (16 * hex_val a + hex_val b) :: unhex r
  | _ => []
  end.

(* the tokens (rule name, text) produced before the end of the input / the first error, the
   offset of the error, the column of the first token that is not an NL (0 after an error) *)
Definition view (cs : list ascii) : list (string * string) * option nat * nat :=
  let '(ls, e) := scan_all cs in
  (map (fun l => (snd (lrule_name (lx_rule l)), hex_of (lx_text l)))
       (filter (fun l => negb (skip_rule (lx_rule l))) ls),
   option_map (fun rest => List.length cs - List.length rest) e,
   match e with None => first_col 0 ls | Some _ => 0 end).

(* an interning given by a finite table (hex text, name); texts outside the table are 0 *)
Fixpoint intern_of_table (tab : list (string * name)) (cs : list ascii) : name :=
  match tab with
  | [] => 0
  | (h, n) :: r => if String.eqb h (hex_of cs) then n else intern_of_table r cs
  end.
