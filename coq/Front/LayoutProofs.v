(* Front/LayoutProofs.v — every text produced by [render] has the structure of the program:
   canon (render L p) = Some (flatten 0 (forest_of p)); hence the round trip for the family
   of layouts [layout]. *)
From PFDL.Front Require Import Render DenterProofs ParserProofs RenderProofs RoundTrip.
From Coq Require Import Lia.

(* ---- lines are balanced in '{' '}' : no line ends inside a struct literal ---- *)
Definition no_brace (t : tok) : bool := negb (opens_json t) && negb (closes_json t).

Lemma json_depth_app : forall a b d, json_depth d (a ++ b) = json_depth (json_depth d a) b.
Proof. induction a as [|t a IH]; intros b d; [reflexivity|]. cbn [app json_depth]. apply IH. Qed.

Lemma json_depth_nobrace : forall lex d, forallb no_brace lex = true -> json_depth d lex = d.
Proof.
  induction lex as [|t lex IH]; intros d H; [reflexivity|].
  cbn [forallb] in H. apply andb_prop in H. destruct H as [Ht Hl].
  unfold no_brace in Ht. apply andb_prop in Ht. destruct Ht as [Ho Hc].
  apply Bool.negb_true_iff in Ho. apply Bool.negb_true_iff in Hc.
  cbn [json_depth]. rewrite Ho, Hc. apply IH. exact Hl.
Qed.

Lemma json_depth_json : forall j top d, json_depth d (toks_json top j) = d.
Proof.
  induction j as [q|b|s|fs IH|es IH] using json_ind'; intros top d.
  - reflexivity.
  - destruct b; reflexivity.
  - reflexivity.
  - rewrite toks_json_obj.
    assert (Hp : forall d0, json_depth d0 (toks_pairs fs) = d0).
    { induction fs as [|[k v] fs IHfs]; intros d0; [reflexivity|].
      inversion IH as [|? ? Hv Hfs]; subst. cbn [snd] in Hv.
      destruct fs as [|kv2 fs].
      - cbn [toks_pairs json_depth opens_json closes_json]. apply Hv.
      - rewrite toks_pairs_cons2. cbn [json_depth opens_json closes_json].
        rewrite json_depth_app, Hv. cbn [json_depth opens_json closes_json]. apply IHfs. exact Hfs. }
    assert (Hopen : opens_json (if top then PJsonOpen else JOpen2) = true) by (destruct top; reflexivity).
    cbn [json_depth]. rewrite Hopen. rewrite json_depth_app, Hp. reflexivity.
  - rewrite toks_json_arr.
    assert (Hp : forall d0, json_depth d0 (toks_elems es) = d0).
    { induction es as [|v es IHes]; intros d0; [reflexivity|].
      inversion IH as [|? ? Hv Hes]; subst.
      destruct es as [|v2 es].
      - cbn [toks_elems]. apply Hv.
      - rewrite toks_elems_cons2. rewrite json_depth_app, Hv.
        cbn [json_depth opens_json closes_json]. apply IHes. exact Hes. }
    cbn [json_depth opens_json closes_json]. rewrite json_depth_app, Hp. reflexivity.
Qed.

Lemma toks_json_nonempty : forall j top, toks_json top j <> [].
Proof. intros [q|[|]|s|fs|es] top; try discriminate; rewrite ?toks_json_obj, ?toks_json_arr; discriminate. Qed.

(* the property of a line that [canon] needs *)
Definition line_good (lex : list tok) : Prop := lex <> [] /\ json_depth 0 lex = 0.

Lemma good_nobrace : forall lex, lex <> [] -> forallb no_brace lex = true -> line_good lex.
Proof. intros lex Hne H. split; [exact Hne|apply json_depth_nobrace; exact H]. Qed.

Lemma nobrace_prim : forall p, forallb no_brace (toks_prim p) = true.
Proof. intros []; reflexivity. Qed.

Lemma nobrace_vtype : forall t, forallb no_brace (toks_vtype t) = true.
Proof. intros [p|p [ |n|v]]; cbn [toks_vtype]; rewrite ?forallb_app, ?nobrace_prim; reflexivity. Qed.

Lemma good_vardef : forall d, line_good (toks_vardef d).
Proof.
  intros [n t]. apply good_nobrace; [discriminate|].
  unfold toks_vardef. cbn [fst snd forallb]. rewrite nobrace_vtype. reflexivity.
Qed.

Lemma nobrace_path : forall p, forallb no_brace (toks_path p) = true.
Proof.
  unfold toks_path. induction p as [|e p IH]; [reflexivity|].
  cbn [flat_map]. rewrite forallb_app, IH. destruct e; reflexivity.
Qed.

Lemma nobrace_num : forall q, forallb no_brace (toks_num q) = true.
Proof.
  intros q. unfold toks_num, toks_posnum.
  destruct (Qnum q <? 0)%Z; [destruct (Qden (Qopp q))|destruct (Qden q)]; reflexivity.
Qed.

Lemma nobrace_expr : forall e, forallb no_brace (toks_expr e) = true.
Proof.
  induction e as [q|b|s|x pth|x IHx|x IHx|o l IHl r IHr]; cbn [toks_expr].
  - apply nobrace_num.
  - destruct b; reflexivity.
  - reflexivity.
  - cbn [forallb]. rewrite nobrace_path. reflexivity.
  - cbn [forallb]. rewrite IHx. reflexivity.
  - cbn [forallb]. rewrite forallb_app, IHx. reflexivity.
  - rewrite forallb_app. cbn [forallb]. rewrite IHl, IHr. destruct o; reflexivity.
Qed.

Lemma toks_expr_nonempty : forall e, toks_expr e <> [].
Proof.
  intros [q|[|]|s|x pth|x|x|o l r]; cbn [toks_expr]; try discriminate.
  - unfold toks_num. destruct (Qnum q <? 0)%Z; discriminate.
  - destruct (toks_expr l); discriminate.
Qed.

Lemma nobrace_limit : forall l, forallb no_brace (toks_limit l) = true.
Proof. intros [n|v p]; cbn [toks_limit forallb]; rewrite ?nobrace_path; reflexivity. Qed.

(* ---- all lines of a forest are good ---- *)
Definition good_forest (d : nat) (f : list ltree) : Prop :=
  Forall (fun dl => line_good (snd dl)) (flatten d f).

Lemma flatten_app : forall d a b, flatten d (a ++ b) = flatten d a ++ flatten d b.
Proof. intros. unfold flatten. apply flat_map_app. Qed.

Lemma good_app : forall d a b, good_forest d a -> good_forest d b -> good_forest d (a ++ b).
Proof. intros d a b Ha Hb. unfold good_forest. rewrite flatten_app. apply Forall_app. split; assumption. Qed.

Lemma good_nil : forall d, good_forest d [].
Proof. intros d. constructor. Qed.

Lemma good_node : forall d lex kids,
  line_good lex -> good_forest (S d) kids -> good_forest d [LNode lex kids].
Proof.
  intros d lex kids Hl Hk. unfold good_forest. cbn [flatten flat_map]. rewrite app_nil_r.
  rewrite flatten_tree_node. constructor; [exact Hl|exact Hk].
Qed.

Lemma good_cons : forall d t f, good_forest d [t] -> good_forest d f -> good_forest d (t :: f).
Proof. intros d t f Ht Hf. change (t :: f) with ([t] ++ f). apply good_app; assumption. Qed.

Lemma good_leaves : forall (A : Type) (g : A -> list tok) d l,
  (forall a, line_good (g a)) -> good_forest d (map (fun a => leaf (g a)) l).
Proof.
  intros A g d l H. induction l as [|a l IH]; [apply good_nil|].
  cbn [map]. apply good_cons; [|exact IH]. apply good_node; [apply H|apply good_nil].
Qed.

Ltac kw_good := split; [discriminate|reflexivity].

Lemma good_param : forall d p, good_forest d [forest_param p].
Proof.
  intros d [v|v p|s j]; cbn [forest_param].
  - apply good_node; [kw_good|apply good_nil].
  - apply good_node; [|apply good_nil]. apply good_nobrace; [discriminate|].
    cbn [forallb]. rewrite nobrace_path. reflexivity.
  - apply good_node; [kw_good|]. apply good_node; [|apply good_nil].
    split; [apply toks_json_nonempty|apply json_depth_json].
Qed.

Lemma good_params : forall d ps, good_forest d (map forest_param ps).
Proof.
  intros d ps. induction ps as [|p ps IH]; [apply good_nil|].
  cbn [map]. apply good_cons; [apply good_param|exact IH].
Qed.

Lemma good_io : forall d ins outs, good_forest d (forest_io ins outs).
Proof.
  intros d ins outs. unfold forest_io. apply good_app.
  - destruct ins as [|p ins]; [apply good_nil|]. apply good_node; [kw_good|apply good_params].
  - destruct outs as [|o outs]; [apply good_nil|]. apply good_node; [kw_good|].
    apply good_leaves. apply good_vardef.
Qed.

Lemma good_call : forall d head ins outs,
  line_good [head] -> good_forest d [forest_call head ins outs].
Proof. intros. unfold forest_call. apply good_node; [assumption|apply good_io]. Qed.

Lemma good_stmts_of : forall d ss,
  Forall (fun s => forall d0, good_forest d0 (forest_stmt s)) ss -> good_forest d (forest_stmts ss).
Proof.
  intros d ss H. induction ss as [|s ss IH]; [apply good_nil|].
  inversion H; subst. unfold forest_stmts. cbn [flat_map]. apply good_app; [apply H2|apply IH; assumption].
Qed.

Lemma good_stmt : forall s d, good_forest d (forest_stmt s).
Proof.
  induction s as [n ins outs|c|cs|e body IH|par v lim body IH|e a b IHa IHb] using stmt_ind'; intros d.
  - cbn [forest_stmt]. apply good_call. kw_good.
  - cbn [forest_stmt]. apply good_call. kw_good.
  - cbn [forest_stmt]. apply good_node; [kw_good|].
    induction cs as [|c cs IHcs]; [apply good_nil|]. cbn [map]. apply good_cons; [|exact IHcs].
    apply good_call. kw_good.
  - rewrite forest_while. apply good_node; [|apply good_stmts_of; exact IH].
    apply good_nobrace; [discriminate|]. cbn [forallb]. rewrite nobrace_expr. reflexivity.
  - rewrite forest_count. apply good_node; [|apply good_stmts_of; exact IH].
    apply good_nobrace; [destruct par; discriminate|].
    rewrite forallb_app. cbn [forallb]. rewrite nobrace_limit. destruct par; reflexivity.
  - rewrite forest_cond. apply good_cons; [|apply good_cons].
    + apply good_node; [kw_good|]. apply good_node; [|apply good_nil].
      apply good_nobrace; [apply toks_expr_nonempty|apply nobrace_expr].
    + apply good_node; [kw_good|apply good_stmts_of; exact IHa].
    + destruct b as [|s1 b]; [apply good_nil|]. apply good_node; [kw_good|apply good_stmts_of; exact IHb].
Qed.

Lemma good_program : forall p, good_forest 0 (forest_of p).
Proof.
  intros [ss ts]. unfold forest_of. cbn [p_structs p_tasks]. apply good_app.
  - induction ss as [|s ss IH]; [apply good_nil|]. cbn [flat_map]. apply good_app; [|exact IH].
    unfold forest_struct. apply good_cons; [|apply good_node; [kw_good|apply good_nil]].
    apply good_node; [kw_good|]. apply good_leaves. apply good_vardef.
  - induction ts as [|t ts IH]; [apply good_nil|]. cbn [flat_map]. apply good_app; [|exact IH].
    unfold forest_task. apply good_cons; [|apply good_node; [kw_good|apply good_nil]].
    apply good_node; [kw_good|]. apply good_app; [|apply good_app].
    + destruct (t_ins t) as [|i ins]; [apply good_nil|]. apply good_node; [kw_good|].
      apply good_leaves. apply good_vardef.
    + apply good_stmts_of. apply Forall_forall. intros s _. apply good_stmt.
    + destruct (t_outs t) as [|o outs]; [apply good_nil|]. apply good_node; [kw_good|].
      apply good_leaves. intros a. kw_good.
Qed.

(* ---- the structure of a rendered text ---- *)
Section Layout.
  Variable L : layout.
  Variable Hwf : layout_wf L = true.

  Lemma before_ok : filler_ok (lay_before L) = true.
  Proof. unfold layout_wf in Hwf. apply andb_prop in Hwf. exact (proj1 Hwf). Qed.

  Lemma after_ok : filler_ok (lay_after L) = true.
  Proof. unfold layout_wf in Hwf. apply andb_prop in Hwf. exact (proj2 Hwf). Qed.

  Lemma indent_at_mono : forall d d', d < d' -> indent_at L d < indent_at L d'.
  Proof.
    intros d d' H. induction H.
    - cbn [indent_at]. lia.
    - cbn [indent_at]. lia.
  Qed.

  (* the indentation stack below a line of depth d *)
  Fixpoint stk (d : nat) : list nat :=
    match d with
    | O => [0]
    | S d' => indent_at L (S d') :: stk d'
    end.

  Lemma stk_length : forall d, length (stk d) = S d.
  Proof. induction d as [|d IH]; [reflexivity|]. cbn [stk length]. rewrite IH. reflexivity. Qed.

  Lemma stk_head : forall d, exists r, stk d = indent_at L d :: r.
  Proof. intros [|d]; eexists; reflexivity. Qed.

  Lemma pop_to_stk : forall dd d, d <= dd -> pop_to (indent_at L d) (stk dd) = Some (stk d).
  Proof.
    induction dd as [|dd IH]; intros d Hle.
    - assert (d = 0) by lia. subst. reflexivity.
    - destruct (Nat.eq_dec d (S dd)) as [->|Hne].
      + cbn [stk pop_to]. rewrite Nat.eqb_refl. reflexivity.
      + assert (Hlt : d < S dd) by lia. pose proof (indent_at_mono _ _ Hlt) as Hi.
        cbn [stk pop_to].
        replace (indent_at L (S dd) =? indent_at L d) with false by (symmetry; apply Nat.eqb_neq; lia).
        replace (indent_at L d <? indent_at L (S dd)) with true by (symmetry; apply Nat.ltb_lt; exact Hi).
        apply IH. lia.
  Qed.

  (* blank / comment-only lines are invisible to [depths] and [first_column] *)
  Lemma depths_filler : forall fl st rest,
    filler_ok fl = true -> depths st (fl ++ rest) = depths st rest.
  Proof.
    induction fl as [|l fl IH]; intros st rest H; [reflexivity|].
    cbn [filler_ok forallb] in H. apply andb_prop in H. destruct H as [Hl Hfl].
    cbn [app depths]. destruct (l_lex l); [|discriminate]. apply IH. exact Hfl.
  Qed.

  Lemma first_column_filler : forall fl rest,
    filler_ok fl = true -> first_column (fl ++ rest) = first_column rest.
  Proof.
    induction fl as [|l fl IH]; intros rest H; [reflexivity|].
    cbn [filler_ok forallb] in H. apply andb_prop in H. destruct H as [Hl Hfl].
    cbn [app first_column]. destruct (l_lex l); [|discriminate]. apply IH. exact Hfl.
  Qed.

  Lemma depths_line : forall dd d lex rest,
    d <= S dd -> lex <> [] ->
    depths (stk dd) (render_line L (d, lex) ++ rest) =
    match depths (stk d) rest with Some ds => Some ((d, lex) :: ds) | None => None end.
  Proof.
    intros dd d lex rest Hle Hne. unfold render_line. cbn [fst snd]. rewrite <- app_assoc.
    rewrite (depths_filler _ _ _ before_ok). cbn [app depths l_lex l_indent].
    destruct lex as [|t lex]; [congruence|].
    destruct (stk_head dd) as [r Hr]. rewrite Hr.
    destruct (Nat.eq_dec d (S dd)) as [->|Hne'].
    - replace (indent_at L dd <? indent_at L (S dd)) with true
        by (symmetry; apply Nat.ltb_lt; apply indent_at_mono; lia).
      rewrite <- Hr. change (indent_at L (S dd) :: stk dd) with (stk (S dd)).
      destruct (depths (stk (S dd)) rest); [|reflexivity].
      rewrite stk_length. replace (S (S dd) - 1) with (S dd) by lia. reflexivity.
    - assert (Hd : d <= dd) by lia.
      replace (indent_at L dd <? indent_at L d) with false.
      + rewrite <- Hr. rewrite (pop_to_stk dd d Hd).
        destruct (depths (stk d) rest); [|reflexivity].
        rewrite stk_length. replace (S d - 1) with d by lia. reflexivity.
      + symmetry. apply Nat.ltb_ge. destruct (Nat.eq_dec d dd) as [->|]; [lia|].
        assert (d < dd) by lia. pose proof (indent_at_mono _ _ H). lia.
  Qed.

  Notation lines_of ds := (flat_map (render_line L) ds).

  Definition tree_depths (t : ltree) : Prop :=
    forall d dd rest ds', good_forest d [t] -> d <= S dd ->
      (forall dd', d <= dd' -> depths (stk dd') rest = Some ds') ->
      depths (stk dd) (lines_of (flatten_tree d t) ++ rest) = Some (flatten_tree d t ++ ds').

  Lemma good_forest_cons_inv : forall d t f, good_forest d (t :: f) -> good_forest d [t] /\ good_forest d f.
  Proof.
    intros d t f H. unfold good_forest in *. rewrite flatten_cons in H. apply Forall_app in H.
    cbn [flatten flat_map]. rewrite app_nil_r. exact H.
  Qed.

  Lemma forest_depths : forall f, Forall tree_depths f ->
    forall d dd rest ds', good_forest d f -> d <= S dd ->
      (forall dd', d <= S dd' -> depths (stk dd') rest = Some ds') ->
      depths (stk dd) (lines_of (flatten d f) ++ rest) = Some (flatten d f ++ ds').
  Proof.
    induction f as [|t f IH]; intros HP d dd rest ds' Hg Hle Hk.
    - cbn [flatten flat_map app]. apply Hk. exact Hle.
    - inversion HP as [|? ? Ht Hf]; subst.
      destruct (good_forest_cons_inv _ _ _ Hg) as [Hgt Hgf].
      rewrite flatten_cons. rewrite flat_map_app. rewrite <- !app_assoc.
      apply (Ht d dd _ _ Hgt Hle).
      intros dd' Hdd'. apply (IH Hf d dd' rest ds' Hgf); [lia|exact Hk].
  Qed.

  Lemma tree_depths_all : forall t, tree_depths t.
  Proof.
    induction t as [lex kids IH] using ltree_ind'. intros d dd rest ds' Hg Hle Hk.
    rewrite flatten_tree_node. cbn [flat_map]. rewrite <- app_assoc.
    unfold good_forest in Hg. cbn [flatten flat_map] in Hg. rewrite app_nil_r in Hg.
    rewrite flatten_tree_node in Hg. inversion Hg as [|? ? Hl Hkids]; subst. cbn [snd] in Hl.
    rewrite (depths_line dd d lex _ Hle (proj1 Hl)).
    rewrite (forest_depths kids IH (S d) d rest ds' Hkids (le_n _)).
    - reflexivity.
    - intros dd' Hdd'. apply Hk. lia.
  Qed.

  Lemma join_some : forall ls c,
    Forall (fun l => json_depth 0 (l_lex l) = 0) ls -> join (Some c) 0 ls = c :: ls.
  Proof.
    induction ls as [|l ls IH]; intros c H; [reflexivity|].
    inversion H as [|? ? Hl Hls]; subst. cbn [join]. rewrite Hl. rewrite (IH l Hls). reflexivity.
  Qed.

  Lemma join_balanced : forall ls,
    Forall (fun l => json_depth 0 (l_lex l) = 0) ls -> join None 0 ls = ls.
  Proof.
    intros [|l ls] H; [reflexivity|].
    inversion H as [|? ? Hl Hls]; subst. cbn [join]. rewrite Hl. apply join_some. exact Hls.
  Qed.

  Lemma filler_balanced : forall fl, filler_ok fl = true -> Forall (fun l => json_depth 0 (l_lex l) = 0) fl.
  Proof.
    induction fl as [|l fl IH]; intros H; [constructor|].
    cbn [filler_ok forallb] in H. apply andb_prop in H. destruct H as [Hl Hfl].
    constructor; [destruct (l_lex l); [reflexivity|discriminate]|apply IH; exact Hfl].
  Qed.

  Lemma rendered_balanced : forall ds,
    Forall (fun dl => line_good (snd dl)) ds ->
    Forall (fun l => json_depth 0 (l_lex l) = 0) (lines_of ds ++ lay_after L).
  Proof.
    intros ds H. apply Forall_app. split; [|apply filler_balanced; apply after_ok].
    induction ds as [|[d lex] ds IH]; [constructor|].
    inversion H as [|? ? Hl Hds]; subst. cbn [flat_map]. apply Forall_app. split; [|apply IH; exact Hds].
    unfold render_line. apply Forall_app. split; [apply filler_balanced; apply before_ok|].
    constructor; [exact (proj2 Hl)|constructor].
  Qed.

  Lemma depths_after : forall st, depths st (lay_after L) = Some [].
  Proof.
    intros st. rewrite <- (app_nil_r (lay_after L)). rewrite (depths_filler _ _ _ after_ok). reflexivity.
  Qed.

  Lemma first_column_forest : forall f,
    good_forest 0 f -> first_column (lines_of (flatten 0 f) ++ lay_after L) = 0.
  Proof.
    intros [|[lex kids] f] Hg.
    - cbn [flatten flat_map app]. rewrite <- (app_nil_r (lay_after L)).
      rewrite (first_column_filler _ _ after_ok). reflexivity.
    - rewrite flatten_cons, flatten_tree_node. cbn [app flat_map]. unfold render_line at 1. cbn [fst snd].
      rewrite <- !app_assoc. rewrite (first_column_filler _ _ before_ok).
      cbn [app first_column l_lex l_indent].
      destruct (good_forest_cons_inv _ _ _ Hg) as [Hgt _].
      unfold good_forest in Hgt. cbn [flatten flat_map] in Hgt. rewrite app_nil_r, flatten_tree_node in Hgt.
      inversion Hgt as [|? ? Hl _]; subst. destruct lex; [exfalso; exact (proj1 Hl eq_refl)|reflexivity].
  Qed.

  Theorem canon_render_forest : forall f,
    good_forest 0 f -> canon (render_lines L (flatten 0 f)) = Some (flatten 0 f).
  Proof.
    intros f Hg. unfold canon, logical_lines, render_lines. cbn [t_lines].
    rewrite (join_balanced _ (rendered_balanced _ Hg)).
    rewrite (first_column_forest f Hg). cbn [Nat.eqb].
    change [0] with (stk 0).
    rewrite (forest_depths f (proj2 (Forall_forall _ _) (fun t _ => tree_depths_all t)) 0 0 (lay_after L) [] Hg (le_S _ _ (le_n 0))).
    - rewrite app_nil_r. reflexivity.
    - intros dd' _. apply depths_after.
  Qed.
End Layout.

Theorem canon_render : forall L p,
  layout_wf L = true -> canon (render L p) = Some (flatten 0 (forest_of p)).
Proof. intros L p Hwf. apply (canon_render_forest L Hwf). apply good_program. Qed.

(* the full statement for the family of layouts [layout] *)
Theorem roundtrip_render : C12_roundtrip_statement.
Proof.
  unfold C12_roundtrip_statement. intros L p Hwf Hok.
  apply roundtrip_canon; [exact Hok|apply canon_render; exact Hwf].
Qed.

(* the guard on layouts is inhabited: per-depth widths 1, 3, 5, ...; CR LF; trailing blanks;
   a comment on every line; a blank and a comment-only line before every line; trailing
   blank lines; no final newline *)
Definition example_layout : layout :=
  {| lay_step := fun d => 2 * d; lay_cr := true; lay_trail := 2; lay_comment := Some 1;
     lay_before := [ {| l_indent := 7; l_lex := []; l_comment := None; l_trail := 0; l_cr := false |};
                     {| l_indent := 0; l_lex := []; l_comment := Some 3; l_trail := 1; l_cr := true |} ];
     lay_after := [ {| l_indent := 5; l_lex := []; l_comment := None; l_trail := 0; l_cr := false |} ];
     lay_final_nl := false |}.

Example example_layout_wf : layout_wf example_layout = true.
Proof. reflexivity. Qed.

Example example_roundtrip : front_end (render example_layout example_program) = FOk example_program.
Proof. apply roundtrip_render; [exact example_layout_wf|exact example_names_ok]. Qed.
