(* Front/LinesOf.v — from the context references of the validator (Check/CheckModel.ctx: the
   ANTLR context object handed to print_error, as a position in the AST) to LINE NUMBERS of a
   program text (model support file: definitions only).

   The implementation prints [context.start.line]: the line of the FIRST TOKEN of the context,
   as ANTLR counts lines (1 + number of LF before the token).  Two steps:

   1. rows (layout independent): the text of a program is the forest of logical lines
      [Render.forest_of p]; [ctx_row p c] is the index (from 0) in [flatten 0 (forest_of p)] of
      the logical line that begins with the first token of context c, [row_span p ti pi] the
      first and last row of the statement (or call of a Parallel block) at path pi of task ti.
      This mirrors harness/gen_check.py::render(prog, layout, linemap) — lm[key] = here()
      before the line is emitted — key by key:
        CStruct i            'Struct X'            CStructAttr i j      j-th attribute line
        CTask i              'Task t'              CTaskIn i            the task's 'In' line
        CTaskInParam i j     j-th input definition CTaskOut i           the task's 'Out' line
        CStmt i pi           first line of the statement (for a call of a Parallel block: the
                             line of the call's name)
        CStmtIn i pi         the call's 'In' line  CStmtOutParam i pi j j-th output definition
        CLit i pi k          k-th input, the literal's struct name line
        CLitJson i pi k      the line of its opening brace (the row after CLit: literals are
                             printed in the block form of Render.forest_param)
      Structs come first, then tasks (Render.forest_of; the Process keeps two dictionaries).
   2. physical lines (any text): [phys_spans t] lists, for every significant logical line of
      the text t (Lines.text: physical lines, struct literals possibly broken over several of
      them) in order, the numbers (from 1) of its first and last physical line.  For a text
      with the structure of p ([canon t = Some (flatten 0 (forest_of p))], in particular
      [render L p] for every layout L) the k-th entry belongs to row k.

   [ctx_line t p c] = the line the implementation reports for a message with context c;
   [line_span t p ti pi] = first and last line of the statement.  CFile is reported with the
   explicit line 1, CNone with the default line 0 (ErrorHandler.print_error). *)
(* CharRender first: its constructor CNone (a lexer command) must not hide CheckModel.CNone *)
From PFDL.Front Require Import CharRender.
From PFDL Require Export Base Syntax.
From PFDL.Front Require Export Lines Denter Render.
From PFDL.Check Require Export CheckModel.
From Coq Require Import Ascii.
Import ListNotations.

(* ------------------------------------------------------------------------------------ *)
(* 1. Rows                                                                              *)
(* ------------------------------------------------------------------------------------ *)
Definition rows_param (p : param) : nat :=
  match p with PLit _ _ => 2 | _ => 1 end.

Fixpoint rows_params (ins : list param) : nat :=
  match ins with [] => 0 | p :: r => rows_param p + rows_params r end.

(* the 'In' block of a call *)
Definition rows_ins (ins : list param) : nat :=
  match ins with [] => 0 | _ => 1 + rows_params ins end.

(* an 'In' / 'Out' block of definitions or names *)
Definition rows_block {A : Type} (l : list A) : nat :=
  match l with [] => 0 | _ => 1 + length l end.

Definition rows_io (ins : list param) (outs : outparams) : nat :=
  1 + rows_ins ins + rows_block outs.

Definition rows_call (c : call) : nat := rows_io (c_ins c) (c_outs c).

Fixpoint rows_calls (cs : list call) : nat :=
  match cs with [] => 0 | c :: r => rows_call c + rows_calls r end.

Fixpoint rows_stmt (s : stmt) : nat :=
  match s with
  | SService _ ins outs => rows_io ins outs
  | SCall c => rows_call c
  | SParallel cs => 1 + rows_calls cs
  | SWhile _ body =>
    1 + (fix go (l : list stmt) : nat := match l with [] => 0 | x :: r => rows_stmt x + go r end) body
  | SCount _ _ _ body =>
    1 + (fix go (l : list stmt) : nat := match l with [] => 0 | x :: r => rows_stmt x + go r end) body
  | SCond _ a b =>
    3 + (fix go (l : list stmt) : nat := match l with [] => 0 | x :: r => rows_stmt x + go r end) a
    + match b with
      | [] => 0
      | _ => 1 + (fix go (l : list stmt) : nat := match l with [] => 0 | x :: r => rows_stmt x + go r end) b
      end
  end.

Fixpoint rows_stmts (l : list stmt) : nat :=
  match l with [] => 0 | x :: r => rows_stmt x + rows_stmts r end.

Definition rows_struct (s : structdef) : nat := 2 + length (s_attrs s).

Definition rows_task (t : task) : nat :=
  1 + rows_block (t_ins t) + rows_stmts (t_body t) + rows_block (t_outs t) + 1.

Fixpoint rows_structs (l : list structdef) : nat :=
  match l with [] => 0 | s :: r => rows_struct s + rows_structs r end.

Fixpoint rows_tasks (l : list task) : nat :=
  match l with [] => 0 | t :: r => rows_task t + rows_tasks r end.

Definition rows_program (p : program) : nat := rows_structs (p_structs p) + rows_tasks (p_tasks p).

(* what a statement path leads to: a statement, or a call of a Parallel block *)
Inductive node := NStmt (s : stmt) | NCall (c : call).

Definition rows_node (n : node) : nat :=
  match n with NStmt s => rows_stmt s | NCall c => rows_call c end.

(* the inputs and outputs of a service or task call *)
Definition node_io (n : node) : option (list param * outparams) :=
  match n with
  | NStmt (SService _ ins outs) => Some (ins, outs)
  | NStmt (SCall c) => Some (c_ins c, c_outs c)
  | NCall c => Some (c_ins c, c_outs c)
  | _ => None
  end.

Fixpoint locate_call (cs : list call) (j : nat) (base : nat) : option (nat * node) :=
  match cs with
  | [] => None
  | c :: r => match j with O => Some (base, NCall c) | S j' => locate_call r j' (base + rows_call c) end
  end.

(* [locate_stmt s base rel]: s begins in row base; the row and the node at the relative path
   rel (body index; Condition: 0 = Passed / 1 = Failed, then the index; Parallel: index of the
   call) *)
Fixpoint locate_stmt (s : stmt) (base : nat) (rel : list nat) {struct s} : option (nat * node) :=
  match rel with
  | [] => Some (base, NStmt s)
  | i :: rel' =>
    match s with
    | SParallel cs => match rel' with [] => locate_call cs i (base + 1) | _ => None end
    | SWhile _ body =>
      (fix go (l : list stmt) (i b : nat) : option (nat * node) :=
         match l with
         | [] => None
         | x :: r => match i with O => locate_stmt x b rel' | S i' => go r i' (b + rows_stmt x) end
         end) body i (base + 1)
    | SCount _ _ _ body =>
      (fix go (l : list stmt) (i b : nat) : option (nat * node) :=
         match l with
         | [] => None
         | x :: r => match i with O => locate_stmt x b rel' | S i' => go r i' (b + rows_stmt x) end
         end) body i (base + 1)
    | SCond _ a b =>
      match rel' with
      | [] => None
      | j :: rel'' =>
        match i with
        | 0 =>
          (fix go (l : list stmt) (i b : nat) : option (nat * node) :=
             match l with
             | [] => None
             | x :: r => match i with O => locate_stmt x b rel'' | S i' => go r i' (b + rows_stmt x) end
             end) a j (base + 3)
        | 1 =>
          (fix go (l : list stmt) (i b : nat) : option (nat * node) :=
             match l with
             | [] => None
             | x :: r => match i with O => locate_stmt x b rel'' | S i' => go r i' (b + rows_stmt x) end
             end) b j (base + 3 + rows_stmts a + 1)
        | _ => None
        end
      end
    | _ => None
    end
  end.

(* the i-th statement of a list that begins in row base, then the relative path rel *)
Definition locate_list (l : list stmt) (i base : nat) (rel : list nat) : option (nat * node) :=
  (fix go (l : list stmt) (i b : nat) : option (nat * node) :=
     match l with
     | [] => None
     | x :: r => match i with O => locate_stmt x b rel | S i' => go r i' (b + rows_stmt x) end
     end) l i base.

Definition task_base (p : program) (ti : nat) : nat :=
  rows_structs (p_structs p) + rows_tasks (firstn ti (p_tasks p)).

Definition body_base (p : program) (ti : nat) (t : task) : nat :=
  task_base p ti + 1 + rows_block (t_ins t).

(* row and node of the statement at path pi of task ti *)
Definition locate (p : program) (ti : nat) (pi : list nat) : option (nat * node) :=
  match nth_error (p_tasks p) ti, pi with
  | Some t, i :: rel => locate_list (t_body t) i (body_base p ti t) rel
  | _, _ => None
  end.

Definition row_span (p : program) (ti : nat) (pi : list nat) : option (nat * nat) :=
  match locate p ti pi with
  | Some (r, n) => Some (r, r + rows_node n - 1)
  | None => None
  end.

Definition struct_base (p : program) (i : nat) : nat := rows_structs (firstn i (p_structs p)).

Definition is_lit (p : param) : bool := match p with PLit _ _ => true | _ => false end.

Definition ctx_row (p : program) (c : ctx) : option nat :=
  match c with
  | CFile | CNone => None
  | CStruct i =>
    match nth_error (p_structs p) i with Some _ => Some (struct_base p i) | None => None end
  | CStructAttr i j =>
    match nth_error (p_structs p) i with
    | Some s => if j <? length (s_attrs s) then Some (struct_base p i + 1 + j) else None
    | None => None
    end
  | CTask i =>
    match nth_error (p_tasks p) i with Some _ => Some (task_base p i) | None => None end
  | CTaskIn i =>
    match nth_error (p_tasks p) i with
    | Some t => match t_ins t with [] => None | _ => Some (task_base p i + 1) end
    | None => None
    end
  | CTaskInParam i j =>
    match nth_error (p_tasks p) i with
    | Some t => if j <? length (t_ins t) then Some (task_base p i + 2 + j) else None
    | None => None
    end
  | CTaskOut i =>
    match nth_error (p_tasks p) i with
    | Some t => match t_outs t with [] => None | _ => Some (body_base p i t + rows_stmts (t_body t)) end
    | None => None
    end
  | CStmt i pi =>
    match locate p i pi with Some (r, _) => Some r | None => None end
  | CStmtIn i pi =>
    match locate p i pi with
    | Some (r, n) =>
      match node_io n with
      | Some (_ :: _, _) => Some (r + 1)
      | _ => None
      end
    | None => None
    end
  | CStmtOutParam i pi j =>
    match locate p i pi with
    | Some (r, n) =>
      match node_io n with
      | Some (ins, outs) => if j <? length outs then Some (r + 1 + rows_ins ins + 1 + j) else None
      | None => None
      end
    | None => None
    end
  | CLit i pi k =>
    match locate p i pi with
    | Some (r, n) =>
      match node_io n with
      | Some (ins, _) =>
        match nth_error ins k with
        | Some (PLit _ _) => Some (r + 2 + rows_params (firstn k ins))
        | _ => None
        end
      | None => None
      end
    | None => None
    end
  | CLitJson i pi k =>
    match locate p i pi with
    | Some (r, n) =>
      match node_io n with
      | Some (ins, _) =>
        match nth_error ins k with
        | Some (PLit _ _) => Some (r + 2 + rows_params (firstn k ins) + 1)
        | _ => None
        end
      | None => None
      end
    | None => None
    end
  end.

(* ------------------------------------------------------------------------------------ *)
(* 2. Physical lines of a text                                                          *)
(* ------------------------------------------------------------------------------------ *)
(* [lspans open n ls]: ls = the physical lines from number n on; open = Some (s, d) when the
   line before ended inside a struct literal (JSON depth d) of a logical line that began in
   physical line s.  Result: (first, last) physical line of every significant logical line. *)
Fixpoint lspans (open : option (nat * nat)) (n : nat) (ls : list line) : list (nat * nat) :=
  match ls with
  | [] => match open with Some (s, _) => [(s, n - 1)] | None => [] end
  | l :: r =>
    match open with
    | Some (s, d) =>
      match json_depth d (l_lex l) with
      | O => (s, n) :: lspans None (S n) r
      | S d' => lspans (Some (s, S d')) (S n) r
      end
    | None =>
      match l_lex l with
      | [] => lspans None (S n) r
      | _ :: _ =>
        match json_depth 0 (l_lex l) with
        | O => (n, n) :: lspans None (S n) r
        | S d' => lspans (Some (n, S d')) (S n) r
        end
      end
    end
  end.

Definition phys_spans (t : text) : list (nat * nat) := lspans None 1 (t_lines t).

Definition row_first (t : text) (k : nat) : option nat := option_map fst (nth_error (phys_spans t) k).
Definition row_last (t : text) (k : nat) : option nat := option_map snd (nth_error (phys_spans t) k).

(* number of lines of the text *)
Definition nlines (t : text) : nat := length (t_lines t).

(* ------------------------------------------------------------------------------------ *)
(* 3. Lines                                                                             *)
(* ------------------------------------------------------------------------------------ *)
Definition ctx_line (t : text) (p : program) (c : ctx) : option nat :=
  match c with
  | CFile => Some 1
  | CNone => Some 0
  | _ => match ctx_row p c with Some k => row_first t k | None => None end
  end.

Definition line_span (t : text) (p : program) (ti : nat) (pi : list nat) : option (nat * nat) :=
  match row_span p ti pi with
  | Some (a, b) =>
    match row_first t a, row_last t b with
    | Some x, Some y => Some (x, y)
    | _, _ => None
    end
  | None => None
  end.

Definition struct_line_span (t : text) (p : program) (i : nat) : option (nat * nat) :=
  match nth_error (p_structs p) i with
  | Some s =>
    match row_first t (struct_base p i), row_last t (struct_base p i + rows_struct s - 1) with
    | Some x, Some y => Some (x, y)
    | _, _ => None
    end
  | None => None
  end.

Definition task_line_span (t : text) (p : program) (i : nat) : option (nat * nat) :=
  match nth_error (p_tasks p) i with
  | Some tk =>
    match row_first t (task_base p i), row_last t (task_base p i + rows_task tk - 1) with
    | Some x, Some y => Some (x, y)
    | _, _ => None
    end
  | None => None
  end.

(* the same for the printer of Front/Render.v *)
Definition ctx_line_L (L : layout) (p : program) (c : ctx) : option nat := ctx_line (render L p) p c.
Definition line_span_L (L : layout) (p : program) (ti : nat) (pi : list nat) : option (nat * nat) :=
  line_span (render L p) p ti pi.

(* the text has the structure of the program *)
Definition text_of (t : text) (p : program) : Prop := canon t = Some (flatten 0 (forest_of p)).

(* ------------------------------------------------------------------------------------ *)
(* 3b. The first token of a context (LinesOfProofs.row_head: the row of a context begins    *)
(*     with it)                                                                          *)
(* ------------------------------------------------------------------------------------ *)
Definition node_head (n : node) : tok :=
  match n with
  | NStmt (SService nm _ _) => TUpper nm
  | NStmt (SCall c) => TLower (c_name c)
  | NStmt (SParallel _) => KParallel
  | NStmt (SWhile _ _) => KLoop
  | NStmt (SCount par _ _ _) => if par then KParallel else KLoop
  | NStmt (SCond _ _ _) => KCondition
  | NCall c => TLower (c_name c)
  end.

Definition forest_node (n : node) : list ltree :=
  match n with
  | NStmt s => forest_stmt s
  | NCall c => [forest_call (TLower (c_name c)) (c_ins c) (c_outs c)]
  end.

(* the first token of the context c *)
Definition ctx_head (p : program) (c : ctx) : option tok :=
  match c with
  | CFile | CNone => None
  | CStruct _ => Some KStruct
  | CStructAttr i j =>
    match nth_error (p_structs p) i with
    | Some s => option_map (fun d => TLower (fst d)) (nth_error (s_attrs s) j)
    | None => None
    end
  | CTask _ => Some KTask
  | CTaskIn _ => Some KIn
  | CTaskInParam i j =>
    match nth_error (p_tasks p) i with
    | Some t => option_map (fun d => TLower (fst d)) (nth_error (t_ins t) j)
    | None => None
    end
  | CTaskOut _ => Some KOut
  | CStmt i pi => match locate p i pi with Some (_, n) => Some (node_head n) | None => None end
  | CStmtIn _ _ => Some KIn
  | CStmtOutParam i pi j =>
    match locate p i pi with
    | Some (_, n) =>
      match node_io n with
      | Some (_, outs) => option_map (fun d => TLower (fst d)) (nth_error outs j)
      | None => None
      end
    | None => None
    end
  | CLit i pi k =>
    match locate p i pi with
    | Some (_, n) =>
      match node_io n with
      | Some (ins, _) => match nth_error ins k with Some (PLit s _) => Some (TUpper s) | _ => None end
      | None => None
      end
    | None => None
    end
  | CLitJson i pi k =>
    match locate p i pi with
    | Some (_, n) =>
      match node_io n with
      | Some (ins, _) => match nth_error ins k with Some (PLit _ j) => hd_error (toks_json true j) | _ => None end
      | None => None
      end
    | None => None
    end
  end.

(* ------------------------------------------------------------------------------------ *)
(* 4. Characters: ANTLR's line of a character = 1 + number of LF before it               *)
(* ------------------------------------------------------------------------------------ *)
Definition count_lf (cs : list ascii) : nat := length (filter (fun c => Ascii.eqb c ch_lf) cs).

(* no printed physical line contains a line feed of its own (a string literal could) *)
Fixpoint lf_free_from (sty : cstyle) (i : nat) (ls : list line) : bool :=
  match ls with
  | [] => true
  | l :: r => forallb not_lf (render_cline sty i l) && lf_free_from sty (S i) r
  end.

Definition lf_free (sty : cstyle) (t : text) : bool := lf_free_from sty 0 (t_lines t).
