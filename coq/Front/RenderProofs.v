(* Front/RenderProofs.v — the structure of a forest and its token stream; the structure
   of a rendered text; composition of denter, parser and visitor checks. *)
From PFDL.Front Require Import Render DenterProofs ParserProofs.
From Coq Require Import Lia.

Section LtreeInd.
  Variable P : ltree -> Prop.
  Variable Hnode : forall lex kids, Forall P kids -> P (LNode lex kids).
  Fixpoint ltree_ind' (t : ltree) : P t :=
    match t with
    | LNode lex kids =>
      Hnode lex kids ((fix all (l : list ltree) : Forall P l :=
                         match l with
                         | [] => Forall_nil P
                         | x :: r => Forall_cons x (ltree_ind' x) (all r)
                         end) kids)
    end.
End LtreeInd.

(* ---- skeleton of a flattened forest = token stream of the forest ---- *)
Definition hd_depth (ls : list (nat * list tok)) (dn : nat) : nat :=
  match ls with [] => dn | (d, _) :: _ => d end.

Fixpoint body (ls : list (nat * list tok)) (dn : nat) : list dtok :=
  match ls with
  | [] => []
  | (d, lex) :: r => map DTok lex ++ sep d (hd_depth r dn) ++ body r dn
  end.

Lemma skel_body : forall ls d, skel d ls = sep d (hd_depth ls 0) ++ body ls 0 ++ [DEOF].
Proof.
  induction ls as [|[d' lex] r IH]; intros d.
  - reflexivity.
  - cbn [skel hd_depth body]. rewrite IH. rewrite <- !app_assoc. reflexivity.
Qed.

Lemma skeleton_body : forall ls, ls <> [] -> skeleton ls = body ls 0 ++ [DEOF].
Proof.
  intros [|[d lex] r] H; [congruence|].
  cbn [skeleton body]. rewrite skel_body. rewrite <- !app_assoc. reflexivity.
Qed.

Lemma hd_depth_app : forall a b dn, hd_depth (a ++ b) dn = hd_depth a (hd_depth b dn).
Proof. intros [|[d lex] a] b dn; reflexivity. Qed.

Lemma body_app : forall a b dn, body (a ++ b) dn = body a (hd_depth b dn) ++ body b dn.
Proof.
  induction a as [|[d lex] a IH]; intros b dn; [reflexivity|].
  cbn [app body]. rewrite IH. rewrite hd_depth_app. rewrite <- !app_assoc. reflexivity.
Qed.

Lemma flatten_tree_node : forall d lex kids,
  flatten_tree d (LNode lex kids) = (d, lex) :: flatten (S d) kids.
Proof. reflexivity. Qed.

Lemma flatten_cons : forall d t f, flatten d (t :: f) = flatten_tree d t ++ flatten d f.
Proof. reflexivity. Qed.

Lemma hd_depth_flatten : forall d t f dn, hd_depth (flatten d (t :: f)) dn = d.
Proof. intros d [lex kids] f dn. reflexivity. Qed.

Lemma sep_close : forall d dn, dn <= d -> sep d dn = DNL :: repeat DDedent (d - dn).
Proof.
  intros d dn H. unfold sep. destruct (dn =? d) eqn:E.
  - apply Nat.eqb_eq in E. subst. rewrite Nat.sub_diag. reflexivity.
  - apply Nat.eqb_neq in E. replace (d <? dn) with false by (symmetry; apply Nat.ltb_ge; lia). reflexivity.
Qed.

Lemma sep_open : forall d, sep d (S d) = [DIndent].
Proof.
  intros d. unfold sep.
  replace (S d =? d) with false by (symmetry; apply Nat.eqb_neq; lia).
  replace (d <? S d) with true by (symmetry; apply Nat.ltb_lt; lia). reflexivity.
Qed.

Definition tree_body (t : ltree) : Prop :=
  forall d dn, dn <= d -> body (flatten_tree d t) dn = skel_tree t ++ repeat DDedent (d - dn).

Lemma forest_body : forall f, Forall tree_body f -> f <> [] ->
  forall d dn, dn <= d -> body (flatten d f) dn = skel_forest f ++ repeat DDedent (d - dn).
Proof.
  induction f as [|t f IH]; intros HP Hne d dn Hle; [congruence|].
  inversion HP as [|? ? Ht Hf]; subst.
  rewrite flatten_cons, skel_forest_cons. rewrite body_app.
  destruct f as [|t2 f].
  - cbn [flatten flat_map hd_depth body skel_forest]. rewrite !app_nil_r. apply Ht. exact Hle.
  - rewrite hd_depth_flatten. rewrite (Ht d d (le_n d)). rewrite Nat.sub_diag. cbn [repeat]. rewrite app_nil_r.
    rewrite (IH Hf ltac:(congruence) d dn Hle). rewrite <- app_assoc. reflexivity.
Qed.

Lemma tree_body_all : forall t, tree_body t.
Proof.
  induction t as [lex kids IH] using ltree_ind'. intros d dn Hle.
  rewrite flatten_tree_node. cbn [body]. rewrite skel_tree_node.
  destruct kids as [|k kids].
  - cbn [flatten flat_map hd_depth body]. rewrite app_nil_r. rewrite (sep_close _ _ Hle).
    rewrite <- app_assoc. reflexivity.
  - rewrite hd_depth_flatten. rewrite sep_open.
    rewrite (forest_body (k :: kids) IH ltac:(congruence) (S d) dn ltac:(lia)).
    replace (S d - dn) with (S (d - dn)) by lia. cbn [repeat].
    rewrite <- !app_assoc. cbn [app]. rewrite <- !app_assoc. reflexivity.
Qed.

Lemma flatten_nonempty : forall d t f, flatten d (t :: f) <> [].
Proof. intros d [lex kids] f. discriminate. Qed.

Theorem skeleton_flatten : forall f, f <> [] -> skeleton (flatten 0 f) = skel_forest f ++ [DEOF].
Proof.
  intros f Hne. destruct f as [|t f]; [congruence|].
  rewrite skeleton_body by apply flatten_nonempty.
  rewrite (forest_body (t :: f)); [|apply Forall_forall; intros; apply tree_body_all|congruence|lia].
  cbn [Nat.sub repeat]. rewrite app_nil_r. reflexivity.
Qed.

(* ---- a program accepted by the guard raises no visitor error ---- *)
Section Visitor.
  Variable T : level_table.
  Variable nlv : nat.

  Lemma stmt_bad_existsb : forall body,
    (fix go (l : list stmt) : bool := match l with [] => false | x :: r => stmt_bad x || go r end) body
    = existsb stmt_bad body.
  Proof. reflexivity. Qed.

  Lemma existsb_false : forall (A : Type) (f : A -> bool) l,
    Forall (fun x => f x = false) l -> existsb f l = false.
  Proof.
    induction l as [|x l IH]; intros H; [reflexivity|].
    inversion H; subst. cbn [existsb]. rewrite H2, IH; auto.
  Qed.

  Lemma stmts_not_bad : forall ss,
    Forall (fun s => stmt_ok T nlv s = true -> stmt_bad s = false) ss ->
    forallb (stmt_ok T nlv) ss = true -> existsb stmt_bad ss = false.
  Proof.
    induction ss as [|s ss IH]; intros HP Hok; [reflexivity|].
    inversion HP; subst. cbn [forallb] in Hok. apply andb_prop in Hok. destruct Hok as [Hs Hss].
    cbn [existsb]. rewrite H1, IH; auto.
  Qed.

  Lemma calls_not_bad : forall cs, forallb call_ok cs = true -> existsb call_bad cs = false.
  Proof.
    induction cs as [|c cs IH]; intros H; [reflexivity|].
    cbn [forallb] in H. apply andb_prop in H. destruct H as [Hc Hcs].
    cbn [existsb]. rewrite (IH Hcs). unfold call_ok in Hc. apply andb_prop in Hc. destruct Hc as [_ Hc].
    unfold vardefs_ok in Hc. apply Bool.negb_true_iff in Hc. unfold call_bad. rewrite Hc. reflexivity.
  Qed.

  Lemma stmt_not_bad : forall s, stmt_ok T nlv s = true -> stmt_bad s = false.
  Proof.
    induction s as [n ins outs|c|cs|e body IH|par v lim body IH|e a b IHa IHb] using stmt_ind'; intros Hok.
    - cbn [stmt_ok stmt_bad] in *. apply andb_prop in Hok. destruct Hok as [_ H].
      unfold vardefs_ok in H. apply Bool.negb_true_iff in H. exact H.
    - cbn [stmt_ok stmt_bad] in *. unfold call_ok in Hok. apply andb_prop in Hok. destruct Hok as [_ H].
      unfold vardefs_ok in H. apply Bool.negb_true_iff in H. exact H.
    - cbn [stmt_ok stmt_bad] in *. destruct cs as [|c cs]; [discriminate|]. apply calls_not_bad. exact Hok.
    - cbn [stmt_ok stmt_bad] in *. rewrite stmt_bad_existsb.
      apply andb_prop in Hok. destruct Hok as [_ Hb]. apply stmts_not_bad; assumption.
    - cbn [stmt_ok stmt_bad] in *. rewrite stmt_bad_existsb.
      apply andb_prop in Hok. destruct Hok as [_ Hb]. apply stmts_not_bad; assumption.
    - cbn [stmt_ok stmt_bad] in *. change (existsb stmt_bad a || existsb stmt_bad b = false).
      apply andb_prop in Hok. destruct Hok as [Hok Hb]. apply andb_prop in Hok. destruct Hok as [_ Ha].
      rewrite (stmts_not_bad a IHa Ha), (stmts_not_bad b IHb Hb). reflexivity.
  Qed.

  Lemma prog_ok_no_visitor_errors : forall p, prog_ok T nlv p = true -> visitor_errors p = false.
  Proof.
    intros p H. unfold prog_ok in H.
    apply andb_prop in H. destruct H as [H Htasks]. apply andb_prop in H. destruct H as [H Hstructs].
    apply andb_prop in H. destruct H as [Hds Hdt].
    apply Bool.negb_true_iff in Hds. apply Bool.negb_true_iff in Hdt.
    unfold visitor_errors. rewrite Hds, Hdt. cbn [orb].
    assert (Hs : existsb (fun s => vardefs_bad (s_attrs s)) (p_structs p) = false).
    { apply existsb_false. apply Forall_forall. intros s Hin.
      rewrite forallb_forall in Hstructs. specialize (Hstructs s Hin). unfold struct_ok in Hstructs.
      destruct (s_attrs s); [discriminate|]. unfold vardefs_ok in Hstructs.
      apply Bool.negb_true_iff in Hstructs. exact Hstructs. }
    rewrite Hs. cbn [orb].
    apply existsb_false. apply Forall_forall. intros t Hin.
    rewrite forallb_forall in Htasks. specialize (Htasks t Hin). unfold task_ok in Htasks.
    apply andb_prop in Htasks. destruct Htasks as [Hins Hbody].
    unfold vardefs_ok in Hins. apply Bool.negb_true_iff in Hins.
    unfold task_bad. rewrite Hins. cbn [orb].
    destruct (t_body t) as [|s0 body]; [discriminate|].
    apply stmts_not_bad; [|exact Hbody].
    apply Forall_forall. intros s _. apply stmt_not_bad.
  Qed.
End Visitor.

(* ---- denter + parser + visitor checks ---- *)
Lemma items_len : forall ss ts,
  length ss + length ts <= length (skel_forest (flat_map forest_struct ss ++ flat_map forest_task ts)).
Proof.
  intros ss ts. rewrite skel_forest_app, app_length.
  assert (Hs : length ss <= length (skel_forest (flat_map forest_struct ss))).
  { induction ss as [|s ss IH]; [cbn; lia|]. cbn [flat_map]. rewrite skel_forest_app, app_length.
    pose proof (struct_len s). cbn [length]. lia. }
  assert (Ht : length ts <= length (skel_forest (flat_map forest_task ts))).
  { induction ts as [|t ts IH]; [cbn; lia|]. cbn [flat_map]. rewrite skel_forest_app, app_length.
    pose proof (task_len t). cbn [length]. lia. }
  lia.
Qed.

Section Compose.
  Variable expr_rt : forall e f r,
    expr_ok impl_levels impl_not_level e = true -> layout_head r -> length (toks_expr e) < f ->
    parse_expr impl_levels impl_not_level (expr_fuel f) 0 (map DTok (toks_expr e) ++ r) = FOk (e, r).

  Lemma parse_tokens_rt : forall p,
    names_ok p = true ->
    parse_tokens (skeleton (flatten 0 (forest_of p))) = FOk p.
  Proof.
    intros [ss ts] Hok. unfold names_ok, prog_ok in Hok. cbn [p_structs p_tasks] in Hok.
    apply andb_prop in Hok. destruct Hok as [Hok Htasks]. apply andb_prop in Hok. destruct Hok as [_ Hstructs].
    unfold forest_of. cbn [p_structs p_tasks].
    destruct (flat_map forest_struct ss ++ flat_map forest_task ts) as [|k0 k] eqn:E.
    - (* the empty program *)
      assert (ss = [] /\ ts = []) as [-> ->].
      { apply app_eq_nil in E. destruct E as [E1 E2]. split.
        - destruct ss as [|s ss]; [reflexivity|]. destruct s; discriminate.
        - destruct ts as [|t ts]; [reflexivity|]. destruct t; discriminate. }
      reflexivity.
    - rewrite <- E. rewrite skeleton_flatten by (rewrite E; discriminate).
      unfold parse_tokens, fuel_for.
      apply (parse_program_rt impl_levels impl_not_level expr_rt ss ts); try assumption.
      pose proof (items_len ss ts). rewrite app_length. cbn [length]. lia.
  Qed.

  Theorem roundtrip_canon_cond : forall t p,
    names_ok p = true -> canon t = Some (flatten 0 (forest_of p)) -> front_end t = FOk p.
  Proof.
    intros t p Hok Hc. unfold front_end. rewrite (denter_skeleton _ _ Hc).
    rewrite (parse_tokens_rt p Hok). cbn [fbind].
    rewrite (prog_ok_no_visitor_errors _ _ p Hok). reflexivity.
  Qed.
End Compose.
