(* Front/CharLexerProofs.v — the character-level lexer (Front/CharLexer.v):
   1. structure: the lexemes of a scan tile the input; nothing is skipped unmatched;
   2. lex_rejects_illegal: a character outside every rule's alphabet, outside comments and
      string literals, makes the lexer report an error (every text);
   3. lex_render: the characters of a printed text (Front/CharRender.v) are read back as
      exactly [raw_tokens] of its lines; the round trip from characters. *)
From PFDL.Front Require Import CharLexer CharRender.
From Coq Require Import Ascii String Lia.
Import ListNotations.
Local Open Scope char_scope.
Notation prefix := CharLexer.prefix.

(* ------------------------------------------------------------------------------------ *)
(* All 256 characters: facts about one character by evaluation                          *)
(* ------------------------------------------------------------------------------------ *)
Definition all_ascii : list ascii := map ascii_of_nat (seq 0 256).

Lemma in_all_ascii : forall c, In c all_ascii.
Proof.
  intros c. unfold all_ascii. rewrite <- (ascii_nat_embedding c).
  apply in_map. apply in_seq. pose proof (nat_ascii_bounded c). lia.
Qed.

Lemma ascii_forall : forall P : ascii -> bool, forallb P all_ascii = true -> forall c, P c = true.
Proof. intros P H c. rewrite forallb_forall in H. apply H. apply in_all_ascii. Qed.

Lemma eqb_eq : forall a b, Ascii.eqb a b = true -> a = b.
Proof. intros a b. apply Ascii.eqb_eq. Qed.

(* ------------------------------------------------------------------------------------ *)
(* span, prefix                                                                          *)
(* ------------------------------------------------------------------------------------ *)
Lemma span_le : forall p cs, span p cs <= List.length cs.
Proof. induction cs as [|c r IH]; cbn; [lia|]. destruct (p c); cbn; lia. Qed.

Lemma span_all : forall p cs, forallb p (firstn (span p cs) cs) = true.
Proof.
  induction cs as [|c r IH]; cbn; [reflexivity|].
  destruct (p c) eqn:E; cbn; [rewrite E; exact IH|reflexivity].
Qed.

Lemma span_app : forall p s rest, forallb p s = true -> span p (s ++ rest) = List.length s + span p rest.
Proof.
  induction s as [|c s IH]; intros rest H; [reflexivity|].
  cbn in H. apply andb_prop in H. destruct H as [Hc Hs]. cbn. rewrite Hc. rewrite IH by exact Hs. reflexivity.
Qed.

(* the input ends, or goes on with a character outside p *)
Definition stops (p : ascii -> bool) (rest : list ascii) : Prop :=
  match rest with [] => True | c :: _ => p c = false end.

Lemma span_stop : forall p rest, stops p rest -> span p rest = 0.
Proof. intros p [|c r] H; cbn in *; [reflexivity|]. rewrite H. reflexivity. Qed.

Lemma span_exact : forall p s rest, forallb p s = true -> stops p rest -> span p (s ++ rest) = List.length s.
Proof. intros. rewrite span_app by assumption. rewrite span_stop by assumption. lia. Qed.

Lemma span_next : forall p cs, stops p (skipn (span p cs) cs).
Proof.
  induction cs as [|c r IH]; cbn; [exact I|].
  destruct (p c) eqn:E; cbn; [exact IH|exact E].
Qed.

Lemma prefix_app : forall s rest, prefix s (s ++ rest) = true.
Proof. induction s as [|a s IH]; intros; cbn; [reflexivity|]. rewrite Ascii.eqb_refl. apply IH. Qed.

Lemma prefix_firstn : forall s cs, prefix s cs = true -> firstn (List.length s) cs = s.
Proof.
  induction s as [|a s IH]; intros cs H; [reflexivity|].
  destruct cs as [|c cs]; [discriminate|]. cbn in H. apply andb_prop in H. destruct H as [E H].
  apply eqb_eq in E. subst c. cbn. f_equal. apply IH. exact H.
Qed.

Lemma firstn_app_exact : forall (A : Type) (a b : list A), firstn (List.length a) (a ++ b) = a.
Proof. intros. rewrite firstn_app, Nat.sub_diag, firstn_all. cbn. apply app_nil_r. Qed.

Lemma skipn_app_exact : forall (A : Type) (a b : list A), skipn (List.length a) (a ++ b) = b.
Proof. intros. rewrite skipn_app, Nat.sub_diag, skipn_all. reflexivity. Qed.

(* ------------------------------------------------------------------------------------ *)
(* best: the result is a rule of the list together with its own match                    *)
(* ------------------------------------------------------------------------------------ *)
Lemma best_sound : forall rs cs acc r n,
  best rs cs acc = Some (r, n) ->
  acc = Some (r, n) \/ (In r rs /\ match_spec (cr_spec r) cs = Some n).
Proof.
  induction rs as [|r0 rs IH]; intros cs acc r n H; cbn [best] in H; [left; exact H|].
  apply IH in H. destruct H as [H|[Hin Hm]]; [|right; split; [right; exact Hin|exact Hm]].
  destruct (match_spec (cr_spec r0) cs) as [k|] eqn:E; [|left; exact H].
  destruct acc as [[r1 m]|].
  - destruct (Nat.ltb m k); [|left; exact H].
    inversion H; subst. right. split; [left; reflexivity|exact E].
  - inversion H; subst. right. split; [left; reflexivity|exact E].
Qed.

Lemma best_match_sound : forall d cs r n,
  best_match d cs = Some (r, n) -> In r (rules_of d) /\ match_spec (cr_spec r) cs = Some n.
Proof.
  intros d cs r n H. unfold best_match in H. apply best_sound in H. destruct H as [H|H]; [discriminate|exact H].
Qed.

Lemma best_app : forall a b cs acc, best (a ++ b) cs acc = best b cs (best a cs acc).
Proof. induction a as [|r a IH]; intros; cbn [best app]; [reflexivity|]. apply IH. Qed.

(* rules that do not match are invisible *)
Lemma best_none : forall rs cs acc,
  (forall r, In r rs -> match_spec (cr_spec r) cs = None) -> best rs cs acc = acc.
Proof.
  induction rs as [|r rs IH]; intros cs acc H; cbn [best app]; [reflexivity|].
  rewrite (H r (or_introl eq_refl)). apply IH. intros r' Hin. apply H. right. exact Hin.
Qed.

(* rules that match at most as long as the one found so far are invisible *)
Lemma best_keep : forall rs cs r0 n,
  (forall r, In r rs -> match match_spec (cr_spec r) cs with Some m => m <= n | None => True end) ->
  best rs cs (Some (r0, n)) = Some (r0, n).
Proof.
  induction rs as [|r rs IH]; intros cs r0 n H; cbn [best app]; [reflexivity|].
  pose proof (H r (or_introl eq_refl)) as Hr.
  destruct (match_spec (cr_spec r) cs) as [m|].
  - replace (Nat.ltb n m) with false by (symmetry; apply Nat.ltb_ge; exact Hr).
    apply IH. intros r' Hin. apply H. right. exact Hin.
  - apply IH. intros r' Hin. apply H. right. exact Hin.
Qed.

(* rules that match strictly shorter than n, then a rule that matches n *)
Lemma best_shorter_then : forall rs cs acc n,
  match acc with Some (_, m) => m < n | None => True end ->
  (forall r, In r rs -> match match_spec (cr_spec r) cs with Some m => m < n | None => True end) ->
  match best rs cs acc with Some (_, m) => m < n | None => True end.
Proof.
  induction rs as [|r rs IH]; intros cs acc n Ha H; cbn [best app]; [exact Ha|].
  apply IH; [|intros r' Hin; apply H; right; exact Hin].
  pose proof (H r (or_introl eq_refl)) as Hr.
  destruct (match_spec (cr_spec r) cs) as [m|]; [|exact Ha].
  destruct acc as [[r1 m1]|]; [|exact Hr].
  destruct (Nat.ltb m1 m); [exact Hr|exact Ha].
Qed.

Lemma best_one_longer : forall r cs acc n,
  match acc with Some (_, m) => m < n | None => True end ->
  match_spec (cr_spec r) cs = Some n ->
  best [r] cs acc = Some (r, n).
Proof.
  intros r cs acc n Ha Hm. cbn [best]. rewrite Hm. destruct acc as [[r1 m]|]; [|reflexivity].
  replace (Nat.ltb m n) with true by (symmetry; apply Nat.ltb_lt; exact Ha). reflexivity.
Qed.

(* ---- the first character decides which rules can match at all ---- *)
Definition first_ok (s : rspec) (c : ascii) : bool :=
  match s with
  | SLit t => match chars t with a :: _ => Ascii.eqb a c | [] => true end
  | SComment | SJComment => Ascii.eqb c "#"
  | SBlanks => is_blank c
  | SWs => is_ws c
  | SNewline => Ascii.eqb c ch_lf || Ascii.eqb c ch_cr
  | SInteger | SFloat => is_digit c
  | SString => Ascii.eqb c ch_quote
  | SIdent false => is_lower c
  | SIdent true => is_upper c
  | SNumber => Ascii.eqb c "-" || is_digit c
  end.

Lemma implb_elim : forall a b, implb a b = true -> a = true -> b = true.
Proof. intros [] [] H1 H2; try reflexivity; discriminate. Qed.

Lemma digit19_digit : forall c, in_class cl_digit19 c = true -> is_digit c = true.
Proof.
  intros c. apply implb_elim. revert c. apply ascii_forall. vm_compute. reflexivity.
Qed.

Lemma zero_digit : forall c, Ascii.eqb c "0" = true -> is_digit c = true.
Proof. intros c H. apply eqb_eq in H. subst. reflexivity. Qed.

Lemma first_sound : forall s c cs n, match_spec s (c :: cs) = Some n -> first_ok s c = true.
Proof.
  intros s c cs n H. destruct s as [t| | | | | | | | |[|]|]; cbn [match_spec first_ok] in *.
  - unfold m_lit in H. destruct (chars t) as [|a r]; [reflexivity|].
    cbn [prefix] in H. destruct (Ascii.eqb a c); [reflexivity|discriminate].
  - unfold m_comment in H. destruct (Ascii.eqb c "#"); [reflexivity|discriminate].
  - unfold m_jcomment in H. destruct (Ascii.eqb c "#"); [reflexivity|discriminate].
  - unfold m_plus in H. cbn [span] in H. destruct (is_blank c); [reflexivity|discriminate].
  - unfold m_plus in H. cbn [span] in H. destruct (is_ws c); [reflexivity|discriminate].
  - unfold m_nl in H. destruct (Ascii.eqb c ch_lf); [reflexivity|].
    destruct (Ascii.eqb c ch_cr); [reflexivity|discriminate].
  - unfold m_plus in H. cbn [span] in H. destruct (is_digit c); [reflexivity|discriminate].
  - unfold m_float in H. cbn [span] in H. destruct (is_digit c); [reflexivity|discriminate].
  - unfold m_string in H. destruct (Ascii.eqb c ch_quote); [reflexivity|discriminate].
  - unfold m_ident in H. destruct (is_upper c); [reflexivity|discriminate].
  - unfold m_ident in H. destruct (is_lower c); [reflexivity|discriminate].
  - unfold m_number in H. destruct (Ascii.eqb c "-"); [reflexivity|]. cbn [orb].
    unfold m_int in H. destruct (Ascii.eqb c "0") eqn:E0; [apply zero_digit; exact E0|].
    destruct (in_class cl_digit19 c) eqn:E; [apply digit19_digit; exact E|discriminate].
Qed.

Lemma best_filter : forall rs c cs acc,
  best rs (c :: cs) acc = best (filter (fun r => first_ok (cr_spec r) c) rs) (c :: cs) acc.
Proof.
  induction rs as [|r rs IH]; intros c cs acc; [reflexivity|].
  cbn [filter]. destruct (first_ok (cr_spec r) c) eqn:E.
  - cbn [best]. apply IH.
  - cbn [best]. destruct (match_spec (cr_spec r) (c :: cs)) as [n|] eqn:Em.
    + apply first_sound in Em. rewrite Em in E. discriminate.
    + apply IH.
Qed.

(* a match is never longer than the input *)
Lemma match_le : forall s x k, match_spec s x = Some k -> k <= List.length x.
Proof.
  intros s x k H.
  destruct s as [t| | | | | | | | |[|]|]; cbn [match_spec] in H.
  - unfold m_lit in H. destruct (prefix (chars t) x) eqn:P; [|discriminate]. inversion H; subst.
    apply prefix_firstn in P. rewrite <- P at 1. rewrite firstn_length. lia.
  - unfold m_comment in H. destruct x as [|a x]; [discriminate|]. destruct (Ascii.eqb a "#"); [|discriminate].
    inversion H. pose proof (span_le not_lf x). cbn. lia.
  - unfold m_jcomment in H. destruct x as [|a x]; [discriminate|]. destruct (Ascii.eqb a "#"); [|discriminate].
    destruct (span not_lf x) eqn:Es; [discriminate|]. inversion H. pose proof (span_le not_lf x). cbn. lia.
  - unfold m_plus in H. destruct (span is_blank x) eqn:Es; [discriminate|]. inversion H.
    pose proof (span_le is_blank x). lia.
  - unfold m_plus in H. destruct (span is_ws x) eqn:Es; [discriminate|]. inversion H.
    pose proof (span_le is_ws x). lia.
  - unfold m_nl in H. destruct x as [|a x]; [discriminate|].
    destruct (Ascii.eqb a ch_lf).
    + inversion H. pose proof (span_le is_space x). cbn. lia.
    + destruct (Ascii.eqb a ch_cr); [|discriminate]. destruct x as [|b x]; [discriminate|].
      destruct (Ascii.eqb b ch_lf); [|discriminate]. inversion H. pose proof (span_le is_space x). cbn. lia.
  - unfold m_plus in H. destruct (span is_digit x) eqn:Es; [discriminate|]. inversion H.
    pose proof (span_le is_digit x). lia.
  - unfold m_float in H. destruct (span is_digit x) eqn:Es; [discriminate|].
    pose proof (span_le is_digit x) as Hs. rewrite Es in Hs.
    destruct (skipn (S n) x) as [|a y] eqn:Ek; [discriminate|].
    destruct (Ascii.eqb a "."); [|discriminate].
    destruct (span is_digit y) eqn:Ey; [discriminate|]. inversion H.
    pose proof (span_le is_digit y) as Hy. rewrite Ey in Hy.
    assert (List.length (skipn (S n) x) = S (List.length y)) by (rewrite Ek; reflexivity).
    rewrite skipn_length in H0. lia.
  - unfold m_string in H. destruct x as [|a x]; [discriminate|]. destruct (Ascii.eqb a ch_quote); [|discriminate].
    destruct (str_body false x) as [m|] eqn:Eb; [|discriminate]. inversion H.
    assert (forall y b m, str_body b y = Some m -> m <= List.length y) as Hsb.
    { induction y as [|a' y IHy]; intros b m' Hy; [discriminate|]. cbn [str_body] in Hy.
      destruct (Ascii.eqb a' ch_quote).
      - destruct b.
        + destruct (str_body false y) as [q|] eqn:Eq; inversion Hy; subst; cbn; [apply IHy in Eq|]; lia.
        + inversion Hy. cbn. lia.
      - destruct (str_body (Ascii.eqb a' ch_bslash) y) as [q|] eqn:Eq; [|discriminate].
        inversion Hy. apply IHy in Eq. cbn. lia. }
    apply Hsb in Eb. cbn. lia.
  - unfold m_ident in H. destruct x as [|a x]; [discriminate|]. destruct (is_upper a); [|discriminate].
    inversion H. pose proof (span_le is_idrest x). cbn. lia.
  - unfold m_ident in H. destruct x as [|a x]; [discriminate|]. destruct (is_lower a); [|discriminate].
    inversion H. pose proof (span_le is_idrest x). cbn. lia.
  - (* NUMBER *)
    assert (Hint : forall y m, m_int y = Some m -> m <= List.length y).
    { intros y m Hy. unfold m_int in Hy. destruct y as [|a y]; [discriminate|].
      destruct (Ascii.eqb a "0"); [inversion Hy; cbn; lia|].
      destruct (in_class cl_digit19 a); [|discriminate]. inversion Hy.
      pose proof (span_le is_digit y). cbn. lia. }
    assert (Hfrac : forall y, opt0 (m_frac y) <= List.length y).
    { intros y. unfold m_frac. destruct y as [|a y]; [cbn; lia|].
      destruct (Ascii.eqb a "."); [|cbn; lia]. destruct (span is_digit y) eqn:Ey; [cbn; lia|].
      pose proof (span_le is_digit y). cbn. lia. }
    assert (Hexp : forall y, opt0 (m_exp y) <= List.length y).
    { intros y. unfold m_exp. destruct y as [|a y]; [cbn; lia|].
      destruct (in_class cl_exp a); [|cbn; lia]. destruct y as [|b y]; [cbn; lia|].
      destruct (in_class cl_sign b).
      - destruct (m_int y) as [q|] eqn:Eq; [|cbn; lia]. apply Hint in Eq. cbn. lia.
      - destruct (m_int (b :: y)) as [q|] eqn:Eq; [|cbn; lia]. apply Hint in Eq. cbn in *. lia. }
    unfold m_number in H.
    destruct x as [|a x].
    + cbn in H. discriminate.
    + destruct (Ascii.eqb a "-").
      * destruct (m_int x) as [q|] eqn:Eq; [|discriminate]. inversion H. apply Hint in Eq.
        pose proof (Hfrac (skipn q x)) as Hf1. pose proof (Hexp (skipn (opt0 (m_frac (skipn q x))) (skipn q x))) as Hf2.
        set (f := opt0 (m_frac (skipn q x))) in *. set (e := opt0 (m_exp (skipn f (skipn q x)))) in *.
        rewrite !skipn_length in *. cbn [List.length]. lia.
      * destruct (m_int (a :: x)) as [q|] eqn:Eq; [|discriminate]. inversion H. apply Hint in Eq.
        pose proof (Hfrac (skipn q (a :: x))) as Hf1.
        pose proof (Hexp (skipn (opt0 (m_frac (skipn q (a :: x)))) (skipn q (a :: x)))) as Hf2.
        set (f := opt0 (m_frac (skipn q (a :: x)))) in *. set (e := opt0 (m_exp (skipn f (skipn q (a :: x))))) in *.
        rewrite !skipn_length in *. cbn [List.length] in *. lia.
Qed.

(* ------------------------------------------------------------------------------------ *)
(* scan: fuel, one step                                                                  *)
(* ------------------------------------------------------------------------------------ *)
Lemma skipn_length_le : forall (A : Type) n (l : list A), List.length (skipn n l) <= List.length l - n.
Proof. intros. rewrite skipn_length. lia. Qed.

Lemma scan_fuel : forall f1 f2 d cs,
  List.length cs <= f1 -> List.length cs <= f2 -> scan f1 d cs = scan f2 d cs.
Proof.
  induction f1 as [|f1 IH]; intros f2 d cs H1 H2.
  - destruct cs; [destruct f2; reflexivity|cbn in H1; lia].
  - destruct cs as [|c cs]; [destruct f2; reflexivity|].
    destruct f2 as [|f2]; [cbn in H2; lia|].
    cbn [scan]. destruct (best_match d (c :: cs)) as [[r [|n]]|]; try reflexivity.
    f_equal. apply IH.
    + pose proof (skipn_length_le _ (S n) (c :: cs)). cbn [List.length] in *. lia.
    + pose proof (skipn_length_le _ (S n) (c :: cs)). cbn [List.length] in *. lia.
Qed.

Definition scanF (d : nat) (cs : list ascii) : scan_result := scan (List.length cs) d cs.

Lemma scan_all_eq : forall cs, scan_all cs = scanF 0 cs.
Proof. reflexivity. Qed.

Lemma scanF_nil : forall d, scanF d [] = ([], None).
Proof. reflexivity. Qed.

(* one step of the scanner, when the longest match is known *)
Lemma scanF_step : forall d tx rest r,
  tx <> [] -> best_match d (tx ++ rest) = Some (r, List.length tx) ->
  scanF d (tx ++ rest) = push_lx (Lx (cr_id r) tx) (scanF (depth_after (cr_cmd r) d) rest).
Proof.
  intros d tx rest r Hne Hb. unfold scanF.
  destruct tx as [|c tx]; [contradiction|].
  cbn [app List.length scan]. change (c :: tx ++ rest) with ((c :: tx) ++ rest) in *.
  rewrite Hb. cbn [List.length].
  change (S (List.length tx)) with (List.length (c :: tx)).
  rewrite firstn_app_exact, skipn_app_exact. f_equal.
  apply scan_fuel; [|lia]. rewrite app_length. cbn [List.length]. lia.
Qed.

Lemma scanF_error : forall d c cs,
  (forall r n, best_match d (c :: cs) <> Some (r, S n)) -> scanF d (c :: cs) = ([], Some (c :: cs)).
Proof.
  intros d c cs H. unfold scanF. cbn [List.length scan].
  destruct (best_match d (c :: cs)) as [[r [|n]]|] eqn:E; try reflexivity.
  exfalso. exact (H r n eq_refl).
Qed.

(* ------------------------------------------------------------------------------------ *)
(* 1. The lexemes tile the input                                                        *)
(* ------------------------------------------------------------------------------------ *)
Definition texts (ls : list lexeme) : list ascii := flat_map lx_text ls.

Lemma scan_covers_fuel : forall f d cs ls e,
  scan f d cs = (ls, e) -> texts ls ++ match e with Some rest => rest | None => [] end = cs.
Proof.
  induction f as [|f IH]; intros d cs ls e H.
  - destruct cs; cbn in H; inversion H; reflexivity.
  - destruct cs as [|c cs]; [cbn in H; inversion H; reflexivity|].
    cbn [scan] in H. destruct (best_match d (c :: cs)) as [[r [|n]]|]; try (inversion H; reflexivity).
    destruct (scan f (depth_after (cr_cmd r) d) (skipn (S n) (c :: cs))) as [ls' e'] eqn:E.
    unfold push_lx in H. cbn [fst snd] in H. inversion H; subst.
    apply IH in E. unfold texts in *. cbn [flat_map lx_text]. rewrite <- app_assoc, E.
    exact (firstn_skipn (S n) (c :: cs)).
Qed.

(* every character of the input belongs to exactly one lexeme, in order, up to the place
   where no rule matches: the lexer never drops a character it has not matched *)
Theorem scan_covers : forall cs ls e,
  scan_all cs = (ls, e) -> texts ls ++ match e with Some rest => rest | None => [] end = cs.
Proof. intros cs ls e. apply scan_covers_fuel. Qed.

(* every lexeme is a non-empty match of a rule of the mode the lexer is in *)
Inductive lexemes_of : nat -> list ascii -> list lexeme -> option (list ascii) -> Prop :=
| LO_end : forall d, lexemes_of d [] [] None
| LO_err : forall d cs, cs <> [] -> (forall r n, best_match d cs <> Some (r, S n)) -> lexemes_of d cs [] (Some cs)
| LO_step : forall d r n tx rest ls e,
    best_match d (tx ++ rest) = Some (r, S n) -> List.length tx = S n ->
    lexemes_of (depth_after (cr_cmd r) d) rest ls e ->
    lexemes_of d (tx ++ rest) (Lx (cr_id r) tx :: ls) e.

Lemma scan_lexemes_fuel : forall f d cs, List.length cs <= f ->
  lexemes_of d cs (fst (scan f d cs)) (snd (scan f d cs)).
Proof.
  induction f as [|f IH]; intros d cs Hl.
  - destruct cs; [apply LO_end|cbn in Hl; lia].
  - destruct cs as [|c cs]; [apply LO_end|].
    cbn [scan]. destruct (best_match d (c :: cs)) as [[r [|n]]|] eqn:E.
    + apply LO_err; [discriminate|]. intros r' n' H. rewrite H in E. discriminate.
    + cbn [push_lx fst snd].
      pose proof (firstn_skipn (S n) (c :: cs)) as Hsplit.
      assert (Hn : S n <= List.length (c :: cs)).
      { apply best_match_sound in E. destruct E as [_ Em]. apply match_le in Em. exact Em. }
      rewrite <- Hsplit at 1.
      eapply LO_step.
      * rewrite Hsplit. exact E.
      * rewrite firstn_length. lia.
      * apply IH. pose proof (skipn_length_le _ (S n) (c :: cs)). cbn [List.length] in *. lia.
    + apply LO_err; [discriminate|]. intros r' n' H. rewrite H in E. discriminate.
Qed.

Theorem scan_lexemes : forall cs, lexemes_of 0 cs (fst (scan_all cs)) (snd (scan_all cs)).
Proof. intros cs. apply scan_lexemes_fuel. lia. Qed.

(* ------------------------------------------------------------------------------------ *)
(* 2. Characters outside the language                                                   *)
(* ------------------------------------------------------------------------------------ *)
Lemma forallb_firstn_add : forall (p : ascii -> bool) a b x,
  forallb p (firstn a x) = true -> forallb p (firstn b (skipn a x)) = true ->
  forallb p (firstn (a + b) x) = true.
Proof.
  intros p a. induction a as [|a IH]; intros b x Ha Hb; [exact Hb|].
  destruct x as [|c x]; [reflexivity|]. cbn [firstn skipn forallb plus] in *.
  apply andb_prop in Ha. destruct Ha as [Hc Ha]. rewrite Hc. apply IH; assumption.
Qed.

Lemma forallb_impl : forall (p q : ascii -> bool) l,
  (forall c, p c = true -> q c = true) -> forallb p l = true -> forallb q l = true.
Proof.
  intros p q l Hpq. induction l as [|c l IH]; intros H; [reflexivity|].
  cbn in *. apply andb_prop in H. destruct H as [Hc Hl]. rewrite (Hpq c Hc). apply IH. exact Hl.
Qed.

Lemma num_digit : forall c, is_digit c = true -> in_alphabet SNumber c = true.
Proof. intros c H. cbn [in_alphabet]. rewrite H. reflexivity. Qed.

Lemma int_alpha : forall y m, m_int y = Some m -> forallb is_digit (firstn m y) = true.
Proof.
  intros y m H. unfold m_int in H. destruct y as [|a y]; [discriminate|].
  destruct (Ascii.eqb a "0") eqn:E0.
  - inversion H. cbn [firstn forallb]. rewrite (zero_digit a E0). reflexivity.
  - destruct (in_class cl_digit19 a) eqn:E; [|discriminate]. inversion H.
    cbn [firstn forallb]. rewrite (digit19_digit a E). apply span_all.
Qed.

Lemma frac_alpha : forall y, forallb (in_alphabet SNumber) (firstn (opt0 (m_frac y)) y) = true.
Proof.
  intros y. unfold m_frac. destruct y as [|a y]; [reflexivity|].
  destruct (Ascii.eqb a ".") eqn:E; [|reflexivity].
  destruct (span is_digit y) as [|j] eqn:Es; [reflexivity|].
  cbn [opt0]. change (firstn (S (S j)) (a :: y)) with (a :: firstn (S j) y). cbn [forallb]. rewrite <- Es.
  replace (in_alphabet SNumber a) with true by (cbn [in_alphabet]; rewrite E; rewrite !Bool.orb_true_r; reflexivity).
  apply (forallb_impl is_digit); [apply num_digit|apply span_all].
Qed.

Lemma exp_alpha : forall y, forallb (in_alphabet SNumber) (firstn (opt0 (m_exp y)) y) = true.
Proof.
  intros y. unfold m_exp. destruct y as [|a y]; [reflexivity|].
  destruct (in_class cl_exp a) eqn:E; [|reflexivity].
  assert (Ha : in_alphabet SNumber a = true) by (cbn [in_alphabet]; rewrite E; rewrite !Bool.orb_true_r; reflexivity).
  destruct y as [|b y]; [reflexivity|].
  destruct (in_class cl_sign b) eqn:Eb.
  - destruct (m_int y) as [q|] eqn:Eq; [|reflexivity].
    cbn [option_map opt0 plus firstn forallb]. rewrite Ha.
    replace (in_alphabet SNumber b) with true by (cbn [in_alphabet]; rewrite Eb; rewrite !Bool.orb_true_r; reflexivity).
    apply (forallb_impl is_digit); [apply num_digit|apply int_alpha; exact Eq].
  - destruct (m_int (b :: y)) as [q|] eqn:Eq; [|reflexivity].
    cbn [option_map opt0 firstn forallb]. rewrite Ha.
    apply (forallb_impl is_digit); [apply num_digit|]. apply (int_alpha (b :: y)). exact Eq.
Qed.

(* a match of a rule that is not a comment or string rule consists of the rule's alphabet *)
Lemma match_alphabet : forall s x n,
  match_spec s x = Some n -> universal s = false -> forallb (in_alphabet s) (firstn n x) = true.
Proof.
  intros s x n H Hu.
  destruct s as [t| | | | | | | | |u|]; try discriminate; cbn [match_spec] in H.
  - unfold m_lit in H. destruct (prefix (chars t) x) eqn:P; [|discriminate]. inversion H; subst.
    rewrite (prefix_firstn _ _ P). cbn [in_alphabet].
    apply forallb_forall. intros c Hc. apply existsb_exists. exists c. split; [exact Hc|apply Ascii.eqb_refl].
  - unfold m_plus in H. destruct (span is_blank x) eqn:Es; [discriminate|]. inversion H. rewrite <- Es. apply span_all.
  - unfold m_plus in H. destruct (span is_ws x) eqn:Es; [discriminate|]. inversion H. rewrite <- Es. apply span_all.
  - unfold m_nl in H. destruct x as [|a x]; [discriminate|].
    assert (Hsp : forall y, forallb (in_alphabet SNewline) (firstn (span is_space y) y) = true).
    { intros y. apply (forallb_impl is_space); [|apply span_all].
      intros c Hc. cbn [in_alphabet]. rewrite Hc. rewrite !Bool.orb_true_r. reflexivity. }
    destruct (Ascii.eqb a ch_lf) eqn:El.
    + inversion H. cbn [firstn forallb]. rewrite Hsp.
      cbn [in_alphabet]. rewrite El. rewrite !Bool.orb_true_r. reflexivity.
    + destruct (Ascii.eqb a ch_cr) eqn:Ec; [|discriminate]. destruct x as [|b x]; [discriminate|].
      destruct (Ascii.eqb b ch_lf) eqn:Eb; [|discriminate]. inversion H. cbn [firstn forallb]. rewrite Hsp.
      cbn [in_alphabet]. rewrite Ec, Eb. rewrite !Bool.orb_true_r. reflexivity.
  - unfold m_plus in H. destruct (span is_digit x) eqn:Es; [discriminate|]. inversion H. rewrite <- Es. apply span_all.
  - unfold m_float in H. destruct (span is_digit x) as [|k] eqn:Es; [discriminate|].
    destruct (skipn (S k) x) as [|a y] eqn:Ek; [discriminate|].
    destruct (Ascii.eqb a ".") eqn:Ea; [|discriminate].
    destruct (span is_digit y) as [|j] eqn:Ey; [discriminate|]. inversion H.
    assert (Hd : forall c, is_digit c = true -> in_alphabet SFloat c = true) by (intros c Hc; cbn [in_alphabet]; rewrite Hc; reflexivity).
    rewrite <- Nat.add_assoc. change (S (k + (1 + S j))) with (S k + (1 + S j)). apply forallb_firstn_add.
    + rewrite <- Es. apply (forallb_impl is_digit); [exact Hd|apply span_all].
    + rewrite Ek. change (firstn (1 + S j) (a :: y)) with (a :: firstn (S j) y). cbn [forallb].
      replace (in_alphabet SFloat a) with true by (cbn [in_alphabet]; rewrite Ea; rewrite Bool.orb_true_r; reflexivity).
      rewrite <- Ey. apply (forallb_impl is_digit); [exact Hd|apply span_all].
  - assert (Hd : forall f cs', m_ident f cs' = Some n -> (forall c, f c = true -> is_idrest c = true) ->
                 forallb is_idrest (firstn n cs') = true).
    { intros f cs' Hm Hf. unfold m_ident in Hm. destruct cs' as [|a y]; [discriminate|].
      destruct (f a) eqn:Ef; [|discriminate]. inversion Hm. cbn [firstn forallb].
      rewrite (Hf a Ef). apply span_all. }
    cbn [in_alphabet]. destruct u.
    + apply (Hd is_upper); [exact H|]. intros c. apply implb_elim. revert c. apply ascii_forall. vm_compute. reflexivity.
    + apply (Hd is_lower); [exact H|]. intros c. apply implb_elim. revert c. apply ascii_forall. vm_compute. reflexivity.
  - unfold m_number in H.
    assert (Hgen : forall sg r, (sg = 0 \/ sg = 1) -> forallb (in_alphabet SNumber) (firstn sg x) = true -> skipn sg x = r ->
              match m_int r with
              | Some n0 => Some (sg + n0 + opt0 (m_frac (skipn n0 r)) + opt0 (m_exp (skipn (opt0 (m_frac (skipn n0 r))) (skipn n0 r))))
              | None => None
              end = Some n -> forallb (in_alphabet SNumber) (firstn n x) = true).
    { intros sg r Hsg Hs Hr Hm. destruct (m_int r) as [n0|] eqn:Ei; [|discriminate]. inversion Hm.
      rewrite <- !Nat.add_assoc. apply forallb_firstn_add; [exact Hs|]. rewrite Hr.
      apply forallb_firstn_add; [apply (forallb_impl is_digit); [apply num_digit|apply int_alpha; exact Ei]|].
      apply forallb_firstn_add; [apply frac_alpha|apply exp_alpha]. }
    destruct x as [|a x]; [cbn in H; discriminate|].
    destruct (Ascii.eqb a "-") eqn:Ea.
    + apply (Hgen 1 x); [right; reflexivity| |reflexivity|exact H].
      cbn [firstn forallb]. replace (in_alphabet SNumber a) with true; [reflexivity|].
      cbn [in_alphabet]. rewrite Ea. rewrite !Bool.orb_true_r. reflexivity.
    + apply (Hgen 0 (a :: x)); [left; reflexivity|reflexivity|reflexivity|exact H].
Qed.

(* what the scanner guarantees for every lexeme *)
Definition all_rules : list crule := default_rules ++ json_rules.

Definition lexeme_wf (l : lexeme) : Prop :=
  exists r rest, In r all_rules /\ lx_rule l = cr_id r
                 /\ match_spec (cr_spec r) (lx_text l ++ rest) = Some (List.length (lx_text l))
                 /\ lx_text l <> [].

Lemma rules_of_all : forall d r, In r (rules_of d) -> In r all_rules.
Proof. intros [|d] r H; unfold all_rules; apply in_or_app; [left|right]; exact H. Qed.

Lemma lexemes_of_wf : forall d cs ls e, lexemes_of d cs ls e -> Forall lexeme_wf ls.
Proof.
  intros d cs ls e H. induction H as [d|d cs Hne Hno|d r n tx rest ls e Hb Hl Hrest IH]; [constructor|constructor|].
  constructor; [|exact IH].
  apply best_match_sound in Hb. destruct Hb as [Hin Hm].
  exists r, rest. cbn [lx_rule lx_text]. split; [eapply rules_of_all; exact Hin|]. split; [reflexivity|].
  split; [rewrite Hl; exact Hm|]. destruct tx; [discriminate|discriminate].
Qed.

Lemma free_text_universal : forall r, In r all_rules -> universal (cr_spec r) = free_text_rule (cr_id r).
Proof.
  assert (H : forallb (fun r => Bool.eqb (universal (cr_spec r)) (free_text_rule (cr_id r))) all_rules = true)
    by (vm_compute; reflexivity).
  intros r Hin. rewrite forallb_forall in H. apply Bool.eqb_prop. apply H. exact Hin.
Qed.

Lemma illegal_not_in_alphabet : forall c r, illegal c = true -> In r all_rules ->
  universal (cr_spec r) = false -> in_alphabet (cr_spec r) c = false.
Proof.
  intros c r Hi Hin Hu. unfold illegal in Hi. apply andb_prop in Hi. destruct Hi as [_ Hi].
  rewrite forallb_forall in Hi. specialize (Hi r Hin). rewrite Hu in Hi. cbn in Hi.
  apply Bool.negb_true_iff. exact Hi.
Qed.

(* a lexeme of a rule other than COMMENT / JSON_COMMENT / STRING / JSON_STRING contains no
   character outside the language *)
Lemma code_lexeme_legal : forall l c, lexeme_wf l -> free_text_rule (lx_rule l) = false ->
  In c (lx_text l) -> illegal c = false.
Proof.
  intros l c [r [rest [Hin [Hid [Hm Hne]]]]] Hfree Hc.
  destruct (illegal c) eqn:Ei; [|reflexivity]. exfalso.
  rewrite Hid, <- (free_text_universal r Hin) in Hfree.
  apply match_alphabet in Hm; [|exact Hfree]. rewrite firstn_app_exact in Hm.
  rewrite forallb_forall in Hm. specialize (Hm c Hc).
  rewrite (illegal_not_in_alphabet c r Ei Hin Hfree) in Hm. discriminate.
Qed.

Lemma covering_spec : forall ls k r, covering ls k = Some r ->
  exists l1 l l2, ls = l1 ++ l :: l2 /\ lx_rule l = r
                  /\ List.length (texts l1) <= k < List.length (texts l1) + List.length (lx_text l).
Proof.
  induction ls as [|l ls IH]; intros k r H; [discriminate|]. cbn [covering] in H.
  destruct (Nat.ltb k (List.length (lx_text l))) eqn:E.
  - inversion H. exists [], l, ls. split; [reflexivity|]. split; [reflexivity|].
    apply Nat.ltb_lt in E. cbn. lia.
  - apply Nat.ltb_ge in E. apply IH in H. destruct H as [l1 [l' [l2 [Hls [Hr Hk]]]]].
    exists (l :: l1), l', l2. split; [rewrite Hls; reflexivity|]. split; [exact Hr|].
    unfold texts in *. cbn [flat_map]. rewrite app_length. lia.
Qed.

Lemma covering_none : forall ls k, covering ls k = None -> List.length (texts ls) <= k.
Proof.
  induction ls as [|l ls IH]; intros k H; [cbn; lia|]. cbn [covering] in H.
  destruct (Nat.ltb k (List.length (lx_text l))) eqn:E; [discriminate|].
  apply Nat.ltb_ge in E. apply IH in H. unfold texts in *. cbn [flat_map]. rewrite app_length. lia.
Qed.

Lemma texts_app : forall a b, texts (a ++ b) = texts a ++ texts b.
Proof. intros. unfold texts. apply flat_map_app. Qed.

Lemma nth_error_mid : forall (A : Type) (a b c : list A) k x,
  List.length a <= k < List.length a + List.length b ->
  nth_error (a ++ b ++ c) k = Some x -> In x b.
Proof.
  intros A a b c k x Hk H. rewrite nth_error_app2 in H by lia.
  rewrite nth_error_app1 in H by lia. eapply nth_error_In. exact H.
Qed.

(* The lexer's error outcome, for EVERY text: if position k of the input holds a character
   outside the language and k does not lie inside a comment or a string literal (as delimited
   by the lexer itself), then lexing fails, at or before k.  No such character is skipped. *)
Theorem lex_rejects_illegal : forall intern cs k c,
  nth_error cs k = Some c -> illegal c = true ->
  match covering (fst (scan_all cs)) k with Some r => free_text_rule r = false | None => True end ->
  exists ts off, lex intern cs = LexError ts off /\ off <= k.
Proof.
  intros intern cs k c Hk Hi Hcov.
  pose proof (scan_lexemes cs) as Hl. apply lexemes_of_wf in Hl.
  destruct (scan_all cs) as [ls e] eqn:Es. cbn [fst snd] in *.
  pose proof (scan_covers cs ls e Es) as Hc.
  assert (Hlen : List.length (texts ls) <= k).
  { destruct (covering ls k) as [r|] eqn:Ec; [|apply covering_none; exact Ec]. exfalso.
    apply covering_spec in Ec. destruct Ec as [l1 [l [l2 [Hls [Hr Hrange]]]]].
    assert (Hwf : lexeme_wf l). { rewrite Forall_forall in Hl. apply Hl. rewrite Hls. apply in_or_app. right. left. reflexivity. }
    assert (Hin : In c (lx_text l)).
    { rewrite <- Hc, Hls, texts_app in Hk. unfold texts at 2 in Hk. cbn [flat_map] in Hk.
      rewrite <- !app_assoc in Hk. eapply nth_error_mid; [exact Hrange|exact Hk]. }
    rewrite <- Hr in Hcov. rewrite (code_lexeme_legal l c Hwf Hcov Hin) in Hi. discriminate. }
  destruct e as [rest|].
  - exists (removelast (emit intern ls)), (List.length cs - List.length rest).
    unfold lex. rewrite Es. split; [reflexivity|]. rewrite <- Hc. rewrite app_length. lia.
  - exfalso. rewrite app_nil_r in Hc. rewrite <- Hc in Hk.
    assert (nth_error (texts ls) k <> None) by (rewrite Hk; discriminate).
    apply nth_error_Some in H. lia.
Qed.

(* the same with a guard that does not mention the lexer: no '#' and no quote before the
   character (so no comment and no string literal can have begun) *)
Lemma free_text_first : forall r c cs n, In r all_rules -> free_text_rule (cr_id r) = true ->
  match_spec (cr_spec r) (c :: cs) = Some n -> c = "#" \/ c = ch_quote.
Proof.
  intros r c cs n Hin Hf Hm. rewrite <- (free_text_universal r Hin) in Hf. apply first_sound in Hm.
  destruct (cr_spec r); try discriminate; cbn [first_ok] in Hm; apply eqb_eq in Hm; subst; auto.
Qed.

Theorem lex_rejects_illegal_plain : forall intern pre c post,
  illegal c = true ->
  forallb (fun x => negb (Ascii.eqb x "#") && negb (Ascii.eqb x ch_quote)) pre = true ->
  exists ts off, lex intern (pre ++ c :: post) = LexError ts off /\ off <= List.length pre.
Proof.
  intros intern pre c post Hi Hpre.
  apply (lex_rejects_illegal intern (pre ++ c :: post) (List.length pre) c).
  - rewrite nth_error_app2 by lia. rewrite Nat.sub_diag. reflexivity.
  - exact Hi.
  - destruct (covering (fst (scan_all (pre ++ c :: post))) (List.length pre)) as [r|] eqn:Ec; [|exact I].
    destruct (free_text_rule r) eqn:Ef; [|reflexivity]. exfalso.
    pose proof (scan_lexemes (pre ++ c :: post)) as Hl. apply lexemes_of_wf in Hl.
    destruct (scan_all (pre ++ c :: post)) as [ls e] eqn:Es. cbn [fst] in *.
    pose proof (scan_covers _ ls e Es) as Hc.
    apply covering_spec in Ec. destruct Ec as [l1 [l [l2 [Hls [Hr Hrange]]]]].
    assert (Hwf : lexeme_wf l). { rewrite Forall_forall in Hl. apply Hl. rewrite Hls. apply in_or_app. right. left. reflexivity. }
    destruct Hwf as [r0 [rest [Hin [Hid [Hm Hne]]]]].
    destruct (lx_text l) as [|a tx] eqn:Etx; [contradiction|].
    rewrite <- Hr, Hid in Ef.
    cbn [app] in Hm. destruct (free_text_first r0 a _ _ Hin Ef Hm) as [Ha|Ha].
    + (* the lexeme begins with '#' at a position <= |pre| *)
      assert (Hnth : nth_error (pre ++ c :: post) (List.length (texts l1)) = Some a).
      { rewrite <- Hc, Hls, texts_app. unfold texts at 2. cbn [flat_map]. rewrite Etx.
        rewrite <- app_assoc. rewrite nth_error_app2 by lia. rewrite Nat.sub_diag. reflexivity. }
      destruct (Nat.eq_dec (List.length (texts l1)) (List.length pre)) as [Heq|Hneq].
      * rewrite Heq, nth_error_app2, Nat.sub_diag in Hnth by lia. inversion Hnth. subst. discriminate.
      * rewrite nth_error_app1 in Hnth by lia. apply nth_error_In in Hnth.
        rewrite forallb_forall in Hpre. specialize (Hpre a Hnth). subst. discriminate.
    + assert (Hnth : nth_error (pre ++ c :: post) (List.length (texts l1)) = Some a).
      { rewrite <- Hc, Hls, texts_app. unfold texts at 2. cbn [flat_map]. rewrite Etx.
        rewrite <- app_assoc. rewrite nth_error_app2 by lia. rewrite Nat.sub_diag. reflexivity. }
      destruct (Nat.eq_dec (List.length (texts l1)) (List.length pre)) as [Heq|Hneq].
      * rewrite Heq, nth_error_app2, Nat.sub_diag in Hnth by lia. inversion Hnth. subst. discriminate.
      * rewrite nth_error_app1 in Hnth by lia. apply nth_error_In in Hnth.
        rewrite forallb_forall in Hpre. specialize (Hpre a Hnth). subst. discriminate.
Qed.

(* a lexer error makes the text invalid *)
Theorem illegal_not_accepted : forall intern pre c post,
  illegal c = true ->
  forallb (fun x => negb (Ascii.eqb x "#") && negb (Ascii.eqb x ch_quote)) pre = true ->
  front_end_chars intern (pre ++ c :: post) = FSyntax.
Proof.
  intros intern pre c post Hi Hp.
  destruct (lex_rejects_illegal_plain intern pre c post Hi Hp) as [ts [off [H _]]].
  unfold front_end_chars. rewrite H. reflexivity.
Qed.

(* ------------------------------------------------------------------------------------ *)
(* 3. Reading back a printed text                                                       *)
(* ------------------------------------------------------------------------------------ *)
(* ---- 3.1 the matchers on a complete lexeme followed by the rest of the text ---- *)
Lemma m_plus_exact : forall p s rest, s <> [] -> forallb p s = true -> stops p rest ->
  m_plus p (s ++ rest) = Some (List.length s).
Proof.
  intros p s rest Hne Hs Hst. unfold m_plus. rewrite span_exact by assumption.
  destruct s; [contradiction|reflexivity].
Qed.

Lemma m_comment_exact : forall tx rest, forallb not_lf tx = true -> stops not_lf rest ->
  m_comment ("#" :: tx ++ rest) = Some (S (List.length tx)).
Proof. intros. unfold m_comment. rewrite Ascii.eqb_refl. rewrite span_exact by assumption. reflexivity. Qed.

Lemma m_jcomment_exact : forall tx rest, tx <> [] -> forallb not_lf tx = true -> stops not_lf rest ->
  m_jcomment ("#" :: tx ++ rest) = Some (S (List.length tx)).
Proof.
  intros tx rest Hne H Hs. unfold m_jcomment. rewrite Ascii.eqb_refl. rewrite span_exact by assumption.
  destruct tx; [contradiction|reflexivity].
Qed.

Lemma spaces_all : forall n, forallb is_space (repeat " " n) = true.
Proof. induction n; [reflexivity|]. cbn [repeat forallb]. rewrite IHn. reflexivity. Qed.

Lemma m_nl_lf : forall n rest, stops is_space rest ->
  m_nl (ch_lf :: repeat " " n ++ rest) = Some (S n).
Proof.
  intros n rest Hs. unfold m_nl. rewrite Ascii.eqb_refl.
  rewrite span_exact; [rewrite repeat_length; reflexivity|apply spaces_all|exact Hs].
Qed.

Lemma m_nl_crlf : forall n rest, stops is_space rest ->
  m_nl (ch_cr :: ch_lf :: repeat " " n ++ rest) = Some (S (S n)).
Proof.
  intros n rest Hs. unfold m_nl. change (Ascii.eqb ch_cr ch_lf) with false. cbv iota.
  rewrite !Ascii.eqb_refl.
  rewrite span_exact; [rewrite repeat_length; reflexivity|apply spaces_all|exact Hs].
Qed.

Lemma m_ident_exact : forall f c w rest, f c = true -> forallb is_idrest w = true -> stops is_idrest rest ->
  m_ident f ((c :: w) ++ rest) = Some (List.length (c :: w)).
Proof.
  intros f c w rest Hc Hw Hs. cbn [app]. unfold m_ident. rewrite Hc. rewrite span_exact by assumption. reflexivity.
Qed.

(* INTEGER text followed by neither a digit nor a point *)
Lemma m_float_none : forall s rest, forallb is_digit s = true ->
  match rest with [] => True | c :: _ => is_digit c = false /\ Ascii.eqb c "." = false end ->
  m_float (s ++ rest) = None.
Proof.
  intros s rest Hs Hr. unfold m_float.
  assert (Hst : stops is_digit rest) by (destruct rest; [exact I|exact (proj1 Hr)]).
  rewrite span_exact by assumption. destruct (List.length s) eqn:El; [reflexivity|].
  rewrite <- El, skipn_app_exact. destruct rest as [|c r]; [reflexivity|]. rewrite (proj2 Hr). reflexivity.
Qed.

(* FLOAT text: digits '.' digits *)
Lemma float_shape : forall s, full_match (m_float s) s = true ->
  exists a b, s = a ++ "." :: b /\ a <> [] /\ b <> [] /\ forallb is_digit a = true /\ forallb is_digit b = true.
Proof.
  intros s H. unfold full_match in H. destruct (m_float s) as [n|] eqn:Em; [|discriminate].
  apply Nat.eqb_eq in H. subst n. unfold m_float in Em.
  destruct (span is_digit s) as [|k] eqn:Es; [discriminate|].
  destruct (skipn (S k) s) as [|c y] eqn:Ek; [discriminate|].
  destruct (Ascii.eqb c ".") eqn:Ec; [|discriminate]. apply eqb_eq in Ec. subst c.
  destruct (span is_digit y) as [|j] eqn:Ey; [discriminate|]. inversion Em as [Hlen].
  exists (firstn (S k) s), y.
  assert (Hsplit : s = firstn (S k) s ++ "." :: y) by (rewrite <- Ek; symmetry; apply firstn_skipn).
  split; [exact Hsplit|].
  assert (Hk : S k <= List.length s) by (rewrite <- Es; apply span_le).
  split; [intros E; apply (f_equal (@List.length ascii)) in E; rewrite firstn_length in E; cbn [List.length] in E; lia|].
  split; [intros E; subst y; discriminate|].
  split; [rewrite <- Es; apply span_all|].
  assert (Hy : List.length y = S j).
  { apply (f_equal (@List.length ascii)) in Hsplit. rewrite app_length, firstn_length in Hsplit. cbn [List.length] in Hsplit. lia. }
  rewrite <- (firstn_all y), Hy, <- Ey. apply span_all.
Qed.

Lemma m_float_exact : forall a b rest, a <> [] -> b <> [] -> forallb is_digit a = true -> forallb is_digit b = true ->
  stops is_digit rest -> m_float ((a ++ "." :: b) ++ rest) = Some (List.length (a ++ "." :: b)).
Proof.
  intros a b rest Ha Hb Hda Hdb Hs. unfold m_float. rewrite <- app_assoc.
  rewrite (span_exact is_digit a) by (try assumption; reflexivity).
  destruct (List.length a) as [|k] eqn:El; [destruct a; [contradiction|discriminate]|].
  rewrite <- El, skipn_app_exact. cbn [app]. rewrite Ascii.eqb_refl.
  rewrite span_exact by assumption. destruct (List.length b) as [|j] eqn:Eb; [destruct b; [contradiction|discriminate]|].
  rewrite app_length. cbn [List.length]. rewrite Eb. f_equal. lia.
Qed.

Lemma m_int_float_text : forall a b rest, a <> [] -> forallb is_digit a = true ->
  m_plus is_digit ((a ++ "." :: b) ++ rest) = Some (List.length a).
Proof.
  intros a b rest Ha Hd. rewrite <- app_assoc. apply m_plus_exact; [exact Ha|exact Hd|]. reflexivity.
Qed.

(* string literal without quote and backslash inside *)
Lemma str_body_plain : forall body rest, forallb plain_str_char body = true ->
  str_body false (body ++ ch_quote :: rest) = Some (S (List.length body)).
Proof.
  induction body as [|c body IH]; intros rest H.
  - cbn [app str_body]. rewrite Ascii.eqb_refl. reflexivity.
  - cbn [forallb] in H. apply andb_prop in H. destruct H as [Hc Hb].
    unfold plain_str_char in Hc. apply andb_prop in Hc. destruct Hc as [Hq Hs].
    apply Bool.negb_true_iff in Hq. apply Bool.negb_true_iff in Hs.
    cbn [app str_body]. rewrite Hq, Hs. rewrite IH by exact Hb. reflexivity.
Qed.

Lemma m_string_exact : forall body rest, forallb plain_str_char body = true ->
  m_string ((ch_quote :: body ++ [ch_quote]) ++ rest) = Some (List.length (ch_quote :: body ++ [ch_quote])).
Proof.
  intros body rest H. cbn [app]. unfold m_string. rewrite Ascii.eqb_refl.
  rewrite <- app_assoc. cbn [app]. rewrite str_body_plain by exact H. cbn [option_map List.length].
  rewrite app_length. cbn [List.length]. f_equal. lia.
Qed.

(* ---- NUMBER: a complete number text followed by a character that cannot continue it ---- *)
Definition num_stop (rest : list ascii) : Prop :=
  match rest with
  | [] => True
  | c :: _ => is_digit c = false /\ Ascii.eqb c "." = false /\ in_class cl_exp c = false
  end.

Lemma m_int_ext : forall y m rest, m_int y = Some m -> stops is_digit rest ->
  m_int (y ++ rest) = Some m.
Proof.
  intros y m rest H Hs. unfold m_int in *. destruct y as [|a y]; [discriminate|]. cbn [app].
  destruct (Ascii.eqb a "0"); [exact H|].
  destruct (in_class cl_digit19 a); [|discriminate]. inversion H. f_equal. f_equal.
  pose proof (span_next is_digit y) as Hn.
  rewrite <- (firstn_skipn (span is_digit y) y) at 1. rewrite <- app_assoc.
  rewrite span_app by apply span_all. rewrite firstn_length.
  pose proof (span_le is_digit y).
  replace (span is_digit (skipn (span is_digit y) y ++ rest)) with 0; [lia|].
  symmetry. apply span_stop. destruct (skipn (span is_digit y) y) as [|b z]; [exact Hs|exact Hn].
Qed.

(* if the match ends inside y, what follows y does not matter *)
Lemma m_int_inner : forall y m rest, m_int y = Some m -> m < List.length y -> m_int (y ++ rest) = Some m.
Proof.
  intros y m rest H Hlt. unfold m_int in *. destruct y as [|a y]; [discriminate|]. cbn [app].
  destruct (Ascii.eqb a "0"); [exact H|].
  destruct (in_class cl_digit19 a); [|discriminate]. inversion H as [Hm]. f_equal. f_equal.
  cbn [List.length] in Hlt.
  rewrite <- (firstn_skipn (span is_digit y) y) at 1. rewrite <- app_assoc.
  rewrite span_app by apply span_all. rewrite firstn_length.
  pose proof (span_le is_digit y). pose proof (span_next is_digit y) as Hn.
  destruct (skipn (span is_digit y) y) as [|b z] eqn:Ek.
  - apply (f_equal (@List.length ascii)) in Ek. rewrite skipn_length in Ek. cbn in Ek. lia.
  - cbn [app span]. cbn [stops] in Hn. rewrite Hn. lia.
Qed.

Lemma m_frac_nil_ext : forall rest, num_stop rest -> m_frac rest = None.
Proof. intros [|c r] H; [reflexivity|]. unfold m_frac. destruct H as [_ [H _]]. rewrite H. reflexivity. Qed.

Lemma m_exp_nil_ext : forall rest, num_stop rest -> m_exp rest = None.
Proof. intros [|c r] H; [reflexivity|]. unfold m_exp. destruct H as [_ [_ H]]. rewrite H. reflexivity. Qed.

Lemma num_stop_digit : forall rest, num_stop rest -> stops is_digit rest.
Proof. intros [|c r] H; [exact I|exact (proj1 H)]. Qed.

Lemma m_frac_ext : forall y rest, y <> [] -> stops is_digit rest ->
  opt0 (m_frac (y ++ rest)) = opt0 (m_frac y)
  \/ (m_frac y = None /\ exists z, y = "." :: z /\ forallb is_digit z = true).
Proof.
  intros y rest Hne Hs. destruct y as [|a y]; [contradiction|]. cbn [app]. unfold m_frac.
  destruct (Ascii.eqb a ".") eqn:Ea; [|left; reflexivity].
  pose proof (span_next is_digit y) as Hn. pose proof (span_le is_digit y) as Hle.
  destruct (skipn (span is_digit y) y) as [|b z] eqn:Ek.
  - (* y is all digits *)
    assert (Hall : forallb is_digit y = true).
    { rewrite <- (firstn_all y). replace (List.length y) with (span is_digit y); [apply span_all|].
      apply (f_equal (@List.length ascii)) in Ek. rewrite skipn_length in Ek. cbn in Ek. lia. }
    rewrite span_exact by assumption.
    destruct y as [|b y].
    + right. split; [reflexivity|]. apply eqb_eq in Ea. subst. exists []. split; reflexivity.
    + left. replace (span is_digit (b :: y)) with (List.length (b :: y)); [reflexivity|].
      rewrite <- (app_nil_r (b :: y)) at 2. symmetry. apply span_exact; [exact Hall|exact I].
  - left. rewrite <- (firstn_skipn (span is_digit y) y) at 1. rewrite <- app_assoc, Ek.
    rewrite span_app by apply span_all. rewrite firstn_length. cbn [app span]. cbn [stops] in Hn. rewrite Hn.
    replace (Nat.min (span is_digit y) (List.length y) + 0) with (span is_digit y) by lia. reflexivity.
Qed.

Lemma m_int_le : forall y m, m_int y = Some m -> m <= List.length y /\ 0 < m.
Proof.
  intros y m H. unfold m_int in H. destruct y as [|a y]; [discriminate|].
  destruct (Ascii.eqb a "0"); [inversion H; cbn; lia|].
  destruct (in_class cl_digit19 a); [|discriminate]. inversion H.
  pose proof (span_le is_digit y). cbn [List.length]. lia.
Qed.

Lemma m_frac_le : forall y, opt0 (m_frac y) <= List.length y.
Proof.
  intros y. unfold m_frac. destruct y as [|a y]; [cbn; lia|].
  destruct (Ascii.eqb a "."); [|cbn; lia]. destruct (span is_digit y) eqn:Ey; [cbn; lia|].
  pose proof (span_le is_digit y). cbn [opt0 List.length]. lia.
Qed.

Lemma m_exp_ext : forall y rest, m_exp y = Some (List.length y) -> stops is_digit rest ->
  m_exp (y ++ rest) = Some (List.length y).
Proof.
  intros y rest H Hs. unfold m_exp in *. destruct y as [|a y]; [discriminate|]. cbn [app].
  destruct (in_class cl_exp a); [|discriminate].
  destruct y as [|b y]; [discriminate|]. cbn [app].
  destruct (in_class cl_sign b).
  - destruct (m_int y) as [k|] eqn:Ek; [|discriminate]. cbn [option_map] in H. inversion H as [Hk].
    rewrite (m_int_ext y k rest Ek Hs). cbn [option_map]. exact H.
  - destruct (m_int (b :: y)) as [k|] eqn:Ek; [|discriminate].
    change (b :: y ++ rest) with ((b :: y) ++ rest).
    rewrite (m_int_ext (b :: y) k rest Ek Hs). exact H.
Qed.

Definition num_core (r : list ascii) : option nat :=
  match m_int r with
  | None => None
  | Some n =>
    let r1 := skipn n r in
    let f := opt0 (m_frac r1) in
    Some (n + f + opt0 (m_exp (skipn f r1)))
  end.

Lemma m_number_core : forall x,
  m_number x = match x with
               | c :: r => if Ascii.eqb c "-" then option_map S (num_core r) else num_core x
               | [] => None
               end.
Proof.
  intros [|c r]; [reflexivity|]. unfold m_number, num_core.
  destruct (Ascii.eqb c "-").
  - destruct (m_int r); [|reflexivity]. cbn [option_map]. f_equal.
  - destruct (m_int (c :: r)); reflexivity.
Qed.

Lemma skipn_app_le : forall (A : Type) n (a b : list A), n <= List.length a -> skipn n (a ++ b) = skipn n a ++ b.
Proof. intros. rewrite skipn_app. replace (n - List.length a) with 0 by lia. reflexivity. Qed.

Lemma num_core_ext : forall r rest, num_core r = Some (List.length r) -> num_stop rest ->
  num_core (r ++ rest) = Some (List.length r).
Proof.
  intros r rest H Hst. unfold num_core in *.
  destruct (m_int r) as [n|] eqn:Ei; [|discriminate].
  pose proof (m_int_le r n Ei) as [Hn Hn0].
  pose proof (num_stop_digit rest Hst) as Hd.
  destruct (Nat.eq_dec n (List.length r)) as [Heq|Hne].
  - rewrite (m_int_ext r n rest Ei Hd). subst n. rewrite skipn_app_exact.
    rewrite (m_frac_nil_ext rest Hst). cbn [opt0 skipn]. rewrite (m_exp_nil_ext rest Hst). cbn [opt0]. f_equal. lia.
  - assert (Hlt : n < List.length r) by lia.
    rewrite (m_int_inner r n rest Ei Hlt). rewrite skipn_app_le by lia.
    set (r1 := skipn n r) in *.
    assert (Hr1 : List.length r1 = List.length r - n) by (unfold r1; apply skipn_length).
    assert (Hr1ne : r1 <> []) by (intros E; rewrite E in Hr1; cbn in Hr1; lia).
    pose proof (m_frac_le r1) as Hfle.
    destruct (m_frac_ext r1 rest Hr1ne Hd) as [Hf|[Hnone [z [Hz Hzd]]]].
    + rewrite Hf. set (f := opt0 (m_frac r1)) in *.
      rewrite skipn_app_le by lia. set (r2 := skipn f r1) in *.
      assert (Hr2 : List.length r2 = List.length r1 - f) by (unfold r2; apply skipn_length).
      inversion H as [Hsum].
      destruct r2 as [|a r2'] eqn:Er2.
      * cbn [app]. rewrite (m_exp_nil_ext rest Hst). reflexivity.
      * assert (He : m_exp (a :: r2') = Some (List.length (a :: r2'))).
        { destruct (m_exp (a :: r2')) as [e|] eqn:Ee; cbn [opt0] in Hsum; [f_equal|cbn [List.length] in *]; lia. }
        rewrite (m_exp_ext (a :: r2') rest He Hd), He. reflexivity.
    + (* r1 = "." z with digits z and no fraction: z = [] ; then no exponent either *)
      exfalso. rewrite Hnone in H. cbn [opt0 skipn] in H. rewrite Hz in H.
      unfold m_exp in H. change (in_class cl_exp ".") with false in H. cbn [opt0] in H. inversion H. lia.
Qed.

Lemma m_number_exact : forall s rest, full_match (m_number s) s = true -> num_stop rest ->
  m_number (s ++ rest) = Some (List.length s).
Proof.
  intros s rest H Hst. unfold full_match in H. destruct (m_number s) as [n|] eqn:Em; [|discriminate].
  apply Nat.eqb_eq in H. subst n. rewrite m_number_core in *.
  destruct s as [|c r]; [discriminate|]. cbn [app].
  destruct (Ascii.eqb c "-").
  - destruct (num_core r) as [k|] eqn:Ek; [|discriminate]. cbn [option_map List.length] in Em. inversion Em as [Hk]. subst k.
    rewrite (num_core_ext r rest Ek Hst). reflexivity.
  - change (c :: r ++ rest) with ((c :: r) ++ rest). apply num_core_ext; assumption.
Qed.

(* ---- 3.2 the longest match at the beginning of every kind of lexeme ---- *)
Definition no_rule : crule := mk EmptyString EmptyString SWs CNone RJWs.
Definition dflt (i : nat) : crule := nth i default_rules no_rule.
Definition jsn (i : nat) : crule := nth i json_rules no_rule.

Definition cand (rs : list crule) (c : ascii) : list crule := filter (fun r => first_ok (cr_spec r) c) rs.

Lemma best_cand : forall d c cs, best_match d (c :: cs) = best (cand (rules_of d) c) (c :: cs) None.
Proof. intros. unfold best_match, cand. apply best_filter. Qed.

Lemma cand_d_space : cand default_rules " " = [dflt 26]. Proof. reflexivity. Qed.
Lemma cand_d_tab : cand default_rules ch_tab = [dflt 26]. Proof. reflexivity. Qed.
Lemma cand_d_lf : cand default_rules ch_lf = [dflt 27]. Proof. reflexivity. Qed.
Lemma cand_d_cr : cand default_rules ch_cr = [dflt 27]. Proof. reflexivity. Qed.
Lemma cand_d_hash : cand default_rules "#" = [dflt 25]. Proof. reflexivity. Qed.
Lemma cand_d_quote : cand default_rules ch_quote = [dflt 22; dflt 45]. Proof. reflexivity. Qed.
Lemma cand_j_space : cand json_rules " " = [jsn 10]. Proof. reflexivity. Qed.
Lemma cand_j_tab : cand json_rules ch_tab = [jsn 10]. Proof. reflexivity. Qed.
Lemma cand_j_lf : cand json_rules ch_lf = [jsn 10]. Proof. reflexivity. Qed.
Lemma cand_j_cr : cand json_rules ch_cr = [jsn 10]. Proof. reflexivity. Qed.
Lemma cand_j_hash : cand json_rules "#" = [jsn 5]. Proof. reflexivity. Qed.
Lemma cand_j_quote : cand json_rules ch_quote = [jsn 0; jsn 4]. Proof. reflexivity. Qed.
Lemma cand_j_minus : cand json_rules "-" = [jsn 9]. Proof. reflexivity. Qed.

Ltac ascii_cases c H :=
  destruct c as [[|] [|] [|] [|] [|] [|] [|] [|]]; try (vm_compute in H; discriminate H).

Lemma cand_d_digit : forall c, is_digit c = true -> cand default_rules c = [dflt 43; dflt 44].
Proof. intros c H. ascii_cases c H; reflexivity. Qed.

Lemma cand_j_digit : forall c, is_digit c = true -> cand json_rules c = [jsn 9].
Proof. intros c H. ascii_cases c H; reflexivity. Qed.

Lemma best_single : forall r cs n, match_spec (cr_spec r) cs = Some n -> best [r] cs None = Some (r, n).
Proof. intros. apply best_one_longer; [exact I|assumption]. Qed.

Lemma best_pair_first : forall r1 r2 cs n,
  match_spec (cr_spec r1) cs = Some n ->
  match match_spec (cr_spec r2) cs with Some m => m <= n | None => True end ->
  best [r1; r2] cs None = Some (r1, n).
Proof.
  intros r1 r2 cs n H1 H2. change [r1; r2] with ([r1] ++ [r2]). rewrite best_app, (best_single r1 cs n H1).
  apply best_keep. intros r [<-|[]]. exact H2.
Qed.

Lemma best_pair_second : forall r1 r2 cs n,
  match match_spec (cr_spec r1) cs with Some m => m < n | None => True end ->
  match_spec (cr_spec r2) cs = Some n ->
  best [r1; r2] cs None = Some (r2, n).
Proof.
  intros r1 r2 cs n H1 H2. change [r1; r2] with ([r1] ++ [r2]). rewrite best_app.
  apply best_one_longer; [|exact H2].
  apply best_shorter_then; [exact I|]. intros r [<-|[]]. exact H1.
Qed.

Lemma blank_cases : forall c, is_blank c = true -> c = " " \/ c = ch_tab.
Proof.
  intros c H.
  assert (E : (Ascii.eqb c " " || Ascii.eqb c ch_tab)%bool = true).
  { revert H. apply implb_elim. revert c. apply ascii_forall. vm_compute. reflexivity. }
  apply Bool.orb_true_iff in E. destruct E as [E|E]; apply eqb_eq in E; auto.
Qed.

Lemma ws_cases : forall c, is_ws c = true -> c = " " \/ c = ch_tab \/ c = ch_lf \/ c = ch_cr.
Proof.
  intros c H.
  assert (E : (Ascii.eqb c " " || Ascii.eqb c ch_tab || Ascii.eqb c ch_lf || Ascii.eqb c ch_cr)%bool = true).
  { revert H. apply implb_elim. revert c. apply ascii_forall. vm_compute. reflexivity. }
  repeat (apply Bool.orb_true_iff in E; destruct E as [E|E]); apply eqb_eq in E; auto.
Qed.

Lemma best_blank : forall tx rest, tx <> [] -> forallb is_blank tx = true -> stops is_blank rest ->
  best_match 0 (tx ++ rest) = Some (dflt 26, List.length tx).
Proof.
  intros tx rest Hne Hb Hs. destruct tx as [|c tx]; [contradiction|].
  assert (Hm : match_spec (cr_spec (dflt 26)) ((c :: tx) ++ rest) = Some (List.length (c :: tx)))
    by (apply m_plus_exact; assumption).
  cbn [forallb] in Hb. apply andb_prop in Hb. destruct Hb as [Hc _].
  cbn [app] in *. rewrite best_cand. cbn [rules_of].
  destruct (blank_cases c Hc) as [->| ->]; [rewrite cand_d_space|rewrite cand_d_tab]; apply best_single; exact Hm.
Qed.

Lemma best_ws : forall d tx rest, tx <> [] -> forallb is_ws tx = true -> stops is_ws rest ->
  best_match (S d) (tx ++ rest) = Some (jsn 10, List.length tx).
Proof.
  intros d tx rest Hne Hb Hs. destruct tx as [|c tx]; [contradiction|].
  assert (Hm : match_spec (cr_spec (jsn 10)) ((c :: tx) ++ rest) = Some (List.length (c :: tx)))
    by (apply m_plus_exact; assumption).
  cbn [forallb] in Hb. apply andb_prop in Hb. destruct Hb as [Hc _].
  cbn [app] in *. rewrite best_cand. cbn [rules_of].
  destruct (ws_cases c Hc) as [->|[->|[->| ->]]];
    [rewrite cand_j_space|rewrite cand_j_tab|rewrite cand_j_lf|rewrite cand_j_cr]; apply best_single; exact Hm.
Qed.

Lemma best_comment : forall tx rest, forallb not_lf tx = true -> stops not_lf rest ->
  best_match 0 (("#" :: tx) ++ rest) = Some (dflt 25, List.length ("#" :: tx)).
Proof.
  intros tx rest H Hs. cbn [app]. rewrite best_cand. cbn [rules_of]. rewrite cand_d_hash.
  apply best_single. apply m_comment_exact; assumption.
Qed.

Lemma best_jcomment : forall d tx rest, tx <> [] -> forallb not_lf tx = true -> stops not_lf rest ->
  best_match (S d) (("#" :: tx) ++ rest) = Some (jsn 5, List.length ("#" :: tx)).
Proof.
  intros d tx rest Hne H Hs. cbn [app]. rewrite best_cand. cbn [rules_of]. rewrite cand_j_hash.
  apply best_single. apply m_jcomment_exact; assumption.
Qed.

Lemma best_nl_lf : forall n rest, stops is_space rest ->
  best_match 0 ((ch_lf :: repeat " " n) ++ rest) = Some (dflt 27, List.length (ch_lf :: repeat " " n)).
Proof.
  intros n rest Hs. cbn [app]. rewrite best_cand. cbn [rules_of]. rewrite cand_d_lf.
  apply best_single. cbn [List.length]. rewrite repeat_length. apply m_nl_lf. exact Hs.
Qed.

Lemma best_nl_crlf : forall n rest, stops is_space rest ->
  best_match 0 ((ch_cr :: ch_lf :: repeat " " n) ++ rest) = Some (dflt 27, List.length (ch_cr :: ch_lf :: repeat " " n)).
Proof.
  intros n rest Hs. cbn [app]. rewrite best_cand. cbn [rules_of]. rewrite cand_d_cr.
  apply best_single. cbn [List.length]. rewrite repeat_length. apply m_nl_crlf. exact Hs.
Qed.

(* ---- words: keywords, 'And', 'Or' and the two identifier rules ---- *)
Definition lit_rules : list crule := firstn 46 default_rules.

Lemma default_split : default_rules = lit_rules ++ [dflt 46; dflt 47].
Proof. reflexivity. Qed.

Lemma lit_rules_in : forall r, In r lit_rules -> In r default_rules.
Proof. intros r H. rewrite default_split. apply in_or_app. left. exact H. Qed.

Definition lit_chars (r : crule) : list ascii :=
  match cr_spec r with SLit t => chars t | _ => [] end.

Definition exact_lit (w : list ascii) (r : crule) : bool := is_word_lit r && chars_eqb (lit_chars r) w.

Definition word_rule (w : list ascii) : crule :=
  match find (exact_lit w) lit_rules with
  | Some r => r
  | None => if is_lower (hd " " w) then dflt 46 else dflt 47
  end.

Definition is_letter (c : ascii) : bool := is_lower c || is_upper c.

Lemma chars_eqb_refl : forall a, chars_eqb a a = true.
Proof. induction a as [|x a IH]; [reflexivity|]. cbn. rewrite Ascii.eqb_refl. exact IH. Qed.

Lemma chars_eqb_eq : forall a b, chars_eqb a b = true -> a = b.
Proof.
  induction a as [|x a IH]; intros [|y b] H; try discriminate; [reflexivity|].
  cbn in H. apply andb_prop in H. destruct H as [E H]. apply eqb_eq in E. subst. f_equal. apply IH. exact H.
Qed.

Lemma lit_word : forall kw w rest, forallb is_idrest kw = true -> stops is_idrest rest ->
  prefix kw (w ++ rest) = true -> prefix kw w = true.
Proof.
  induction kw as [|a kw IH]; intros w rest Hk Hs Hp; [reflexivity|].
  cbn [forallb] in Hk. apply andb_prop in Hk. destruct Hk as [Ha Hk].
  destruct w as [|c w].
  - cbn [app] in Hp. destruct rest as [|c r]; [discriminate|]. cbn [prefix] in Hp.
    apply andb_prop in Hp. destruct Hp as [E _]. apply eqb_eq in E. subst c. cbn [stops] in Hs.
    rewrite Hs in Ha. discriminate.
  - cbn [app prefix] in *. apply andb_prop in Hp. destruct Hp as [E Hp]. rewrite E. cbn [andb].
    eapply IH; eassumption.
Qed.

Lemma prefix_length : forall s cs, prefix s cs = true -> List.length s <= List.length cs.
Proof.
  intros s cs H. apply prefix_firstn in H. rewrite <- H at 1. rewrite firstn_length. lia.
Qed.

Lemma prefix_same_length : forall s cs, prefix s cs = true -> List.length s = List.length cs -> s = cs.
Proof.
  intros s cs H Hl. apply prefix_firstn in H. rewrite Hl, firstn_all in H. symmetry. exact H.
Qed.

Lemma non_word_rules_no_letter :
  forallb (fun r => is_word_lit r
                    || forallb (fun c => implb (is_letter c) (negb (first_ok (cr_spec r) c))) all_ascii) lit_rules = true.
Proof. vm_compute. reflexivity. Qed.

Lemma first_none : forall s c cs, first_ok s c = false -> match_spec s (c :: cs) = None.
Proof.
  intros s c cs H. destruct (match_spec s (c :: cs)) as [n|] eqn:E; [|reflexivity].
  apply first_sound in E. rewrite E in H. discriminate.
Qed.

Section Word.
  Variable c : ascii.
  Variable w' rest : list ascii.
  Hypothesis Hc : is_letter c = true.
  Hypothesis Hw : forallb is_idrest w' = true.
  Hypothesis Hs : stops is_idrest rest.

  Let w := c :: w'.
  Let n := List.length w.

  Lemma letter_idrest : is_idrest c = true.
  Proof.
    revert Hc. apply implb_elim. generalize c. apply ascii_forall. vm_compute. reflexivity.
  Qed.

  Lemma w_idrest : forallb is_idrest w = true.
  Proof. unfold w. cbn [forallb]. rewrite letter_idrest, Hw. reflexivity. Qed.

  (* the literal rules on a word *)
  Lemma lit_on_word : forall r, In r lit_rules ->
    match match_spec (cr_spec r) (w ++ rest) with
    | Some m => m <= n /\ (m = n -> exact_lit w r = true)
    | None => True
    end.
  Proof.
    intros r Hin. pose proof non_word_rules_no_letter as Ht. rewrite forallb_forall in Ht.
    specialize (Ht r Hin). apply Bool.orb_true_iff in Ht. destruct Ht as [Hwl|Hno].
    - unfold is_word_lit in Hwl. unfold exact_lit, is_word_lit, lit_chars.
      destruct (cr_spec r) as [t| | | | | | | | | |]; try discriminate. cbn [match_spec]. unfold m_lit.
      destruct (prefix (chars t) (w ++ rest)) eqn:P; [|exact I].
      apply lit_word in P; [|exact Hwl|exact Hs].
      split; [apply prefix_length; exact P|]. intros Hl. rewrite Hwl. cbn [andb].
      rewrite (prefix_same_length _ _ P Hl). apply chars_eqb_refl.
    - rewrite forallb_forall in Hno. specialize (Hno c (in_all_ascii c)). rewrite Hc in Hno. cbn [implb] in Hno.
      apply Bool.negb_true_iff in Hno. unfold w. cbn [app]. rewrite (first_none _ _ _ Hno). exact I.
  Qed.

  Lemma exact_matches : forall r, exact_lit w r = true -> match_spec (cr_spec r) (w ++ rest) = Some n.
  Proof.
    intros r H. unfold exact_lit, is_word_lit, lit_chars in H. apply andb_prop in H. destruct H as [_ H].
    destruct (cr_spec r) as [t| | | | | | | | | |]; try (unfold w in H; discriminate H).
    apply chars_eqb_eq in H. cbn [match_spec]. unfold m_lit. rewrite H, prefix_app. reflexivity.
  Qed.

  Lemma best_find_some : forall rs acc r0,
    (forall r, In r rs -> In r lit_rules) ->
    match acc with Some (_, m) => m < n | None => True end ->
    find (exact_lit w) rs = Some r0 -> best rs (w ++ rest) acc = Some (r0, n).
  Proof.
    induction rs as [|r rs IH]; intros acc r0 Hsub Hacc Hf; [discriminate|].
    cbn [find] in Hf. cbn [best].
    pose proof (lit_on_word r (Hsub r (or_introl eq_refl))) as Hr.
    destruct (exact_lit w r) eqn:E.
    - inversion Hf; subst r0. rewrite (exact_matches r E).
      assert (Hacc' : (match acc with
                       | Some (_, m) => if Nat.ltb m n then Some (r, n) else acc
                       | None => Some (r, n)
                       end) = Some (r, n)).
      { destruct acc as [[r1 m]|]; [|reflexivity].
        replace (Nat.ltb m n) with true by (symmetry; apply Nat.ltb_lt; exact Hacc). reflexivity. }
      rewrite Hacc'. apply best_keep. intros r' Hin'.
      pose proof (lit_on_word r' (Hsub r' (or_intror Hin'))) as Hr'.
      destruct (match_spec (cr_spec r') (w ++ rest)); [exact (proj1 Hr')|exact I].
    - apply IH; [intros r' Hin'; apply Hsub; right; exact Hin'| |exact Hf].
      destruct (match_spec (cr_spec r) (w ++ rest)) as [m|]; [|exact Hacc].
      destruct Hr as [Hle Heq].
      assert (Hlt : m < n).
      { destruct (Nat.eq_dec m n) as [Hmn|Hmn]; [specialize (Heq Hmn); congruence|lia]. }
      destruct acc as [[r1 m1]|]; [|exact Hlt]. destruct (Nat.ltb m1 m); [exact Hlt|exact Hacc].
  Qed.

  Lemma best_find_none : forall rs acc,
    (forall r, In r rs -> In r lit_rules) ->
    match acc with Some (_, m) => m < n | None => True end ->
    find (exact_lit w) rs = None ->
    match best rs (w ++ rest) acc with Some (_, m) => m < n | None => True end.
  Proof.
    intros rs acc Hsub Hacc Hf. apply best_shorter_then; [exact Hacc|].
    intros r Hin. pose proof (lit_on_word r (Hsub r Hin)) as Hr.
    destruct (match_spec (cr_spec r) (w ++ rest)) as [m|]; [|exact I].
    destruct Hr as [Hle Heq]. destruct (Nat.eq_dec m n) as [Hmn|Hmn]; [|lia].
    pose proof (find_none _ _ Hf r Hin) as E. specialize (Heq Hmn). congruence.
  Qed.

  Lemma lower_upper_disjoint : is_lower c = true -> is_upper c = false.
  Proof.
    destruct (is_upper c) eqn:E; [|reflexivity]. intros H. exfalso. revert H E.
    assert (X : (negb (is_lower c && is_upper c)) = true) by (generalize c; apply ascii_forall; vm_compute; reflexivity).
    intros H E. rewrite H, E in X. discriminate.
  Qed.

  Lemma ident_lower : match_spec (cr_spec (dflt 46)) (w ++ rest) = if is_lower c then Some n else None.
  Proof.
    change (match_spec (cr_spec (dflt 46))) with (m_ident is_lower).
    destruct (is_lower c) eqn:E; [apply m_ident_exact; assumption|].
    unfold w. cbn [app]. unfold m_ident. rewrite E. reflexivity.
  Qed.

  Lemma ident_upper : match_spec (cr_spec (dflt 47)) (w ++ rest) = if is_upper c then Some n else None.
  Proof.
    change (match_spec (cr_spec (dflt 47))) with (m_ident is_upper).
    destruct (is_upper c) eqn:E; [apply m_ident_exact; assumption|].
    unfold w. cbn [app]. unfold m_ident. rewrite E. reflexivity.
  Qed.

  (* the longest match on a word: the keyword (or 'And', 'Or') spelled exactly like it,
     otherwise the identifier rule of its first letter *)
  Lemma best_word : best_match 0 (w ++ rest) = Some (word_rule w, n).
  Proof.
    unfold best_match. cbn [rules_of]. rewrite default_split, best_app. unfold word_rule.
    destruct (find (exact_lit w) lit_rules) as [r0|] eqn:Ef.
    - rewrite (best_find_some lit_rules None r0 (fun r H => H) I Ef).
      apply best_keep. intros r [<-|[<-|[]]]; [rewrite ident_lower|rewrite ident_upper].
      + destruct (is_lower c); [apply Nat.le_refl|exact I].
      + destruct (is_upper c); [apply Nat.le_refl|exact I].
    - pose proof (best_find_none lit_rules None (fun r H => H) I Ef) as Hb.
      change (hd " " w) with c.
      set (acc := best lit_rules (w ++ rest) None) in *.
      change [dflt 46; dflt 47] with ([dflt 46] ++ [dflt 47]). rewrite best_app.
      pose proof ident_lower as Hl. pose proof ident_upper as Hu.
      destruct (is_lower c) eqn:El.
      + rewrite (best_one_longer (dflt 46) _ acc n Hb Hl).
        apply best_keep. intros r [<-|[]]. rewrite Hu, (lower_upper_disjoint El). exact I.
      + assert (Eu : is_upper c = true) by (unfold is_letter in Hc; rewrite El in Hc; exact Hc).
        rewrite Eu in Hu.
        rewrite (best_none [dflt 46] _ acc); [|intros r [<-|[]]; exact Hl].
        apply best_one_longer; [exact Hb|exact Hu].
  Qed.
End Word.

Lemma not_keyword_rule : forall w, is_keyword w = false -> find (exact_lit w) lit_rules = None.
Proof.
  intros w H. destruct (find (exact_lit w) lit_rules) as [r|] eqn:E; [|reflexivity]. exfalso.
  apply find_some in E. destruct E as [Hin Hex]. apply lit_rules_in in Hin.
  unfold exact_lit, is_word_lit, lit_chars in Hex. apply andb_prop in Hex. destruct Hex as [Hwl Heq].
  destruct (cr_spec r) as [t| | | | | | | | | |] eqn:Es; try discriminate.
  apply chars_eqb_eq in Heq.
  assert (Hk : is_keyword w = true); [|rewrite Hk in H; discriminate].
  unfold is_keyword. apply existsb_exists. exists (chars t). split; [|rewrite Heq; apply chars_eqb_refl].
  unfold word_literals. apply in_flat_map. exists r. split; [exact Hin|]. rewrite Es, Hwl. left. reflexivity.
Qed.

Lemma Q_eqb_eq : forall a b, Q_eqb a b = true -> a = b.
Proof.
  intros [an ad] [bn bd] H. unfold Q_eqb in H. cbn [Qnum Qden] in H. apply andb_prop in H. destruct H as [Hn Hd].
  apply Z.eqb_eq in Hn. apply Pos.eqb_eq in Hd. subst. reflexivity.
Qed.

Section Tok.
  Variable intern : list ascii -> name.
  Variable sty : cstyle.

  Definition follow_ok (t : tok) (rest : list ascii) : Prop :=
    match rest with [] => True | c :: _ => follow_bad t c = false end.

  Definition tok_goal (d : nat) (t : tok) (rest : list ascii) : Prop :=
    exists r sh, best_match d (spell sty t ++ rest) = Some (r, List.length (spell sty t))
                 /\ cr_id r = RT sh /\ conv intern sh (spell sty t) = t
                 /\ depth_after (cr_cmd r) d = depth_step d t /\ spell sty t <> [].

  (* fixed spelling, no restriction on what follows: by evaluation, the rest stays symbolic *)
  Ltac fixed_tok :=
    match goal with
    | |- tok_goal ?d ?t ?rest =>
      unfold tok_goal;
      let v := eval vm_compute in (best_match d (spell sty t ++ rest)) in
      match v with
      | Some (?r, _) => exists r; exists t; split; [vm_compute; reflexivity|];
                        split; [reflexivity|]; split; [reflexivity|]; split; [reflexivity|discriminate]
      end
    end.

  Ltac word_tok Hf :=
    match goal with
    | |- tok_goal 0 ?t ?rest =>
      unfold tok_goal;
      let s := eval vm_compute in (spell sty t) in
      change (spell sty t) with s;
      match s with
      | ?c :: ?w' =>
        exists (word_rule s); exists t;
        split; [apply (best_word c w' rest eq_refl eq_refl); destruct rest; [exact I|exact Hf]|];
        split; [vm_compute; reflexivity|]; split; [reflexivity|]; split; [vm_compute; reflexivity|discriminate]
      end
    end.

  Lemma wrong_mode_d : forall t rest, mode_ok 1 t = false -> mode_ok 1 t = true -> tok_goal 1 t rest.
  Proof. intros. congruence. Qed.

  Lemma best_lt_like : forall r1 r2 (a : ascii) rest,
    cand default_rules a = [r1; r2] -> cr_spec r1 = SLit (String a EmptyString) ->
    cr_spec r2 = SLit (String a (String "=" EmptyString)) ->
    match rest with [] => True | c :: _ => Ascii.eqb c "=" = false end ->
    best_match 0 ([a] ++ rest) = Some (r1, 1).
  Proof.
    intros r1 r2 a rest Hc H1 H2 Hr. cbn [app]. rewrite best_cand. cbn [rules_of]. rewrite Hc.
    apply best_pair_first.
    - rewrite H1. cbn [match_spec]. unfold m_lit. cbn [chars list_ascii_of_string CharLexer.prefix].
      rewrite Ascii.eqb_refl. reflexivity.
    - rewrite H2. cbn [match_spec]. unfold m_lit. cbn [chars list_ascii_of_string CharLexer.prefix].
      rewrite Ascii.eqb_refl. destruct rest as [|c rest']; [exact I|].
      rewrite Ascii.eqb_sym, Hr. exact I.
  Qed.

  Lemma best_tok : forall d t rest,
    mode_ok d t = true -> tok_spelled intern sty t = true -> follow_ok t rest -> tok_goal d t rest.
  Proof.
    intros d t rest Hm Hsp Hf.
    destruct t; destruct d as [|d]; try discriminate Hm; try discriminate Hsp.
    (* keywords *)
    1-18: word_tok Hf.
    (* punctuation of the default mode *)
    1-8: fixed_tok.
    (* < <= > >= == != *)
    - unfold tok_goal. exists (dflt 30), OpLt. split; [apply (best_lt_like (dflt 30) (dflt 31) "<"); try reflexivity; exact Hf|].
      repeat split; try reflexivity; discriminate.
    - fixed_tok.
    - unfold tok_goal. exists (dflt 32), OpGt. split; [apply (best_lt_like (dflt 32) (dflt 33) ">"); try reflexivity; exact Hf|].
      repeat split; try reflexivity; discriminate.
    - fixed_tok.
    - fixed_tok.
    - fixed_tok.
    - word_tok Hf.
    - word_tok Hf.
    - (* ! : the candidates are != and ! *)
      unfold tok_goal. exists (dflt 38), OpNot. split.
      + change (spell sty OpNot) with ["!"]. cbn [app]. rewrite best_cand. cbn [rules_of].
        change (cand default_rules "!") with [dflt 35; dflt 38].
        apply best_pair_second.
        * change (match_spec (cr_spec (dflt 35))) with (m_lit ["!"; "="]). unfold m_lit. cbn [CharLexer.prefix].
          destruct rest as [|c rest']; [exact I|]. cbn [follow_ok follow_bad] in Hf.
          rewrite (Ascii.eqb_sym "=" c), Hf. exact I.
        * reflexivity.
      + repeat split; try reflexivity; discriminate.
    - fixed_tok.
    - fixed_tok.
    - fixed_tok.
    - fixed_tok.
    - (* INTEGER *)
      cbn [tok_spelled] in Hsp. unfold tok_goal. change (spell sty (TInt n)) with (cs_int sty n).
      destruct (cs_int sty n) as [|c s] eqn:Es; [discriminate|].
      apply andb_prop in Hsp. destruct Hsp as [Hd Hv]. apply Nat.eqb_eq in Hv.
      assert (Hc : is_digit c = true) by (cbn [forallb] in Hd; apply andb_prop in Hd; exact (proj1 Hd)).
      exists (dflt 43), (TInt 0). split.
      + cbn [app]. rewrite best_cand. cbn [rules_of]. rewrite (cand_d_digit c Hc).
        change (c :: s ++ rest) with ((c :: s) ++ rest). apply best_pair_first.
        * apply m_plus_exact; [discriminate|exact Hd|]. destruct rest as [|x rest']; [exact I|].
          cbn [follow_ok follow_bad] in Hf. apply Bool.orb_false_iff in Hf. exact (proj1 Hf).
        * change (match_spec (cr_spec (dflt 44))) with m_float. rewrite m_float_none; [exact I|exact Hd|].
          destruct rest as [|x rest']; [exact I|]. cbn [follow_ok follow_bad] in Hf.
          apply Bool.orb_false_iff in Hf. exact Hf.
      + split; [reflexivity|]. split; [cbn [conv]; rewrite Hv; reflexivity|]. split; [reflexivity|discriminate].
    - (* FLOAT *)
      cbn [tok_spelled] in Hsp. unfold tok_goal. change (spell sty (TFloat q)) with (cs_float sty q).
      apply andb_prop in Hsp. destruct Hsp as [Hfm Hv]. apply Q_eqb_eq in Hv.
      destruct (float_shape _ Hfm) as [a [b [Hs [Ha [Hb [Hda Hdb]]]]]].
      destruct a as [|c a]; [contradiction|].
      assert (Hc : is_digit c = true) by (cbn [forallb] in Hda; apply andb_prop in Hda; exact (proj1 Hda)).
      exists (dflt 44), (TFloat 0). split.
      + rewrite Hs. cbn [app]. rewrite best_cand. cbn [rules_of]. rewrite (cand_d_digit c Hc).
        change (c :: (a ++ "." :: b) ++ rest) with (((c :: a) ++ "." :: b) ++ rest).
        apply best_pair_second.
        * change (match_spec (cr_spec (dflt 43))) with (m_plus is_digit).
          rewrite m_int_float_text by (try discriminate; exact Hda).
          cbn [List.length]. rewrite app_length. cbn [List.length]. lia.
        * apply m_float_exact; try assumption; try discriminate.
      + split; [reflexivity|]. split; [cbn [conv]; rewrite Hv; reflexivity|]. split; [reflexivity|].
        rewrite Hs. discriminate.
    - (* STRING *)
      cbn [tok_spelled] in Hsp. unfold tok_goal. apply andb_prop in Hsp. destruct Hsp as [Hp Hv]. apply Nat.eqb_eq in Hv.
      change (spell sty (TStr s)) with (ch_quote :: cs_name sty s ++ [ch_quote]).
      exists (dflt 45), (TStr 0). split.
      + change ((ch_quote :: cs_name sty s ++ [ch_quote]) ++ rest)
          with (ch_quote :: (cs_name sty s ++ [ch_quote]) ++ rest).
        rewrite best_cand. cbn [rules_of]. rewrite cand_d_quote.
        change (ch_quote :: (cs_name sty s ++ [ch_quote]) ++ rest)
          with ((ch_quote :: cs_name sty s ++ [ch_quote]) ++ rest).
        apply best_pair_second.
        * change (match_spec (cr_spec (dflt 22))) with (m_lit [ch_quote]). unfold m_lit.
          cbn [app CharLexer.prefix]. rewrite Ascii.eqb_refl. cbn [andb List.length].
          rewrite app_length. cbn [List.length]. lia.
        * apply m_string_exact. exact Hp.
      + split; [reflexivity|]. split.
        * cbn [conv]. unfold str_inner. cbn [tl]. rewrite removelast_last. rewrite Hv. reflexivity.
        * split; [reflexivity|discriminate].
    - (* lower-case identifier *)
      cbn [tok_spelled] in Hsp. unfold tok_goal. change (spell sty (TLower n)) with (cs_name sty n).
      destruct (cs_name sty n) as [|c w'] eqn:Es; [discriminate|].
      apply andb_prop in Hsp. destruct Hsp as [Hsp Hv]. apply andb_prop in Hsp. destruct Hsp as [Hsp Hk].
      apply andb_prop in Hsp. destruct Hsp as [Hc Hw]. apply Nat.eqb_eq in Hv. apply Bool.negb_true_iff in Hk.
      exists (dflt 46), (TLower 0). split.
      + rewrite best_word; [| unfold is_letter; rewrite Hc; reflexivity | exact Hw | destruct rest; [exact I|exact Hf]].
        unfold word_rule. rewrite (not_keyword_rule _ Hk). cbn [hd]. rewrite Hc. reflexivity.
      + split; [reflexivity|]. split; [cbn [conv]; rewrite Hv; reflexivity|]. split; [reflexivity|discriminate].
    - (* upper-case identifier *)
      cbn [tok_spelled] in Hsp. unfold tok_goal. change (spell sty (TUpper n)) with (cs_name sty n).
      destruct (cs_name sty n) as [|c w'] eqn:Es; [discriminate|].
      apply andb_prop in Hsp. destruct Hsp as [Hsp Hv]. apply andb_prop in Hsp. destruct Hsp as [Hsp Hk].
      apply andb_prop in Hsp. destruct Hsp as [Hc Hw]. apply Nat.eqb_eq in Hv. apply Bool.negb_true_iff in Hk.
      assert (Hl : is_lower c = false).
      { destruct (is_lower c) eqn:El; [|reflexivity]. rewrite (lower_upper_disjoint c El) in Hc. discriminate. }
      exists (dflt 47), (TUpper 0). split.
      + rewrite best_word; [| unfold is_letter; rewrite Hc; apply Bool.orb_true_r | exact Hw | destruct rest; [exact I|exact Hf]].
        unfold word_rule. rewrite (not_keyword_rule _ Hk). cbn [hd]. rewrite Hl. reflexivity.
      + split; [reflexivity|]. split; [cbn [conv]; rewrite Hv; reflexivity|]. split; [reflexivity|discriminate].
    - (* JSON_STRING *)
      cbn [tok_spelled] in Hsp. unfold tok_goal. apply andb_prop in Hsp. destruct Hsp as [Hp Hv]. apply Nat.eqb_eq in Hv.
      change (spell sty (JString s)) with (ch_quote :: cs_name sty s ++ [ch_quote]).
      exists (jsn 0), (JString 0). split.
      + change ((ch_quote :: cs_name sty s ++ [ch_quote]) ++ rest)
          with (ch_quote :: (cs_name sty s ++ [ch_quote]) ++ rest).
        rewrite best_cand. cbn [rules_of]. rewrite cand_j_quote.
        change (ch_quote :: (cs_name sty s ++ [ch_quote]) ++ rest)
          with ((ch_quote :: cs_name sty s ++ [ch_quote]) ++ rest).
        apply best_pair_first.
        * apply m_string_exact. exact Hp.
        * change (match_spec (cr_spec (jsn 4))) with (m_lit [ch_quote]). unfold m_lit.
          cbn [app CharLexer.prefix]. rewrite Ascii.eqb_refl. cbn [andb List.length].
          rewrite app_length. cbn [List.length]. lia.
      + split; [reflexivity|]. split.
        * cbn [conv]. unfold str_inner. cbn [tl]. rewrite removelast_last. rewrite Hv. reflexivity.
        * split; [reflexivity|discriminate].
    - fixed_tok.
    - fixed_tok.
    - fixed_tok.
    - fixed_tok.
    - fixed_tok.
    - fixed_tok.
    - (* NUMBER *)
      cbn [tok_spelled] in Hsp. unfold tok_goal. change (spell sty (JNumber q)) with (cs_number sty q).
      apply andb_prop in Hsp. destruct Hsp as [Hfm Hv]. apply Q_eqb_eq in Hv.
      assert (Hst : num_stop rest).
      { destruct rest as [|x rest']; [exact I|]. cbn [follow_ok follow_bad] in Hf.
        apply Bool.orb_false_iff in Hf. destruct Hf as [Hf H3]. apply Bool.orb_false_iff in Hf. destruct Hf as [H1 H2].
        repeat split; assumption. }
      pose proof (m_number_exact _ rest Hfm Hst) as Hmn.
      destruct (cs_number sty q) as [|c s] eqn:Es; [discriminate|].
      exists (jsn 9), (JNumber 0). split.
      + cbn [app] in *. rewrite best_cand. cbn [rules_of].
        pose proof (first_sound SNumber _ _ _ Hmn) as Hfo. cbn [first_ok] in Hfo.
        apply Bool.orb_true_iff in Hfo. destruct Hfo as [E|E].
        * apply eqb_eq in E. subst c. rewrite cand_j_minus. apply best_single. exact Hmn.
        * rewrite (cand_j_digit c E). apply best_single. exact Hmn.
      + split; [reflexivity|]. split; [cbn [conv]; rewrite Hv; reflexivity|]. split; [reflexivity|discriminate].
    - fixed_tok.
    - fixed_tok.
  Qed.
End Tok.

(* ---- 3.3 what a scan shows: tokens and error (te), first column (fc) ---- *)
Section Read.
  Variable intern : list ascii -> name.
  Variable sty : cstyle.

  Definition te (r : scan_result) : list rtok * option (list ascii) := (emit intern (fst r), snd r).
  Definition fc (c : nat) (r : scan_result) : nat := first_col c (fst r).
  Definition pre (ts : list rtok) (x : list rtok * option (list ascii)) : list rtok * option (list ascii) :=
    (ts ++ fst x, snd x).

  Lemma te_push_tok : forall sh tx r, te (push_lx (Lx (RT sh) tx) r) = pre [RTok (conv intern sh tx)] (te r).
  Proof. reflexivity. Qed.

  Lemma te_push_nl : forall tx r, te (push_lx (Lx RNewline tx) r) = pre [nl_token tx] (te r).
  Proof. reflexivity. Qed.

  Lemma te_push_skip : forall rid tx r, skip_rule rid = true -> te (push_lx (Lx rid tx) r) = te r.
  Proof. intros [sh| | | | | ] tx r H; try discriminate; reflexivity. Qed.

  Lemma fc_push_tok : forall c sh tx r, fc c (push_lx (Lx (RT sh) tx) r) = c.
  Proof. reflexivity. Qed.

  Lemma fc_push_other : forall c rid tx r, emits_token rid = false ->
    fc c (push_lx (Lx rid tx) r) = fc (col_after c tx) r.
  Proof. intros c [sh| | | | | ] tx r H; try discriminate; reflexivity. Qed.

  Lemma col_after_app : forall a b c, col_after c (a ++ b) = col_after (col_after c a) b.
  Proof. induction a as [|x a IH]; intros b c; [reflexivity|]. cbn [app col_after]. apply IH. Qed.

  Lemma col_after_spaces : forall n c, col_after c (repeat " " n) = c + n.
  Proof.
    induction n as [|n IH]; intros c; [cbn; lia|]. cbn [repeat col_after].
    change (Ascii.eqb " " ch_lf) with false. change (is_cont " ") with false. cbv iota. rewrite IH. lia.
  Qed.

  (* ---- maximal runs of skipped characters ---- *)
  Section Run.
    Variable p : ascii -> bool.
    Variable d : nat.
    Variable rr : crule.
    Hypothesis Hbest : forall tx rest, tx <> [] -> forallb p tx = true -> stops p rest ->
      best_match d (tx ++ rest) = Some (rr, List.length tx).
    Hypothesis Hskip : skip_rule (cr_id rr) = true.
    Hypothesis Hcmd : depth_after (cr_cmd rr) d = d.

    Lemma run_exact : forall tx rest, tx <> [] -> forallb p tx = true -> stops p rest ->
      scanF d (tx ++ rest) = push_lx (Lx (cr_id rr) tx) (scanF d rest).
    Proof.
      intros tx rest Hne Hp Hs. rewrite (scanF_step d tx rest rr Hne (Hbest tx rest Hne Hp Hs)).
      rewrite Hcmd. reflexivity.
    Qed.

    Lemma run_split : forall rest, exists r1 r2, rest = r1 ++ r2 /\ forallb p r1 = true /\ stops p r2.
    Proof.
      intros rest. exists (firstn (span p rest) rest), (skipn (span p rest) rest).
      split; [symmetry; apply firstn_skipn|]. split; [apply span_all|apply span_next].
    Qed.

    Lemma forallb_app2 : forall a b, forallb p a = true -> forallb p b = true -> forallb p (a ++ b) = true.
    Proof. intros a b Ha Hb. rewrite forallb_app, Ha, Hb. reflexivity. Qed.

    Lemma emits_skip : emits_token (cr_id rr) = false.
    Proof. destruct (cr_id rr); try discriminate; reflexivity. Qed.

    Lemma run_te : forall bl rest, forallb p bl = true -> te (scanF d (bl ++ rest)) = te (scanF d rest).
    Proof.
      intros bl rest Hp. destruct bl as [|b bl]; [reflexivity|].
      destruct (run_split rest) as [r1 [r2 [Hr [Hp1 Hs2]]]]. subst rest.
      rewrite app_assoc. rewrite run_exact; [|discriminate|apply forallb_app2; assumption|exact Hs2].
      rewrite te_push_skip by exact Hskip.
      destruct r1 as [|x r1]; [reflexivity|].
      rewrite run_exact; [|discriminate|exact Hp1|exact Hs2]. rewrite te_push_skip by exact Hskip. reflexivity.
    Qed.

    Lemma run_fc : forall bl rest c, forallb p bl = true ->
      fc c (scanF d (bl ++ rest)) = fc (col_after c bl) (scanF d rest).
    Proof.
      intros bl rest c Hp. destruct bl as [|b bl]; [reflexivity|].
      destruct (run_split rest) as [r1 [r2 [Hr [Hp1 Hs2]]]]. subst rest.
      rewrite app_assoc. rewrite run_exact; [|discriminate|apply forallb_app2; assumption|exact Hs2].
      rewrite fc_push_other by exact emits_skip. rewrite col_after_app.
      destruct r1 as [|x r1]; [reflexivity|].
      rewrite run_exact; [|discriminate|exact Hp1|exact Hs2]. rewrite fc_push_other by exact emits_skip. reflexivity.
    Qed.
  End Run.

  Lemma blanks_te : forall bl rest, forallb is_blank bl = true -> te (scanF 0 (bl ++ rest)) = te (scanF 0 rest).
  Proof. apply (run_te is_blank 0 (dflt 26) best_blank eq_refl eq_refl). Qed.

  Lemma blanks_fc : forall bl rest c, forallb is_blank bl = true ->
    fc c (scanF 0 (bl ++ rest)) = fc (col_after c bl) (scanF 0 rest).
  Proof. apply (run_fc is_blank 0 (dflt 26) best_blank eq_refl eq_refl). Qed.

  Lemma ws_te : forall d bl rest, forallb is_ws bl = true -> te (scanF (S d) (bl ++ rest)) = te (scanF (S d) rest).
  Proof. intros d. apply (run_te is_ws (S d) (jsn 10) (best_ws d) eq_refl eq_refl). Qed.

  (* ---- comments ---- *)
  Lemma comment_te : forall tx rest, forallb not_lf tx = true -> stops not_lf rest ->
    te (scanF 0 (("#" :: tx) ++ rest)) = te (scanF 0 rest).
  Proof.
    intros tx rest H Hs. rewrite (scanF_step 0 _ rest (dflt 25)); [|discriminate|apply best_comment; assumption].
    apply te_push_skip. reflexivity.
  Qed.

  Lemma comment_fc : forall tx rest c, forallb not_lf tx = true -> stops not_lf rest ->
    fc c (scanF 0 (("#" :: tx) ++ rest)) = fc (col_after c ("#" :: tx)) (scanF 0 rest).
  Proof.
    intros tx rest c H Hs. rewrite (scanF_step 0 _ rest (dflt 25)); [|discriminate|apply best_comment; assumption].
    apply fc_push_other. reflexivity.
  Qed.

  Lemma jcomment_te : forall d tx rest, tx <> [] -> forallb not_lf tx = true -> stops not_lf rest ->
    te (scanF (S d) (("#" :: tx) ++ rest)) = te (scanF (S d) rest).
  Proof.
    intros d tx rest Hne H Hs.
    rewrite (scanF_step (S d) _ rest (jsn 5)); [|discriminate|apply best_jcomment; assumption].
    apply te_push_skip. reflexivity.
  Qed.

  (* ---- line breaks of the default mode ---- *)
  Lemma nl_lf_te : forall n rest, stops is_space rest ->
    te (scanF 0 ((ch_lf :: repeat " " n) ++ rest)) = pre [RNL false n] (te (scanF 0 rest)).
  Proof.
    intros n rest Hs. rewrite (scanF_step 0 _ rest (dflt 27)); [|discriminate|apply best_nl_lf; exact Hs].
    change (cr_id (dflt 27)) with RNewline. rewrite te_push_nl.
    unfold nl_token. change (Ascii.eqb ch_lf ch_cr) with false. cbv iota. rewrite repeat_length. reflexivity.
  Qed.

  Lemma nl_crlf_te : forall n rest, stops is_space rest ->
    te (scanF 0 ((ch_cr :: ch_lf :: repeat " " n) ++ rest)) = pre [RNL true n] (te (scanF 0 rest)).
  Proof.
    intros n rest Hs. rewrite (scanF_step 0 _ rest (dflt 27)); [|discriminate|apply best_nl_crlf; exact Hs].
    change (cr_id (dflt 27)) with RNewline. rewrite te_push_nl.
    unfold nl_token. rewrite Ascii.eqb_refl. cbn [List.length]. rewrite repeat_length. replace (S n - 1) with n by lia. reflexivity.
  Qed.

  Lemma nl_lf_fc : forall n rest c, stops is_space rest ->
    fc c (scanF 0 ((ch_lf :: repeat " " n) ++ rest)) = fc n (scanF 0 rest).
  Proof.
    intros n rest c Hs. rewrite (scanF_step 0 _ rest (dflt 27)); [|discriminate|apply best_nl_lf; exact Hs].
    rewrite fc_push_other by reflexivity. cbn [col_after]. rewrite Ascii.eqb_refl, col_after_spaces. reflexivity.
  Qed.

  Lemma nl_crlf_fc : forall n rest c, stops is_space rest ->
    fc c (scanF 0 ((ch_cr :: ch_lf :: repeat " " n) ++ rest)) = fc n (scanF 0 rest).
  Proof.
    intros n rest c Hs. rewrite (scanF_step 0 _ rest (dflt 27)); [|discriminate|apply best_nl_crlf; exact Hs].
    rewrite fc_push_other by reflexivity. cbn [col_after]. rewrite Ascii.eqb_refl, col_after_spaces. reflexivity.
  Qed.

  (* ---- tokens ---- *)
  Lemma tok_te : forall d t rest, mode_ok d t = true -> tok_spelled intern sty t = true -> follow_ok t rest ->
    te (scanF d (spell sty t ++ rest)) = pre [RTok t] (te (scanF (depth_step d t) rest)).
  Proof.
    intros d t rest Hm Hsp Hf.
    destruct (best_tok intern sty d t rest Hm Hsp Hf) as [r [sh [Hb [Hid [Hconv [Hd Hne]]]]]].
    rewrite (scanF_step d _ rest r Hne Hb). rewrite Hid, te_push_tok, Hconv, Hd. reflexivity.
  Qed.

  Lemma tok_fc : forall d t rest c, mode_ok d t = true -> tok_spelled intern sty t = true -> follow_ok t rest ->
    fc c (scanF d (spell sty t ++ rest)) = c.
  Proof.
    intros d t rest c Hm Hsp Hf.
    destruct (best_tok intern sty d t rest Hm Hsp Hf) as [r [sh [Hb [Hid [Hconv [Hd Hne]]]]]].
    rewrite (scanF_step d _ rest r Hne Hb). rewrite Hid. apply fc_push_tok.
  Qed.
End Read.

(* ---- 3.4 Lines: the raw token stream, physical line by physical line ---- *)
Fixpoint phys_rest (d : nat) (pl : line) (ls : list line) (fnl : bool) : list rtok :=
  match ls with
  | [] => (if fnl then match d with O => [RNL (nl_cr pl) 0] | S _ => [] end else []) ++ [REOF]
  | l :: r =>
    match d with O => [RNL (nl_cr pl) (l_indent l)] | S _ => [] end
    ++ map RTok (l_lex l) ++ phys_rest (json_depth d (l_lex l)) l r fnl
  end.

Definition phys (ls : list line) (fnl : bool) : list rtok :=
  match ls with
  | [] => [REOF]
  | l :: r => map RTok (l_lex l) ++ phys_rest (json_depth 0 (l_lex l)) l r fnl
  end.

Definition end_depth (d : nat) (ls : list line) : nat :=
  fold_left (fun d l => json_depth d (l_lex l)) ls d.

Lemma json_depth_app' : forall a b d, json_depth d (a ++ b) = json_depth (json_depth d a) b.
Proof. induction a as [|t a IH]; intros b d; [reflexivity|]. cbn [app json_depth]. apply IH. Qed.

Lemma join_phys : forall fnl ls cur d pl,
  nl_cr cur = nl_cr pl -> json_depth 0 (l_lex cur) = d -> end_depth d ls = 0 ->
  exists h t, join (Some cur) d ls = h :: t /\ l_indent h = l_indent cur
              /\ map RTok (l_lex h) ++ raw_rest h t fnl = map RTok (l_lex cur) ++ phys_rest d pl ls fnl.
Proof.
  intros fnl. induction ls as [|l r IH]; intros cur d pl Hcr Hd Hend.
  - cbn in Hend. subst d. rewrite Hend. exists cur, []. split; [reflexivity|]. split; [reflexivity|].
    cbn [raw_rest phys_rest]. rewrite Hcr. reflexivity.
  - cbn [end_depth fold_left] in Hend. fold (end_depth (json_depth d (l_lex l)) r) in Hend.
    destruct d as [|d'].
    + destruct (IH l (json_depth 0 (l_lex l)) l eq_refl eq_refl Hend) as [h' [t' [Hj [Hi Ht]]]].
      exists cur, (h' :: t'). cbn [join]. rewrite Hj. split; [reflexivity|]. split; [reflexivity|].
      cbn [raw_rest phys_rest]. rewrite Hi, Hcr. cbn [app]. f_equal. f_equal. exact Ht.
    + set (cur' := {| l_indent := l_indent cur; l_lex := l_lex cur ++ l_lex l; l_comment := l_comment l;
                     l_trail := l_trail l; l_cr := l_cr l |}).
      assert (Hd' : json_depth 0 (l_lex cur') = json_depth (S d') (l_lex l)).
      { unfold cur'. cbn [l_lex]. rewrite json_depth_app', Hd. reflexivity. }
      destruct (IH cur' (json_depth (S d') (l_lex l)) l eq_refl Hd' Hend) as [h' [t' [Hj [Hi Ht]]]].
      exists h', t'. cbn [join]. fold cur'. split; [exact Hj|]. split; [exact Hi|].
      rewrite Ht. unfold cur'. cbn [l_lex phys_rest app]. rewrite map_app, <- app_assoc. reflexivity.
Qed.

Lemma raw_tokens_phys : forall t, end_depth 0 (t_lines t) = 0 -> raw_tokens t = phys (t_lines t) (t_final_nl t).
Proof.
  intros [ls fnl] H. unfold raw_tokens, logical_lines. cbn [t_lines t_final_nl] in *.
  destruct ls as [|l r]; [reflexivity|]. cbn [join phys].
  cbn [end_depth fold_left] in H. fold (end_depth (json_depth 0 (l_lex l)) r) in H.
  destruct (join_phys fnl r l (json_depth 0 (l_lex l)) l eq_refl eq_refl H) as [h [t [Hj [_ Ht]]]].
  rewrite Hj. exact Ht.
Qed.

Lemma first_column_join : forall ls cur d, l_lex cur <> [] ->
  first_column (join (Some cur) d ls) = l_indent cur.
Proof.
  induction ls as [|l r IH]; intros cur d Hne.
  - cbn. destruct (l_lex cur); [contradiction|reflexivity].
  - cbn [join]. destruct d as [|d'].
    + cbn [first_column]. destruct (l_lex cur); [contradiction|reflexivity].
    + rewrite IH; [reflexivity|]. cbn [l_lex]. destruct (l_lex cur); [contradiction|discriminate].
Qed.

Lemma first_column_logical : forall ls, first_column (join None 0 ls) = first_column ls.
Proof.
  induction ls as [|l r IH]; [reflexivity|]. cbn [join].
  destruct (l_lex l) as [|t lex] eqn:E.
  - cbn [json_depth first_column]. rewrite E. destruct r as [|l2 r2].
    + cbn. rewrite E. reflexivity.
    + cbn [join]. cbn [first_column]. rewrite E. exact IH.
  - rewrite first_column_join by (rewrite E; discriminate). cbn [first_column]. rewrite E. reflexivity.
Qed.

(* ---- 3.5 a printed text, line by line ---- *)
Section Lines.
  Variable intern : list ascii -> name.
  Variable sty : cstyle.
  Variable fnl : bool.

  (* what can follow the last lexeme of a line *)
  Definition sep_start (rest : list ascii) : Prop :=
    match rest with
    | [] => True
    | c :: _ => is_blank c = true \/ c = "#" \/ c = ch_cr \/ c = ch_lf
    end.

  Lemma sep_follow : forall t rest, sep_start rest -> follow_ok t rest.
  Proof.
    intros t [|c rest] H; [exact I|]. cbn [follow_ok sep_start] in *.
    destruct H as [H|[H|[H|H]]].
    - destruct (blank_cases c H) as [->| ->]; destruct t; reflexivity.
    - subst c. destruct t; reflexivity.
    - subst c. destruct t; reflexivity.
    - subst c. destruct t; reflexivity.
  Qed.

  Lemma blank_ws : forall l, forallb is_blank l = true -> forallb is_ws l = true.
  Proof.
    intros l. apply forallb_impl. intros c. apply implb_elim. revert c. apply ascii_forall. vm_compute. reflexivity.
  Qed.

  Lemma skip_blanks_te : forall d bl rest, forallb is_blank bl = true ->
    te intern (scanF d (bl ++ rest)) = te intern (scanF d rest).
  Proof.
    intros [|d] bl rest H; [apply blanks_te; exact H|apply ws_te; apply blank_ws; exact H].
  Qed.

  Lemma follow_next : forall r t d i j rest,
    lexemes_ok intern sty d i (S j) (Some t) r = true -> sep_start rest ->
    follow_ok t (render_lexemes sty i (S j) r ++ rest).
  Proof.
    intros [|t' r] t d i j rest H Hs; [apply sep_follow; exact Hs|].
    cbn [lexemes_ok] in H. apply andb_prop in H. destruct H as [H _]. apply andb_prop in H. destruct H as [_ Hg].
    unfold gap_ok in Hg. apply andb_prop in Hg. destruct Hg as [Hbl Hg].
    cbn [render_lexemes]. destruct (cs_gap sty i (S j)) as [|g gap].
    - cbn [app]. destruct (spell sty t') as [|c s]; [discriminate|]. cbn [app follow_ok].
      apply Bool.negb_true_iff. exact Hg.
    - apply sep_follow. cbn [app sep_start]. left. cbn [forallb] in Hbl. apply andb_prop in Hbl. exact (proj1 Hbl).
  Qed.

  (* the lexemes of a line from a lexeme on (the blanks before it already read) *)
  Lemma lexemes_te : forall r t d i j rest,
    mode_ok d t = true -> tok_spelled intern sty t = true ->
    lexemes_ok intern sty (depth_step d t) i (S j) (Some t) r = true -> sep_start rest ->
    te intern (scanF d (spell sty t ++ render_lexemes sty i (S j) r ++ rest))
    = pre (map RTok (t :: r)) (te intern (scanF (json_depth d (t :: r)) rest)).
  Proof.
    induction r as [|t' r IH]; intros t d i j rest Hm Hsp Hl Hs.
    - cbn [render_lexemes app]. rewrite (tok_te intern sty d t rest Hm Hsp (sep_follow t rest Hs)). reflexivity.
    - pose proof (follow_next (t' :: r) t (depth_step d t) i j rest Hl Hs) as Hf.
      rewrite (tok_te intern sty d t _ Hm Hsp Hf).
      cbn [lexemes_ok] in Hl. apply andb_prop in Hl. destruct Hl as [Hl Hr]. apply andb_prop in Hl. destruct Hl as [Hl Hg].
      apply andb_prop in Hl. destruct Hl as [Hm' Hsp'].
      unfold gap_ok in Hg. apply andb_prop in Hg. destruct Hg as [Hbl _].
      cbn [render_lexemes]. rewrite <- app_assoc. rewrite skip_blanks_te by exact Hbl.
      rewrite <- app_assoc. rewrite (IH t' (depth_step d t) i (S j) rest Hm' Hsp' Hr Hs).
      unfold pre. cbn [fst snd map app]. reflexivity.
  Qed.

  Definition tail_chars (i : nat) (l : line) (r : list line) : list ascii :=
    cs_trail sty i ++ render_comment sty i l ++
    match r with
    | [] => if fnl then eol l else []
    | _ :: _ => eol l ++ render_clines sty (S i) r fnl
    end.

  Lemma render_clines_cons : forall i l r,
    render_clines sty i (l :: r) fnl
    = repeat " " (l_indent l) ++ render_lexemes sty i 0 (l_lex l) ++ tail_chars i l r.
  Proof. intros. cbn [render_clines]. unfold render_cline, tail_chars. rewrite <- !app_assoc. reflexivity. Qed.

  Lemma eol_sep : forall l rest, sep_start (eol l ++ rest).
  Proof. intros l rest. unfold eol. destruct (l_cr l); cbn; auto. Qed.

  Lemma tail_sep : forall i l r, forallb is_blank (cs_trail sty i) = true -> sep_start (tail_chars i l r).
  Proof.
    intros i l r Hb. unfold tail_chars. destruct (cs_trail sty i) as [|c tr].
    - cbn [app]. unfold render_comment. destruct (l_comment l); [cbn; auto|]. cbn [app].
      destruct r; [destruct fnl; [rewrite <- (app_nil_r (eol l)); apply eol_sep|exact I]|apply eol_sep].
    - cbn [app sep_start]. left. cbn [forallb] in Hb. apply andb_prop in Hb. exact (proj1 Hb).
  Qed.

  (* the first character of a spelled token is not a blank *)
  Lemma spell_first : forall d t, mode_ok d t = true -> tok_spelled intern sty t = true ->
    match spell sty t with [] => False | c :: _ => is_ws c = false end.
  Proof.
    intros d t Hm Hsp.
    destruct (best_tok intern sty d t [] Hm Hsp I) as [r [sh [Hb [Hid [_ [_ Hne]]]]]].
    rewrite app_nil_r in Hb.
    destruct (spell sty t) as [|c s]; [contradiction|].
    destruct (is_ws c) eqn:E; [|reflexivity]. exfalso.
    (* a token rule does not begin with white space *)
    apply best_match_sound in Hb. destruct Hb as [Hin Hm'].
    apply first_sound in Hm'.
    assert (Hall : forallb (fun c => implb (is_ws c)
                     (forallb (fun r => negb (first_ok (cr_spec r) c) || negb (emits_token (cr_id r))) all_rules))
                     all_ascii = true) by (vm_compute; reflexivity).
    pose proof (implb_elim _ _ (ascii_forall _ Hall c) E) as Hr. rewrite forallb_forall in Hr.
    specialize (Hr r (rules_of_all d r Hin)). rewrite Hm', Hid in Hr. discriminate.
  Qed.

  Lemma ws_space : forall c, is_ws c = false -> is_space c = false.
  Proof.
    intros c H. destruct (is_space c) eqn:E; [|reflexivity]. unfold is_space in E. apply eqb_eq in E. subst. discriminate.
  Qed.

  (* the beginning of a line's content is not a space *)
  Lemma content_not_space : forall d i l r,
    cline_ok intern sty d i l = true ->
    stops is_space (render_lexemes sty i 0 (l_lex l) ++ tail_chars i l r).
  Proof.
    intros d i l r H. unfold cline_ok in H.
    apply andb_prop in H. destruct H as [H Hcom]. apply andb_prop in H. destruct H as [H Hsp].
    apply andb_prop in H. destruct H as [H Hlen]. apply andb_prop in H. destruct H as [Hlex Hbl].
    destruct (l_lex l) as [|t lex].
    - cbn [render_lexemes app]. unfold tail_chars. destruct (cs_trail sty i) as [|c tr].
      + cbn [app]. unfold render_comment. destruct (l_comment l); [reflexivity|]. cbn [app].
        destruct r; [destruct fnl; [|exact I]|]; unfold eol; destruct (l_cr l); reflexivity.
      + cbn [app stops]. apply Bool.negb_true_iff. exact Hsp.
    - cbn [lexemes_ok] in Hlex. apply andb_prop in Hlex. destruct Hlex as [Hlex _].
      apply andb_prop in Hlex. destruct Hlex as [Hlex _]. apply andb_prop in Hlex. destruct Hlex as [Hm Hs].
      pose proof (spell_first d t Hm Hs) as Hf. cbn [render_lexemes app].
      destruct (spell sty t) as [|c s]; [contradiction|]. cbn [app stops]. apply ws_space. exact Hf.
  Qed.
End Lines.

Section Main.
  Variable intern : list ascii -> name.
  Variable sty : cstyle.
  Variable fnl : bool.

  Notation te := (te intern).
  Notation tail_chars := (tail_chars sty fnl).

  Lemma pre_nil : forall x, pre [] x = x.
  Proof. intros [a b]. reflexivity. Qed.

  Lemma spaces_blank : forall n, forallb is_blank (repeat " " n) = true.
  Proof. induction n; [reflexivity|]. cbn [repeat forallb]. rewrite IHn. reflexivity. Qed.

  Lemma cline_lexemes : forall d i l, cline_ok intern sty d i l = true ->
    lexemes_ok intern sty d i 0 None (l_lex l) = true /\ forallb is_blank (cs_trail sty i) = true.
  Proof.
    intros d i l H. unfold cline_ok in H.
    apply andb_prop in H. destruct H as [H _]. apply andb_prop in H. destruct H as [H _].
    apply andb_prop in H. destruct H as [H _]. apply andb_prop in H. exact H.
  Qed.

  Lemma cline_comment : forall d i l, cline_ok intern sty d i l = true ->
    match l_comment l with
    | Some n => forallb not_lf (cs_comment sty i) = true
                /\ match json_depth d (l_lex l) with
                   | O => True
                   | S _ => cs_comment sty i <> [] \/ l_cr l = true
                   end
    | None => True
    end.
  Proof.
    intros d i l H. unfold cline_ok in H. apply andb_prop in H. destruct H as [_ H].
    destruct (l_comment l) as [n|]; [|exact I].
    apply andb_prop in H. destruct H as [H Hj]. apply andb_prop in H. destruct H as [Hn Hlen].
    split; [exact Hn|]. destruct (json_depth d (l_lex l)); [exact I|].
    apply Bool.orb_true_iff in Hj. destruct Hj as [Hj|Hj]; [left|right; exact Hj].
    apply Nat.eqb_eq in Hlen. apply Bool.negb_true_iff in Hj. apply Nat.eqb_neq in Hj.
    intros E. rewrite E in Hlen. cbn in Hlen. lia.
  Qed.

  (* all lexemes of a line *)
  Lemma line_te : forall l d i rest, cline_ok intern sty d i l = true -> sep_start rest ->
    te (scanF d (render_lexemes sty i 0 (l_lex l) ++ rest))
    = pre (map RTok (l_lex l)) (te (scanF (json_depth d (l_lex l)) rest)).
  Proof.
    intros l d i rest H Hs. apply cline_lexemes in H. destruct H as [H _].
    destruct (l_lex l) as [|t r]; [cbn [render_lexemes app map json_depth]; symmetry; apply pre_nil|].
    cbn [lexemes_ok] in H. apply andb_prop in H. destruct H as [H Hr]. apply andb_prop in H. destruct H as [H _].
    apply andb_prop in H. destruct H as [Hm Hsp].
    cbn [render_lexemes]. cbn [app]. rewrite <- app_assoc.
    apply (lexemes_te intern sty r t d i 0 rest Hm Hsp Hr Hs).
  Qed.

  Lemma not_lf_cr : forall tx, forallb not_lf tx = true -> forallb not_lf (tx ++ [ch_cr]) = true.
  Proof. intros tx H. rewrite forallb_app, H. reflexivity. Qed.

  (* the end of a line in the default mode: comment, line break, indentation of the next line *)
  Lemma line_end_default : forall i l n W,
    match l_comment l with Some _ => forallb not_lf (cs_comment sty i) = true | None => True end ->
    stops is_space W ->
    te (scanF 0 (render_comment sty i l ++ eol l ++ repeat " " n ++ W)) = pre [RNL (nl_cr l) n] (te (scanF 0 W)).
  Proof.
    intros i l n W Hc Hs. unfold render_comment, eol, nl_cr.
    destruct (l_comment l) as [k|]; destruct (l_cr l).
    - change (("#" :: cs_comment sty i) ++ [ch_cr; ch_lf] ++ repeat " " n ++ W)
        with (("#" :: cs_comment sty i) ++ [ch_cr] ++ (ch_lf :: repeat " " n ++ W)).
      rewrite app_assoc. change (("#" :: cs_comment sty i) ++ [ch_cr]) with ("#" :: (cs_comment sty i ++ [ch_cr])).
      rewrite comment_te; [|apply not_lf_cr; exact Hc|reflexivity].
      change (ch_lf :: repeat " " n ++ W) with ((ch_lf :: repeat " " n) ++ W). apply nl_lf_te. exact Hs.
    - rewrite comment_te; [|exact Hc|reflexivity].
      change ([ch_lf] ++ repeat " " n ++ W) with ((ch_lf :: repeat " " n) ++ W). apply nl_lf_te. exact Hs.
    - change ([] ++ [ch_cr; ch_lf] ++ repeat " " n ++ W) with ((ch_cr :: ch_lf :: repeat " " n) ++ W).
      apply nl_crlf_te. exact Hs.
    - change ([] ++ [ch_lf] ++ repeat " " n ++ W) with ((ch_lf :: repeat " " n) ++ W). apply nl_lf_te. exact Hs.
  Qed.

  Lemma line_end_default_fc : forall i l n W c,
    match l_comment l with Some _ => forallb not_lf (cs_comment sty i) = true | None => True end ->
    stops is_space W ->
    fc c (scanF 0 (render_comment sty i l ++ eol l ++ repeat " " n ++ W)) = fc n (scanF 0 W).
  Proof.
    intros i l n W c Hc Hs. unfold render_comment, eol.
    destruct (l_comment l) as [k|]; destruct (l_cr l).
    - change (("#" :: cs_comment sty i) ++ [ch_cr; ch_lf] ++ repeat " " n ++ W)
        with (("#" :: cs_comment sty i) ++ [ch_cr] ++ (ch_lf :: repeat " " n ++ W)).
      rewrite app_assoc. change (("#" :: cs_comment sty i) ++ [ch_cr]) with ("#" :: (cs_comment sty i ++ [ch_cr])).
      rewrite comment_fc; [|apply not_lf_cr; exact Hc|reflexivity].
      change (ch_lf :: repeat " " n ++ W) with ((ch_lf :: repeat " " n) ++ W). apply nl_lf_fc. exact Hs.
    - rewrite comment_fc; [|exact Hc|reflexivity].
      change ([ch_lf] ++ repeat " " n ++ W) with ((ch_lf :: repeat " " n) ++ W). apply nl_lf_fc. exact Hs.
    - change ([] ++ [ch_cr; ch_lf] ++ repeat " " n ++ W) with ((ch_cr :: ch_lf :: repeat " " n) ++ W).
      apply nl_crlf_fc. exact Hs.
    - change ([] ++ [ch_lf] ++ repeat " " n ++ W) with ((ch_lf :: repeat " " n) ++ W). apply nl_lf_fc. exact Hs.
  Qed.

  Lemma line_end_eof : forall i l,
    match l_comment l with Some _ => forallb not_lf (cs_comment sty i) = true | None => True end ->
    te (scanF 0 (render_comment sty i l)) = ([REOF], None).
  Proof.
    intros i l Hc. unfold render_comment. destruct (l_comment l); [|reflexivity].
    rewrite <- (app_nil_r ("#" :: cs_comment sty i)). rewrite comment_te; [reflexivity|exact Hc|exact I].
  Qed.

  Lemma spaces_ws : forall n, forallb is_ws (repeat " " n) = true.
  Proof. intros. apply blank_ws. apply spaces_blank. Qed.

  (* the end of a line inside a struct literal: everything up to the next lexeme is skipped *)
  Lemma line_end_json : forall d i l n W,
    match l_comment l with
    | Some _ => forallb not_lf (cs_comment sty i) = true /\ (cs_comment sty i <> [] \/ l_cr l = true)
    | None => True
    end ->
    te (scanF (S d) (render_comment sty i l ++ eol l ++ repeat " " n ++ W)) = te (scanF (S d) W).
  Proof.
    intros d i l n W Hc. unfold render_comment, eol.
    destruct (l_comment l) as [k|].
    - destruct Hc as [Hn Hne]. destruct (l_cr l).
      + change (("#" :: cs_comment sty i) ++ [ch_cr; ch_lf] ++ repeat " " n ++ W)
          with (("#" :: cs_comment sty i) ++ [ch_cr] ++ (ch_lf :: repeat " " n ++ W)).
        rewrite app_assoc. change (("#" :: cs_comment sty i) ++ [ch_cr]) with ("#" :: (cs_comment sty i ++ [ch_cr])).
        rewrite jcomment_te; [|destruct (cs_comment sty i); discriminate|apply not_lf_cr; exact Hn|reflexivity].
        change (ch_lf :: repeat " " n ++ W) with ([ch_lf] ++ repeat " " n ++ W).
        rewrite ws_te by reflexivity. apply ws_te. apply spaces_ws.
      + destruct Hne as [Hne|Hne]; [|discriminate].
        rewrite jcomment_te; [|exact Hne|exact Hn|reflexivity].
        rewrite ws_te by reflexivity. apply ws_te. apply spaces_ws.
    - cbn [app]. destruct (l_cr l).
      + change (ch_cr :: ch_lf :: repeat " " n ++ W) with ([ch_cr; ch_lf] ++ repeat " " n ++ W).
        rewrite ws_te by reflexivity. apply ws_te. apply spaces_ws.
      + change (ch_lf :: repeat " " n ++ W) with ([ch_lf] ++ repeat " " n ++ W).
        rewrite ws_te by reflexivity. apply ws_te. apply spaces_ws.
  Qed.

  (* from the end of the lexemes of line l (index i) to the end of the text *)
  Lemma tail_te : forall ls l i d0,
    cline_ok intern sty d0 i l = true ->
    clines_ok intern sty (json_depth d0 (l_lex l)) (S i) ls = true ->
    te (scanF (json_depth d0 (l_lex l)) (tail_chars i l ls))
    = (phys_rest (json_depth d0 (l_lex l)) l ls fnl, None).
  Proof.
    induction ls as [|l' ls' IH]; intros l i d0 Hl Hls.
    - (* last line *)
      cbn [clines_ok] in Hls. apply Nat.eqb_eq in Hls. rewrite Hls in *.
      pose proof (cline_lexemes _ _ _ Hl) as [_ Hbl]. pose proof (cline_comment _ _ _ Hl) as Hc.
      unfold CharLexerProofs.tail_chars. rewrite blanks_te by exact Hbl.
      assert (Hc' : match l_comment l with Some _ => forallb not_lf (cs_comment sty i) = true | None => True end)
        by (destruct (l_comment l); [exact (proj1 Hc)|exact I]).
      destruct fnl.
      + replace (render_comment sty i l ++ eol l) with (render_comment sty i l ++ eol l ++ repeat " " 0 ++ [])
          by (cbn [repeat app]; rewrite app_nil_r; reflexivity).
        rewrite line_end_default; [reflexivity|exact Hc'|exact I].
      + rewrite app_nil_r. rewrite line_end_eof by exact Hc'. reflexivity.
    - cbn [clines_ok] in Hls. apply andb_prop in Hls. destruct Hls as [Hl' Hls'].
      pose proof (cline_lexemes _ _ _ Hl) as [_ Hbl]. pose proof (cline_comment _ _ _ Hl) as Hc.
      pose proof (cline_lexemes _ _ _ Hl') as [_ Hbl'].
      specialize (IH l' (S i) (json_depth d0 (l_lex l)) Hl' Hls').
      unfold CharLexerProofs.tail_chars at 1. rewrite render_clines_cons.
      fold (tail_chars (S i) l' ls').
      rewrite (skip_blanks_te intern) by exact Hbl.
      destruct (json_depth d0 (l_lex l)) as [|d] eqn:Ed.
      + rewrite line_end_default;
          [|destruct (l_comment l); [exact (proj1 Hc)|exact I]
           |apply (content_not_space intern sty fnl 0); exact Hl'].
        rewrite line_te; [|exact Hl'|apply tail_sep; exact Hbl'].
        rewrite IH. reflexivity.
      + rewrite line_end_json; [|destruct (l_comment l); [exact Hc|exact I]].
        rewrite line_te; [|exact Hl'|apply tail_sep; exact Hbl'].
        rewrite IH. reflexivity.
  Qed.

  Lemma text_te : forall ls, clines_ok intern sty 0 0 ls = true ->
    te (scan_all (render_clines sty 0 ls fnl)) = (phys ls fnl, None).
  Proof.
    intros [|l r] H; [reflexivity|].
    cbn [clines_ok] in H. apply andb_prop in H. destruct H as [Hl Hr].
    pose proof (cline_lexemes _ _ _ Hl) as [_ Hbl].
    rewrite scan_all_eq, render_clines_cons. rewrite blanks_te by apply spaces_blank.
    rewrite line_te; [|exact Hl|apply tail_sep; exact Hbl].
    rewrite (tail_te r l 0 0 Hl Hr). reflexivity.
  Qed.

  (* ---- the column of the first lexeme ---- *)
  Definition lex_line (l : line) : bool := match l_lex l with [] => false | _ => true end.

  Lemma first_tok_fc : forall l d i rest c t r,
    cline_ok intern sty d i l = true -> l_lex l = t :: r -> sep_start rest ->
    fc c (scanF d (render_lexemes sty i 0 (l_lex l) ++ rest)) = c.
  Proof.
    intros l d i rest c t r H E Hs. apply cline_lexemes in H. destruct H as [H _]. rewrite E in *.
    cbn [lexemes_ok] in H. apply andb_prop in H. destruct H as [H Hr]. apply andb_prop in H. destruct H as [H _].
    apply andb_prop in H. destruct H as [Hm Hsp].
    cbn [render_lexemes]. cbn [app]. rewrite <- app_assoc.
    apply (tok_fc intern sty d t _ c Hm Hsp). eapply follow_next; eassumption.
  Qed.

  Lemma tail_fc : forall ls l i c,
    l_lex l = [] -> cline_ok intern sty 0 i l = true -> clines_ok intern sty 0 (S i) ls = true ->
    existsb lex_line ls = true ->
    fc c (scanF 0 (tail_chars i l ls)) = first_column ls.
  Proof.
    induction ls as [|l' ls' IH]; intros l i c El Hl Hls Hex; [discriminate|].
    cbn [clines_ok] in Hls. apply andb_prop in Hls. destruct Hls as [Hl' Hls'].
    pose proof (cline_lexemes _ _ _ Hl) as [_ Hbl]. pose proof (cline_comment _ _ _ Hl) as Hc.
    pose proof (cline_lexemes _ _ _ Hl') as [_ Hbl'].
    unfold CharLexerProofs.tail_chars at 1. rewrite render_clines_cons. fold (tail_chars (S i) l' ls').
    rewrite blanks_fc by exact Hbl.
    rewrite line_end_default_fc;
      [|destruct (l_comment l); [exact (proj1 Hc)|exact I]|apply (content_not_space intern sty fnl 0); exact Hl'].
    cbn [first_column]. destruct (l_lex l') as [|t r] eqn:E'.
    - cbn [render_lexemes app]. apply IH; [exact E'|exact Hl'| |].
      + exact Hls'.
      + cbn [existsb] in Hex. unfold lex_line at 1 in Hex. rewrite E' in Hex. exact Hex.
    - rewrite <- E'. apply (first_tok_fc l' 0 (S i) _ _ t r Hl' E'). apply tail_sep. exact Hbl'.
  Qed.

  Lemma text_fc : forall ls, clines_ok intern sty 0 0 ls = true -> existsb lex_line ls = true ->
    fc 0 (scan_all (render_clines sty 0 ls fnl)) = first_column ls.
  Proof.
    intros [|l r] H Hex; [discriminate|].
    cbn [clines_ok] in H. apply andb_prop in H. destruct H as [Hl Hr].
    pose proof (cline_lexemes _ _ _ Hl) as [_ Hbl].
    rewrite scan_all_eq, render_clines_cons. rewrite blanks_fc by apply spaces_blank.
    rewrite col_after_spaces. cbn [plus first_column].
    destruct (l_lex l) as [|t lex] eqn:E.
    - cbn [render_lexemes app]. apply tail_fc; [exact E|exact Hl| |].
      + exact Hr.
      + cbn [existsb] in Hex. unfold lex_line at 1 in Hex. rewrite E in Hex. exact Hex.
    - rewrite <- E. apply (first_tok_fc l 0 0 _ _ t lex Hl E). apply tail_sep. exact Hbl.
  Qed.
End Main.

Lemma clines_end : forall intern sty ls d i, clines_ok intern sty d i ls = true -> end_depth d ls = 0.
Proof.
  intros intern sty. induction ls as [|l r IH]; intros d i H.
  - cbn in *. apply Nat.eqb_eq in H. exact H.
  - cbn [clines_ok] in H. apply andb_prop in H. destruct H as [_ H]. cbn [end_depth fold_left]. exact (IH _ _ H).
Qed.

(* (a) Lexing the characters of a printed text gives exactly the raw token stream of its
   lines, and DenterHelper's first-token column. *)
Theorem lex_render : lex_render_statement.
Proof.
  intros intern sty [ls fnl] Hok. unfold text_ok in Hok. cbn [t_lines] in Hok.
  pose proof (text_te intern sty fnl ls Hok) as Hte.
  unfold render_chars, lex. cbn [t_lines t_final_nl].
  destruct (scan_all (render_clines sty 0 ls fnl)) as [lxs e] eqn:Es.
  unfold te in Hte. cbn [fst snd] in Hte. inversion Hte as [[Hemit He]]. subst e.
  exists (first_col 0 lxs). split.
  - f_equal. rewrite raw_tokens_phys; [exact Hemit|]. cbn [t_lines]. eapply clines_end. exact Hok.
  - intros Hlex. unfold logical_lines. cbn [t_lines]. rewrite first_column_logical.
    pose proof (text_fc intern sty fnl ls Hok Hlex) as Hfc. rewrite Es in Hfc. exact Hfc.
Qed.

(* ------------------------------------------------------------------------------------ *)
(* 4. The round trip from characters                                                    *)
(* ------------------------------------------------------------------------------------ *)
From PFDL.Front Require Import DenterProofs RoundTrip LayoutProofs.

(* on a printed text with at least one lexeme the front end on characters is the front end
   on lines *)
Lemma front_end_chars_render : forall intern sty t,
  text_ok intern sty t = true -> has_lexeme t = true ->
  front_end_chars intern (render_chars sty t) = front_end t.
Proof.
  intros intern sty t Hok Hlex. destruct (lex_render intern sty t Hok) as [col [Hl Hc]].
  unfold front_end_chars. rewrite Hl, (Hc Hlex). reflexivity.
Qed.

Lemma has_lexeme_render : forall L p, nonempty_program p = true -> has_lexeme (render L p) = true.
Proof.
  intros L [ss ts] H. unfold has_lexeme, render, render_lines, forest_of. cbn [t_lines p_structs p_tasks].
  rewrite existsb_app. apply Bool.orb_true_iff. left.
  destruct ss as [|s ss].
  - destruct ts as [|t ts]; [discriminate|]. cbn [flat_map app forest_task flatten flatten_tree].
    unfold render_line at 1. cbn [fst snd]. rewrite !existsb_app. cbn [existsb l_lex].
    rewrite !Bool.orb_true_r. reflexivity.
  - cbn [flat_map app forest_struct flatten flatten_tree].
    unfold render_line at 1. cbn [fst snd]. rewrite !existsb_app. cbn [existsb l_lex].
    rewrite !Bool.orb_true_r. reflexivity.
Qed.

(* C12 from characters: printing a program of the guard in a layout of the family, then
   spelling the lines as characters in any style that satisfies the executable side
   conditions, and running the front end on the characters gives the program back *)
Theorem roundtrip_chars : C12_roundtrip_chars_statement.
Proof.
  intros intern sty L p Hwf Hnames Hne Hok.
  rewrite front_end_chars_render; [|exact Hok|apply has_lexeme_render; exact Hne].
  apply roundtrip_render; assumption.
Qed.

(* (c) layout at character level: two printed texts with the same structure (canon) give
   the same result, whatever their indentation widths, blank and comment lines, comment
   texts, trailing blanks, CR LF / LF, final newline, blanks between lexemes *)
Theorem chars_layout_insensitive : forall intern s1 s2 t1 t2,
  text_ok intern s1 t1 = true -> text_ok intern s2 t2 = true ->
  has_lexeme t1 = true -> has_lexeme t2 = true ->
  layout_ok t1 = true -> layout_ok t2 = true -> canon t1 = canon t2 ->
  front_end_chars intern (render_chars s1 t1) = front_end_chars intern (render_chars s2 t2).
Proof.
  intros intern s1 s2 t1 t2 H1 H2 L1 L2 O1 O2 Hc.
  rewrite !front_end_chars_render by assumption.
  unfold front_end. rewrite (denter_layout_independent t1 t2 O1 O2 Hc). reflexivity.
Qed.

(* ---- a style for examples ---- *)
Fixpoint dec_aux (fuel n : nat) (acc : list ascii) : list ascii :=
  match fuel with
  | O => acc
  | S f => let d := ascii_of_nat (48 + Nat.modulo n 10) in
           if Nat.eqb (Nat.div n 10) 0 then d :: acc else dec_aux f (Nat.div n 10) (d :: acc)
  end.
Definition dec (n : nat) : list ascii := dec_aux (S n) n [].

Local Open Scope string_scope.
(* names 1, 4, 6, 8 are written S<n> (struct and service names), the others v<n>; trailing
   blanks are tabs, comments consist of 'c', lexemes are separated by one blank or by a tab
   and a blank *)
Definition demo_style (t : text) : cstyle :=
  {| cs_name := fun n => (if existsb (Nat.eqb n) [1; 4; 6; 8] then "S"%char else "v"%char) :: dec n;
     cs_int := dec;
     cs_float := fun q => if Q_eqb q (5 # 2) then chars "2.50" else chars "0.0";
     cs_number := fun q => if Q_eqb q (-3 # 2) then chars "-1.5" else if Q_eqb q (3 # 1000) then chars "0.3E-2" else chars "0";
     cs_gap := fun i j => if Nat.even (i + j) then [" "%char] else [ch_tab; " "%char];
     cs_trail := fun i => match nth_error (t_lines t) i with Some l => repeat ch_tab (l_trail l) | None => [] end;
     cs_comment := fun i => match nth_error (t_lines t) i with
                            | Some l => match l_comment l with Some n => repeat "c"%char n | None => [] end
                            | None => []
                            end |}.
Local Close Scope string_scope.

Definition demo_intern (s : list ascii) : name := nat_of_digits (tl s).

Definition example_text : text := render example_layout example_program.

(* the side conditions hold for the example program of Front/RoundTrip.v in the example
   layout of Front/LayoutProofs.v (comments, CR LF, filler lines, no final newline) *)
Example example_text_ok : text_ok demo_intern (demo_style example_text) example_text = true.
Proof. vm_compute. reflexivity. Qed.

Example example_roundtrip_chars :
  front_end_chars demo_intern (render_chars (demo_style example_text) example_text) = FOk example_program.
Proof.
  apply roundtrip_chars; [exact example_layout_wf|exact example_names_ok|reflexivity|exact example_text_ok].
Qed.

(* a text that is not a program: FLOAT, a struct literal broken over three lines with a comment
   inside, exponent notation *)
Definition example_text2 : text :=
  {| t_lines :=
       [ {| l_indent := 2; l_lex := [TLower 9; OpLe; TFloat (5 # 2); OpAnd; OpNot; TLower 10];
            l_comment := Some 2; l_trail := 1; l_cr := true |};
         {| l_indent := 0; l_lex := [TUpper 1; PJsonOpen; JString 2; JColon]; l_comment := None; l_trail := 0; l_cr := false |};
         {| l_indent := 7; l_lex := [JNumber (3 # 1000); JComma]; l_comment := Some 0; l_trail := 2; l_cr := true |};
         {| l_indent := 1; l_lex := [JString 3; JColon; JArrL; JTrue; JArrR; JClose; TLower 11];
            l_comment := None; l_trail := 0; l_cr := false |} ];
     t_final_nl := true |}.

Example example_text2_ok : text_ok demo_intern (demo_style example_text2) example_text2 = true.
Proof. vm_compute. reflexivity. Qed.

Example example_text2_lex :
  exists col, lex demo_intern (render_chars (demo_style example_text2) example_text2)
              = LexOk (raw_tokens example_text2) col.
Proof. destruct (lex_render _ _ _ example_text2_ok) as [col [H _]]. exists col. exact H. Qed.

(* ---- the guard [nonempty_program] cannot be dropped ---- *)
Definition empty_program : program := {| p_structs := []; p_tasks := [] |}.

Definition trailing_blanks_layout : layout :=
  {| lay_step := fun _ => 3; lay_cr := false; lay_trail := 0; lay_comment := None; lay_before := [];
     lay_after := [ {| l_indent := 3; l_lex := []; l_comment := None; l_trail := 0; l_cr := false |} ];
     lay_final_nl := false |}.

(* the text "   " (three blanks, no line break): the front end on lines says 'empty
   program' (Lines.first_column takes the column of EOF to be 0), the front end on
   characters - like the implementation - sees EOF in column 3, hence INDENT NL DEDENT EOF,
   a syntax error *)
Theorem roundtrip_chars_full_refuted : ~ C12_roundtrip_chars_full.
Proof.
  intros H.
  specialize (H demo_intern (demo_style (render trailing_blanks_layout empty_program))
                trailing_blanks_layout empty_program eq_refl eq_refl eq_refl).
  vm_compute in H. discriminate H.
Qed.
