(* Front/CharRender.v — printing a text of the line representation (Front/Lines.v) as
   characters, and the executable side conditions under which the character-level lexer
   reads the printed text back (model support file: definitions only).

   The line representation fixes: indentation (blanks), the lexemes of every physical line,
   presence and length of a comment, number of trailing blanks, CR LF or LF, final newline.
   A [cstyle] supplies what it leaves open: the spelling of names and numbers, the blanks
   between two lexemes, which blanks (space / tab) the trailing blanks are, the text of the
   comments.  harness/front_lines.py::assemble is the same printer on the harness side. *)
From PFDL.Front Require Export CharLexer Render.
From Coq Require Import Ascii String.
Import ListNotations.
Local Open Scope char_scope.

Record cstyle := {
  cs_name : name -> list ascii;       (* identifiers, string contents *)
  cs_int : nat -> list ascii;         (* INTEGER *)
  cs_float : Q -> list ascii;         (* FLOAT *)
  cs_number : Q -> list ascii;        (* JSON NUMBER *)
  cs_gap : nat -> nat -> list ascii;  (* physical line i: the blanks before its j-th lexeme, j >= 1 *)
  cs_trail : nat -> list ascii;       (* physical line i: the blanks after its last lexeme *)
  cs_comment : nat -> list ascii      (* physical line i: the text after '#' *)
}.

Local Open Scope string_scope.

(* the tokens whose text is fixed by the grammar *)
Definition fixed_spelling (t : tok) : string :=
  match t with
  | KStruct => "Struct" | KTask => "Task" | KIn => "In" | KOut => "Out" | KLoop => "Loop"
  | KWhile => "While" | KTo => "To" | KParallel => "Parallel" | KCondition => "Condition"
  | KPassed => "Passed" | KFailed => "Failed" | KOnDone => "OnDone" | KEnd => "End"
  | KNumberP => "number" | KStringP => "string" | KBooleanP => "boolean" | KTrue => "true"
  | KFalse => "false"
  | PColon => ":" | PDot => "." | PComma => "," | PJsonOpen => "{" | PQuote => """"
  | PArrL => "[" | PArrR => "]" | PLParen => "(" | PRParen => ")"
  | OpLt => "<" | OpLe => "<=" | OpGt => ">" | OpGe => ">=" | OpEq => "==" | OpNe => "!="
  | OpAnd => "And" | OpOr => "Or" | OpNot => "!" | OpStar => "*" | OpSlash => "/"
  | OpMinus => "-" | OpPlus => "+"
  | JTrue => "true" | JFalse => "false" | JColon => ":" | JQuote => """" | JArrL => "["
  | JArrR => "]" | JComma => "," | JOpen2 => "{" | JClose => "}"
  | TInt _ | TFloat _ | TStr _ | TLower _ | TUpper _ | JString _ | JNumber _ => ""
  end.

Local Close Scope string_scope.

Section Style.
  Variable sty : cstyle.

  Definition spell (t : tok) : list ascii :=
    match t with
    | TInt n => cs_int sty n
    | TFloat q => cs_float sty q
    | TStr n => ch_quote :: cs_name sty n ++ [ch_quote]
    | TLower n => cs_name sty n
    | TUpper n => cs_name sty n
    | JString n => ch_quote :: cs_name sty n ++ [ch_quote]
    | JNumber q => cs_number sty q
    | _ => chars (fixed_spelling t)
    end.

  (* the lexemes of physical line i, from its j-th on *)
  Fixpoint render_lexemes (i j : nat) (lex : list tok) : list ascii :=
    match lex with
    | [] => []
    | t :: r => (match j with O => [] | _ => cs_gap sty i j end) ++ spell t ++ render_lexemes i (S j) r
    end.

  Definition render_comment (i : nat) (l : line) : list ascii :=
    match l_comment l with Some _ => "#" :: cs_comment sty i | None => [] end.

  Definition render_cline (i : nat) (l : line) : list ascii :=
    repeat " " (l_indent l) ++ render_lexemes i 0 (l_lex l) ++ cs_trail sty i ++ render_comment i l.

  Definition eol (l : line) : list ascii := if l_cr l then [ch_cr; ch_lf] else [ch_lf].

  Fixpoint render_clines (i : nat) (ls : list line) (final_nl : bool) : list ascii :=
    match ls with
    | [] => []
    | l :: r =>
      render_cline i l ++
      match r with
      | [] => if final_nl then eol l else []
      | _ :: _ => eol l ++ render_clines (S i) r final_nl
      end
    end.

  Definition render_chars (t : text) : list ascii :=
    render_clines 0 (t_lines t) (t_final_nl t).
End Style.

(* ------------------------------------------------------------------------------------ *)
(* Side conditions (all executable)                                                     *)
(* ------------------------------------------------------------------------------------ *)
Fixpoint chars_eqb (a b : list ascii) : bool :=
  match a, b with
  | [], [] => true
  | x :: a', y :: b' => andb (Ascii.eqb x y) (chars_eqb a' b')
  | _, _ => false
  end.

(* the literal rules of the default mode that consist of identifier characters: the
   keywords and the operators 'And', 'Or' *)
Definition is_word_lit (r : crule) : bool :=
  match cr_spec r with
  | SLit s => forallb is_idrest (chars s)
  | _ => false
  end.

Definition word_literals : list (list ascii) :=
  flat_map (fun r => match cr_spec r with
                     | SLit s => if forallb is_idrest (chars s) then [chars s] else []
                     | _ => []
                     end) default_rules.

Definition is_keyword (s : list ascii) : bool := existsb (chars_eqb s) word_literals.

Definition Q_eqb (a b : Q) : bool := andb (Z.eqb (Qnum a) (Qnum b)) (Pos.eqb (Qden a) (Qden b)).

Definition full_match (o : option nat) (s : list ascii) : bool :=
  match o with Some n => Nat.eqb n (List.length s) | None => false end.

(* characters of a string literal that need no escape *)
Definition plain_str_char (c : ascii) : bool :=
  andb (negb (Ascii.eqb c ch_quote)) (negb (Ascii.eqb c ch_bslash)).

Section Conditions.
  Variable intern : list ascii -> name.
  Variable sty : cstyle.

  (* the spelling of a token is a text of its rule and denotes its value *)
  Definition tok_spelled (t : tok) : bool :=
    match t with
    | PQuote | JQuote => false      (* a lone quote: no sentence of the grammar contains one *)
    | TInt n =>
      let s := cs_int sty n in
      match s with [] => false | _ => forallb is_digit s && Nat.eqb (nat_of_digits s) n end
    | TFloat q =>
      let s := cs_float sty q in full_match (m_float s) s && Q_eqb (q_of_float s) q
    | TStr n | JString n =>
      let s := cs_name sty n in forallb plain_str_char s && Nat.eqb (intern s) n
    | TLower n =>
      match cs_name sty n with
      | c :: r => is_lower c && forallb is_idrest r && negb (is_keyword (c :: r)) && Nat.eqb (intern (c :: r)) n
      | [] => false
      end
    | TUpper n =>
      match cs_name sty n with
      | c :: r => is_upper c && forallb is_idrest r && negb (is_keyword (c :: r)) && Nat.eqb (intern (c :: r)) n
      | [] => false
      end
    | JNumber q =>
      let s := cs_number sty q in full_match (m_number s) s && Q_eqb (q_of_number s) q
    | _ => true
    end.

  (* a character that must not directly follow the token: it would be absorbed into the
     match, or change the rule that matches *)
  Definition follow_bad (t : tok) (c : ascii) : bool :=
    match t with
    | KStruct | KTask | KIn | KOut | KLoop | KWhile | KTo | KParallel | KCondition | KPassed
    | KFailed | KOnDone | KEnd | KNumberP | KStringP | KBooleanP | KTrue | KFalse | OpAnd | OpOr
    | TLower _ | TUpper _ => is_idrest c
    | TInt _ => is_digit c || Ascii.eqb c "."
    | TFloat _ => is_digit c
    | OpLt | OpGt | OpNot => Ascii.eqb c "="
    | JNumber _ => is_digit c || Ascii.eqb c "." || in_class cl_exp c
    | _ => false
    end.

  (* the token belongs to the mode the lexer is in at depth d *)
  Definition mode_ok (d : nat) (t : tok) : bool :=
    match d with
    | O => String.eqb (fst (tok_rule t)) "DEFAULT_MODE"
    | S _ => String.eqb (fst (tok_rule t)) "JSON"
    end.

  Definition depth_step (d : nat) (t : tok) : nat :=
    if opens_json t then S d else if closes_json t then pred d else d.

  (* the blanks before lexeme t (prev = the lexeme before it on the same line): blanks only,
     and at least one where the two would run together *)
  Definition gap_ok (prev : tok) (g : list ascii) (t : tok) : bool :=
    forallb is_blank g &&
    match g with
    | _ :: _ => true
    | [] => match spell sty t with c :: _ => negb (follow_bad prev c) | [] => false end
    end.

  (* the lexemes of physical line i from the j-th on, at JSON depth d *)
  Fixpoint lexemes_ok (d i j : nat) (prev : option tok) (lex : list tok) : bool :=
    match lex with
    | [] => true
    | t :: r =>
      mode_ok d t && tok_spelled t
      && match prev with Some p => gap_ok p (cs_gap sty i j) t | None => true end
      && lexemes_ok (depth_step d t) i (S j) (Some t) r
    end.

  (* physical line i, begun at JSON depth d *)
  Definition cline_ok (d i : nat) (l : line) : bool :=
    let d' := json_depth d (l_lex l) in
    lexemes_ok d i 0 None (l_lex l)
    && forallb is_blank (cs_trail sty i) && Nat.eqb (List.length (cs_trail sty i)) (l_trail l)
    (* on a line without lexemes the trailing blanks must not prolong the indentation *)
    && match l_lex l, cs_trail sty i with
       | [], c :: _ => negb (is_space c)
       | _, _ => true
       end
    && match l_comment l with
       | Some n =>
         forallb not_lf (cs_comment sty i) && Nat.eqb (List.length (cs_comment sty i)) n
         (* JSON_COMMENT: '#' ~[\n]+ needs one character; a CR before the LF is one *)
         && match d' with O => true | _ => negb (Nat.eqb n 0) || l_cr l end
       | None => true
       end.

  Fixpoint clines_ok (d i : nat) (ls : list line) : bool :=
    match ls with
    | [] => Nat.eqb d 0            (* no struct literal is open at the end of the text *)
    | l :: r => cline_ok d i l && clines_ok (json_depth d (l_lex l)) (S i) r
    end.

  Definition text_ok (t : text) : bool := clines_ok 0 0 (t_lines t).
End Conditions.

(* ---- [text_ok] = the part that concerns the lines alone (every lexeme in its lexer mode,
   no struct literal open at the end) and the part that concerns the characters.  The first
   holds for every printed program (CharModesProofs.render_modes). ---- *)
Fixpoint lexemes_modes (d : nat) (lex : list tok) : bool :=
  match lex with
  | [] => true
  | t :: r => mode_ok d t && lexemes_modes (depth_step d t) r
  end.

Fixpoint clines_modes (d : nat) (ls : list line) : bool :=
  match ls with
  | [] => Nat.eqb d 0
  | l :: r => lexemes_modes d (l_lex l) && clines_modes (json_depth d (l_lex l)) r
  end.

Definition text_modes_ok (t : text) : bool := clines_modes 0 (t_lines t).

Section Style.
  Variable intern : list ascii -> name.
  Variable sty : cstyle.

  Fixpoint lexemes_style (i j : nat) (prev : option tok) (lex : list tok) : bool :=
    match lex with
    | [] => true
    | t :: r =>
      tok_spelled intern sty t
      && match prev with Some p => gap_ok sty p (cs_gap sty i j) t | None => true end
      && lexemes_style i (S j) (Some t) r
    end.

  Definition cline_style (d i : nat) (l : line) : bool :=
    let d' := json_depth d (l_lex l) in
    lexemes_style i 0 None (l_lex l)
    && forallb is_blank (cs_trail sty i) && Nat.eqb (List.length (cs_trail sty i)) (l_trail l)
    && match l_lex l, cs_trail sty i with
       | [], c :: _ => negb (is_space c)
       | _, _ => true
       end
    && match l_comment l with
       | Some n =>
         forallb not_lf (cs_comment sty i) && Nat.eqb (List.length (cs_comment sty i)) n
         && match d' with O => true | _ => negb (Nat.eqb n 0) || l_cr l end
       | None => true
       end.

  Fixpoint clines_style (d i : nat) (ls : list line) : bool :=
    match ls with
    | [] => true
    | l :: r => cline_style d i l && clines_style (json_depth d (l_lex l)) (S i) r
    end.

  (* the character-level side conditions: spelling of every lexeme, blanks between lexemes,
     trailing blanks, comment texts *)
  Definition text_style_ok (t : text) : bool := clines_style 0 0 (t_lines t).
End Style.

Definition has_lexeme (t : text) : bool :=
  existsb (fun l => match l_lex l with [] => false | _ => true end) (t_lines t).

Definition nonempty_program (p : program) : bool :=
  match p_structs p, p_tasks p with [], [] => false | _, _ => true end.

(* ---- the statements of Properties/C12chars.v ---- *)
Definition lex_render_statement : Prop :=
  forall intern sty t, text_ok intern sty t = true ->
    exists col, lex intern (render_chars sty t) = LexOk (raw_tokens t) col
                /\ (has_lexeme t = true -> col = first_column (logical_lines t)).

(* the round trip from characters, for the printed programs *)
Definition C12_roundtrip_chars_statement : Prop :=
  forall intern sty L p,
    layout_wf L = true -> names_ok p = true -> nonempty_program p = true ->
    text_ok intern sty (render L p) = true ->
    front_end_chars intern (render_chars sty (render L p)) = FOk p.

(* the same with the character-level side conditions only *)
Definition C12_roundtrip_chars_style_statement : Prop :=
  forall intern sty L p,
    layout_wf L = true -> names_ok p = true -> nonempty_program p = true ->
    text_style_ok intern sty (render L p) = true ->
    front_end_chars intern (render_chars sty (render L p)) = FOk p.

(* ... without the guard [nonempty_program]: false on the faithful model (and in the code:
   a text without any lexeme whose last line is not empty and not terminated is a syntax
   error, because DenterHelper's first-token rule sees EOF in a column > 0) *)
Definition C12_roundtrip_chars_full : Prop :=
  forall intern sty L p,
    layout_wf L = true -> names_ok p = true ->
    text_ok intern sty (render L p) = true ->
    front_end_chars intern (render_chars sty (render L p)) = FOk p.
