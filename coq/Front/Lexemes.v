(* Front/Lexemes.v — the lexer rules the Front model is stated against, and the place of
   every token constructor in them (model support file: definitions only).
   Gen/Keywords.v regenerates [lexer_rules] from pfdl_grammar/PFDLLexer.g4 (cross-read with
   the generated PFDLLexer.py); Gen/ObligationsFront.v proves the two equal. *)
From PFDL.Front Require Export Tokens.
From Coq Require Import String.
Open Scope string_scope.

Definition lexer_rules : list (string * string * string) :=
  [ ("DEFAULT_MODE", "STRUCT", "'Struct'");
    ("DEFAULT_MODE", "TASK", "'Task'");
    ("DEFAULT_MODE", "IN", "'In'");
    ("DEFAULT_MODE", "OUT", "'Out'");
    ("DEFAULT_MODE", "LOOP", "'Loop'");
    ("DEFAULT_MODE", "WHILE", "'While'");
    ("DEFAULT_MODE", "TO", "'To'");
    ("DEFAULT_MODE", "PARALLEL", "'Parallel'");
    ("DEFAULT_MODE", "CONDITION", "'Condition'");
    ("DEFAULT_MODE", "PASSED", "'Passed'");
    ("DEFAULT_MODE", "FAILED", "'Failed'");
    ("DEFAULT_MODE", "ON_DONE", "'OnDone'");
    ("DEFAULT_MODE", "END", "'End'");
    ("DEFAULT_MODE", "NUMBER_P", "'number'");
    ("DEFAULT_MODE", "STRING_P", "'string'");
    ("DEFAULT_MODE", "BOOLEAN_P", "'boolean'");
    ("DEFAULT_MODE", "TRUE", "'true'");
    ("DEFAULT_MODE", "FALSE", "'false'");
    ("DEFAULT_MODE", "COLON", "':'");
    ("DEFAULT_MODE", "DOT", "'.'");
    ("DEFAULT_MODE", "COMMA", "','");
    ("DEFAULT_MODE", "JSON_OPEN", "'{' -> pushMode(JSON)");
    ("DEFAULT_MODE", "QUOTE", "'""'");
    ("DEFAULT_MODE", "ARRAY_LEFT", "'['");
    ("DEFAULT_MODE", "ARRAY_RIGHT", "']'");
    (* skipped by the lexer: a comment runs to the end of the line (and swallows a CR) *)
    ("DEFAULT_MODE", "COMMENT", "'#' ~[\n]* -> skip");
    ("DEFAULT_MODE", "WHITESPACE", "[ \t]+ -> skip");
    (* a line break and the blanks (spaces only) that follow it: Lines.raw_tokens *)
    ("DEFAULT_MODE", "NL", "('\r'? '\n' ' '*)");
    ("DEFAULT_MODE", "LEFT_PARENTHESIS", "'('");
    ("DEFAULT_MODE", "RIGHT_PARENTHESIS", "')'");
    ("DEFAULT_MODE", "LESS_THAN", "'<'");
    ("DEFAULT_MODE", "LESS_THAN_OR_EQUAL", "'<='");
    ("DEFAULT_MODE", "GREATER_THAN", "'>'");
    ("DEFAULT_MODE", "GREATER_THAN_OR_EQUAL", "'>='");
    ("DEFAULT_MODE", "EQUAL", "'=='");
    ("DEFAULT_MODE", "NOT_EQUAL", "'!='");
    ("DEFAULT_MODE", "BOOLEAN_AND", "'And'");
    ("DEFAULT_MODE", "BOOLEAN_OR", "'Or'");
    ("DEFAULT_MODE", "BOOLEAN_NOT", "'!'");
    ("DEFAULT_MODE", "STAR", "'*'");
    ("DEFAULT_MODE", "SLASH", "'/'");
    ("DEFAULT_MODE", "MINUS", "'-'");
    ("DEFAULT_MODE", "PLUS", "'+'");
    ("DEFAULT_MODE", "INTEGER", "[0-9]+");
    ("DEFAULT_MODE", "FLOAT", "INTEGER '.' INTEGER");
    ("DEFAULT_MODE", "STRING", "'""' ('\\""' | .)*? '""'");
    ("DEFAULT_MODE", "STARTS_WITH_LOWER_C_STR", "[a-z][a-zA-Z0-9_]*");
    ("DEFAULT_MODE", "STARTS_WITH_UPPER_C_STR", "[A-Z][a-zA-Z0-9_]*");
    ("JSON", "JSON_STRING", "'""' ('\\""' | .)*? '""'");
    ("JSON", "JSON_TRUE", "'true'");
    ("JSON", "JSON_FALSE", "'false'");
    ("JSON", "JSON_COLON", "':'");
    ("JSON", "JSON_QUOTE", "'""'");
    ("JSON", "JSON_COMMENT", "'#' ~[\n]+ -> skip");
    ("JSON", "JSON_ARRAY_LEFT", "'['");
    ("JSON", "JSON_ARRAY_RIGHT", "']'");
    ("JSON", "JSON_COMMA", "','");
    ("JSON", "NUMBER", "'-'? INT ('.' [0-9]+)? EXP?");
    ("JSON", "fragment INT", "'0' | [1-9] [0-9]*");
    ("JSON", "fragment EXP", "[Ee] [+\-]? INT");
    (* in the JSON mode line breaks are white space: Lines.join *)
    ("JSON", "WS", "[ \t\n\r]+ -> skip");
    ("JSON", "JSON_OPEN_2", "'{' -> pushMode(JSON)");
    ("JSON", "JSON_CLOSE", "'}' -> popMode") ].

Definition lexer_modes : list string := [ "DEFAULT_MODE"; "JSON" ].
Definition denter_tokens : list string := [ "INDENT"; "DEDENT" ].
(* Denter.at_eof models should_ignore_eof = False *)
Definition denter_ignore_eof : bool := false.

(* (mode, ANTLR token name) of every constructor of [tok] *)
Definition tok_rule (t : tok) : string * string :=
  match t with
  | KStruct => ("DEFAULT_MODE", "STRUCT") | KTask => ("DEFAULT_MODE", "TASK")
  | KIn => ("DEFAULT_MODE", "IN") | KOut => ("DEFAULT_MODE", "OUT")
  | KLoop => ("DEFAULT_MODE", "LOOP") | KWhile => ("DEFAULT_MODE", "WHILE")
  | KTo => ("DEFAULT_MODE", "TO") | KParallel => ("DEFAULT_MODE", "PARALLEL")
  | KCondition => ("DEFAULT_MODE", "CONDITION") | KPassed => ("DEFAULT_MODE", "PASSED")
  | KFailed => ("DEFAULT_MODE", "FAILED") | KOnDone => ("DEFAULT_MODE", "ON_DONE")
  | KEnd => ("DEFAULT_MODE", "END") | KNumberP => ("DEFAULT_MODE", "NUMBER_P")
  | KStringP => ("DEFAULT_MODE", "STRING_P") | KBooleanP => ("DEFAULT_MODE", "BOOLEAN_P")
  | KTrue => ("DEFAULT_MODE", "TRUE") | KFalse => ("DEFAULT_MODE", "FALSE")
  | PColon => ("DEFAULT_MODE", "COLON") | PDot => ("DEFAULT_MODE", "DOT")
  | PComma => ("DEFAULT_MODE", "COMMA") | PJsonOpen => ("DEFAULT_MODE", "JSON_OPEN")
  | PQuote => ("DEFAULT_MODE", "QUOTE") | PArrL => ("DEFAULT_MODE", "ARRAY_LEFT")
  | PArrR => ("DEFAULT_MODE", "ARRAY_RIGHT") | PLParen => ("DEFAULT_MODE", "LEFT_PARENTHESIS")
  | PRParen => ("DEFAULT_MODE", "RIGHT_PARENTHESIS")
  | OpLt => ("DEFAULT_MODE", "LESS_THAN") | OpLe => ("DEFAULT_MODE", "LESS_THAN_OR_EQUAL")
  | OpGt => ("DEFAULT_MODE", "GREATER_THAN") | OpGe => ("DEFAULT_MODE", "GREATER_THAN_OR_EQUAL")
  | OpEq => ("DEFAULT_MODE", "EQUAL") | OpNe => ("DEFAULT_MODE", "NOT_EQUAL")
  | OpAnd => ("DEFAULT_MODE", "BOOLEAN_AND") | OpOr => ("DEFAULT_MODE", "BOOLEAN_OR")
  | OpNot => ("DEFAULT_MODE", "BOOLEAN_NOT") | OpStar => ("DEFAULT_MODE", "STAR")
  | OpSlash => ("DEFAULT_MODE", "SLASH") | OpMinus => ("DEFAULT_MODE", "MINUS")
  | OpPlus => ("DEFAULT_MODE", "PLUS")
  | TInt _ => ("DEFAULT_MODE", "INTEGER") | TFloat _ => ("DEFAULT_MODE", "FLOAT")
  | TStr _ => ("DEFAULT_MODE", "STRING")
  | TLower _ => ("DEFAULT_MODE", "STARTS_WITH_LOWER_C_STR")
  | TUpper _ => ("DEFAULT_MODE", "STARTS_WITH_UPPER_C_STR")
  | JString _ => ("JSON", "JSON_STRING") | JTrue => ("JSON", "JSON_TRUE")
  | JFalse => ("JSON", "JSON_FALSE") | JColon => ("JSON", "JSON_COLON")
  | JQuote => ("JSON", "JSON_QUOTE") | JArrL => ("JSON", "JSON_ARRAY_LEFT")
  | JArrR => ("JSON", "JSON_ARRAY_RIGHT") | JComma => ("JSON", "JSON_COMMA")
  | JNumber _ => ("JSON", "NUMBER") | JOpen2 => ("JSON", "JSON_OPEN_2")
  | JClose => ("JSON", "JSON_CLOSE")
  end.

(* one representative of every constructor *)
Definition all_toks : list tok :=
  [ KStruct; KTask; KIn; KOut; KLoop; KWhile; KTo; KParallel; KCondition; KPassed; KFailed;
    KOnDone; KEnd; KNumberP; KStringP; KBooleanP; KTrue; KFalse; PColon; PDot; PComma;
    PJsonOpen; PQuote; PArrL; PArrR; PLParen; PRParen; OpLt; OpLe; OpGt; OpGe; OpEq; OpNe;
    OpAnd; OpOr; OpNot; OpStar; OpSlash; OpMinus; OpPlus; TInt 0; TFloat 0; TStr 0; TLower 0;
    TUpper 0; JString 0; JTrue; JFalse; JColon; JQuote; JArrL; JArrR; JComma; JNumber 0;
    JOpen2; JClose ].

Fixpoint rule_body (m n : string) (rs : list (string * string * string)) : option string :=
  match rs with
  | [] => None
  | (m', n', b) :: r => if andb (String.eqb m m') (String.eqb n n') then Some b else rule_body m n r
  end.

(* the rules that are not tokens of the model: skipped input, the NL rule, fragments *)
Definition non_token_rules : list (string * string) :=
  [ ("DEFAULT_MODE", "COMMENT"); ("DEFAULT_MODE", "WHITESPACE"); ("DEFAULT_MODE", "NL");
    ("JSON", "JSON_COMMENT"); ("JSON", "fragment INT"); ("JSON", "fragment EXP"); ("JSON", "WS") ].

(* every rule is a token constructor or one of [non_token_rules], exactly once, in order *)
Definition rules_covered : bool :=
  list_eqb (fun a b => andb (String.eqb (fst a) (fst b)) (String.eqb (snd a) (snd b)))
    (map (fun r => (fst (fst r), snd (fst r))) lexer_rules)
    (map tok_rule (firstn 25 all_toks) ++ firstn 3 non_token_rules
     ++ map tok_rule (firstn 20 (skipn 25 all_toks))
     ++ [ ("JSON", "JSON_STRING"); ("JSON", "JSON_TRUE"); ("JSON", "JSON_FALSE"); ("JSON", "JSON_COLON");
          ("JSON", "JSON_QUOTE"); ("JSON", "JSON_COMMENT"); ("JSON", "JSON_ARRAY_LEFT");
          ("JSON", "JSON_ARRAY_RIGHT"); ("JSON", "JSON_COMMA"); ("JSON", "NUMBER");
          ("JSON", "fragment INT"); ("JSON", "fragment EXP"); ("JSON", "WS");
          ("JSON", "JSON_OPEN_2"); ("JSON", "JSON_CLOSE") ]).

(* every token constructor names an existing rule of its mode *)
Definition toks_have_rules : bool :=
  forallb (fun t => match rule_body (fst (tok_rule t)) (snd (tok_rule t)) lexer_rules with
                    | Some _ => true | None => false end) all_toks.

(* the mode switches the model relies on (Tokens.opens_json / closes_json) *)
Definition mode_switches_ok : bool :=
  forallb (fun t =>
    match rule_body (fst (tok_rule t)) (snd (tok_rule t)) lexer_rules with
    | Some b =>
      Bool.eqb (opens_json t) (String.eqb b "'{' -> pushMode(JSON)")
      && Bool.eqb (closes_json t) (String.eqb b "'}' -> popMode")
    | None => false
    end) all_toks.
