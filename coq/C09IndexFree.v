(* C09IndexFree.v — an accepted program has no array index in a guard (While, Condition) or in
   the limit of a counting loop (sequential or parallel), in every task a call can reach (the
   first definition of its name).

   The validator types a guard / a limit with helpers.get_type_of_variable_list, whose lookups
   are by attribute *name*: "[…]" is never a key, so an indexed path has no type and the
   check fails (finding D25: rejected although well-formed).  Here the consequence that the
   run-time half of C09 needs: acceptance implies Guards.expr_index_free / limit_index_free on
   everything the scheduler evaluates.

   Pattern of CheckProofsC10 (f_bad_limit / local_bad_limit / bad_limit_rejected): a local fault
   predicate, a local lemma, fault_somewhere_rejected; then two bridges: from find_task to the
   task table of the visitor, and from visible_exists (existential walker of the descent lemma)
   to C09Static.stmt_forall (universal walker). *)
From PFDL Require Import Base Syntax C09Static.
From PFDL.Check Require Import CheckModel CheckProofsBase CheckProofsC10 Typing Guards.

(* ------------------------------------------------------------------------------ *)
(* the local fault: an index in the guard / the limit of this statement node       *)
(* ------------------------------------------------------------------------------ *)
Definition f_indexed (s : stmt) : bool :=
  match s with
  | SWhile e _ => negb (expr_index_free e)
  | SCond e _ _ => negb (expr_index_free e)
  | SCount _ _ lim _ => negb (limit_index_free lim)
  | _ => false
  end.

Section LocalIndexed.
  Variable E : env.
  Variable T : tdef.

  (* a path that get_type_of_variable_list can type consists of fields only *)
  Lemma gtvl_loop_index_free : forall es cur last t,
    gtvl_loop E cur last es = Some t -> is_index last = false /\ path_index_free es = true.
  Proof.
    induction es as [|e rest IH]; intros cur last t H; cbn [gtvl_loop] in H.
    - destruct last; cbn in H; try discriminate. split; reflexivity.
    - destruct (attr_of cur last) as [ty|] eqn:Ha; [|discriminate].
      destruct (struct_of_type E ty) as [sd|]; [|discriminate].
      destruct (IH _ _ _ H) as [H1 H2]. split.
      + destruct last; cbn in Ha; try discriminate. reflexivity.
      + unfold path_index_free in *. cbn [forallb]. rewrite H1, H2. reflexivity.
  Qed.

  Lemma gtvl_index_free : forall v es t,
    get_type_of_variable_list E T v es = Some t -> path_index_free es = true.
  Proof.
    intros v es t H. unfold get_type_of_variable_list in H.
    destruct (assoc v (td_vars T)) as [ty|]; [|discriminate].
    destruct (struct_of_type E ty) as [sd|]; [|discriminate].
    destruct es as [|e rest]; [reflexivity|].
    destruct (gtvl_loop_index_free _ _ _ _ H) as [H1 H2].
    unfold path_index_free in *. cbn [forallb]. rewrite H1, H2. reflexivity.
  Qed.

  Lemma expression_is_number_index_free : forall e,
    expression_is_number E T e = true -> expr_index_free e = true.
  Proof.
    induction e as [q|b|s|v p|e IH|e IH|o l IHl r IHr]; intro H;
      cbn [expression_is_number expr_index_free] in *; try reflexivity; try discriminate.
    - destruct (get_type_of_variable_list E T v p) as [t|] eqn:Hg; [|discriminate].
      eapply gtvl_index_free; exact Hg.
    - auto.
    - apply andb_true_iff in H. destruct H as [H1 H2]. rewrite (IHl H1), (IHr H2). reflexivity.
  Qed.

  Lemma expression_is_string_index_free : forall e,
    expression_is_string E T e = true -> expr_index_free e = true.
  Proof.
    intros e H. destruct e; cbn [expression_is_string expr_index_free] in *;
      try reflexivity; try discriminate.
    destruct (get_type_of_variable_list E T v p) as [t|] eqn:Hg; [|discriminate].
    eapply gtvl_index_free; exact Hg.
  Qed.

  Lemma check_single_path_index_free : forall c v p es,
    check_single_path E T c v p = Ok (true, es) -> path_index_free p = true.
  Proof.
    intros c v p es H. unfold check_single_path in H. apply andthen_ok in H.
    destruct H as (x & e1 & H1 & [(_ & Hb & _) | (_ & e2 & H2 & _)]); [discriminate|].
    destruct (get_type_of_variable_list E T v p) as [t|] eqn:Hg; [|discriminate].
    eapply gtvl_index_free; exact Hg.
  Qed.

  (* a guard the validator accepts has no index *)
  Lemma check_expression_index_free : forall e c es,
    check_expression E T c e = Ok (true, es) -> expr_index_free e = true.
  Proof.
    induction e as [q|b|s|v p|e IH|e IH|o l IHl r IHr]; intros c es H;
      cbn [check_expression expr_index_free] in *; try reflexivity.
    - eapply check_single_path_index_free; exact H.
    - eapply IH; exact H.
    - eapply IH; exact H.
    - destruct (is_cmp o).
      + destruct (expression_is_number E T l && expression_is_number E T r) eqn:Hn.
        * apply andb_true_iff in Hn. destruct Hn as [A B].
          rewrite (expression_is_number_index_free _ A), (expression_is_number_index_free _ B).
          reflexivity.
        * destruct (expression_is_string E T l && expression_is_string E T r) eqn:Hs; [|discriminate].
          apply andb_true_iff in Hs. destruct Hs as [A B].
          rewrite (expression_is_string_index_free _ A), (expression_is_string_index_free _ B).
          reflexivity.
      + destruct (is_arith o).
        * destruct (expression_is_number E T l && expression_is_number E T r) eqn:Hn; [|discriminate].
          apply andb_true_iff in Hn. destruct Hn as [A B].
          rewrite (expression_is_number_index_free _ A), (expression_is_number_index_free _ B).
          reflexivity.
        * apply andthen_ok in H.
          destruct H as (x & e1 & H1 & [(_ & Hb & _) | (Hx & e2 & H2 & _)]); [discriminate|].
          subst x. rewrite (IHl _ _ H1), (IHr _ _ H2). reflexivity.
  Qed.

  (* a limit the validator accepts has no index *)
  Lemma check_limit_index_free : forall c lim es,
    check_limit E T c lim = Ok (true, es) -> limit_index_free lim = true.
  Proof.
    intros c lim es H. destruct lim as [n|v p]; [reflexivity|].
    cbn [limit_index_free]. unfold check_limit in H. apply andthen_ok in H.
    destruct H as (x & e1 & H1 & [(_ & Hb & _) | (_ & e2 & H2 & _)]); [discriminate|].
    destruct (expression_is_number E T (EPath v p)) eqn:Hn; [|discriminate].
    exact (expression_is_number_index_free _ Hn).
  Qed.

  Lemma check_expression_indexed_false : forall e c b es,
    expr_index_free e = false -> check_expression E T c e = Ok (b, es) -> b = false.
  Proof.
    intros e c b es Hf Hc. destruct b; [|reflexivity].
    rewrite (check_expression_index_free _ _ _ Hc) in Hf. discriminate.
  Qed.

  Lemma check_limit_indexed_false : forall lim c b es,
    limit_index_free lim = false -> check_limit E T c lim = Ok (b, es) -> b = false.
  Proof.
    intros lim c b es Hf Hc. destruct b; [|reflexivity].
    rewrite (check_limit_index_free _ _ _ Hc) in Hf. discriminate.
  Qed.

  Lemma local_indexed : forall pi s b es,
    f_indexed s = true -> check_stmt E T pi s = Ok (b, es) -> b = false.
  Proof.
    intros pi s b es Hf Hc. destruct s; try discriminate;
      cbn [f_indexed] in Hf; apply negb_true_iff in Hf.
    - cbn [check_stmt] in Hc. apply band_ok in Hc.
      destruct Hc as (x & e1 & y & e2 & H1 & H2 & -> & _).
      rewrite (check_expression_indexed_false _ _ _ _ Hf H2). apply andb_false_r.
    - destruct par; cbn [check_stmt] in Hc; apply band_ok in Hc;
        destruct Hc as (x & e1 & y & e2 & H1 & H2 & -> & _);
        rewrite (check_limit_indexed_false _ _ _ _ Hf H1); reflexivity.
    - cbn [check_stmt] in Hc. apply band_ok in Hc.
      destruct Hc as (x & e1 & y & e2 & H1 & H2 & -> & _).
      apply band_ok in H2. destruct H2 as (x2 & e21 & y2 & e22 & H21 & H22 & -> & _).
      rewrite (check_expression_indexed_false _ _ _ _ Hf H22). rewrite !andb_false_r. reflexivity.
  Qed.
End LocalIndexed.

(* D25 as a fault class: an index in a guard or a limit, anywhere the validator looks *)
Definition has_fault_indexed_path : program -> bool :=
  fault_somewhere (fun _ _ => f_indexed).

Theorem indexed_path_rejected : forall p, has_fault_indexed_path p = true -> validate p <> Ok [].
Proof.
  apply (fault_somewhere_rejected (fun _ _ => f_indexed)).
  intros. eapply local_indexed; eassumption.
Qed.

(* ------------------------------------------------------------------------------ *)
(* Bridge A: the task a call reaches is in the task table of the visitor           *)
(* ------------------------------------------------------------------------------ *)
Lemma find_task_dedup_first : forall l n t seen i,
  find_task n l = Some t -> mem n seen = false ->
  exists j, In (n, visit_task j t)
               (dedup_first seen
                  (map (fun ix => (t_name (snd ix), visit_task (fst ix) (snd ix))) (index_from i l))).
Proof.
  induction l as [|t0 r IH]; intros n t seen i Hf Hm; cbn [find_task] in Hf; [discriminate|].
  cbn [index_from map dedup_first fst snd].
  destruct (Nat.eqb n (t_name t0)) eqn:Hn.
  - apply Nat.eqb_eq in Hn. inversion Hf; subst t0. subst n. rewrite Hm.
    exists i. left. reflexivity.
  - destruct (mem (t_name t0) seen).
    + apply IH; assumption.
    + destruct (IH n t (t_name t0 :: seen) (S i) Hf) as [j Hj].
      * cbn [mem]. rewrite Hn, Hm. reflexivity.
      * exists j. right. exact Hj.
Qed.

Lemma find_task_visit_env : forall p n t,
  find_task n (p_tasks p) = Some t ->
  exists i, In (n, visit_task i t) (e_tasks (visit_env p)).
Proof.
  intros p n t H. unfold visit_env. cbn [e_tasks].
  apply find_task_dedup_first; [exact H | reflexivity].
Qed.

Lemma find_task_name : forall l n t, find_task n l = Some t -> t_name t = n.
Proof.
  induction l as [|t0 r IH]; intros n t H; cbn [find_task] in H; [discriminate|].
  destruct (Nat.eqb n (t_name t0)) eqn:Hn.
  - apply Nat.eqb_eq in Hn. inversion H; subst. reflexivity.
  - apply IH; assumption.
Qed.

Lemma find_task_In : forall l n t, find_task n l = Some t -> In t l.
Proof.
  induction l as [|t0 r IH]; intros n t H; cbn [find_task] in H; [discriminate|].
  destruct (Nat.eqb n (t_name t0)).
  - inversion H; subst. left. reflexivity.
  - right. eapply IH; eassumption.
Qed.

(* ------------------------------------------------------------------------------ *)
(* Bridge B: no fault where the validator looks = the universal walker holds        *)
(* ------------------------------------------------------------------------------ *)
Lemma visible_exists_indexed_forall : forall s lv,
  visible_exists f_indexed s = false ->
  stmt_forall (fun _ e => expr_index_free e) (fun _ l => limit_index_free l) lv s = true.
Proof.
  intro s.
  induction s as [n ins outs|c|cs|e b IHb|par v l b IHb|e p f IHp IHf] using stmt_ind';
    intros lv H; cbn [stmt_forall]; try reflexivity.
  - cbn [visible_exists] in H. apply orb_false_iff in H. destruct H as [A B].
    cbn [f_indexed] in A. apply negb_false_iff in A. rewrite A. cbn [andb].
    eapply existsb_false_forallb; [|exact B]. eapply Forall_impl; [|exact IHb]. cbn beta. auto.
  - destruct par.
    + assert (A : f_indexed (SCount true v l b) = false).
      { cbn [visible_exists] in H. apply orb_false_iff in H. apply H. }
      cbn [f_indexed] in A. apply negb_false_iff in A. exact A.
    + cbn [visible_exists] in H. apply orb_false_iff in H. destruct H as [A B].
      cbn [f_indexed] in A. apply negb_false_iff in A. rewrite A. cbn [andb].
      eapply existsb_false_forallb; [|exact B]. eapply Forall_impl; [|exact IHb]. cbn beta. auto.
  - cbn [visible_exists] in H. apply orb_false_iff in H. destruct H as [A B].
    apply orb_false_iff in B. destruct B as [B C].
    cbn [f_indexed] in A. apply negb_false_iff in A. rewrite A. cbn [andb].
    apply andb_true_iff; split.
    + eapply existsb_false_forallb; [|exact B]. eapply Forall_impl; [|exact IHp]. cbn beta. auto.
    + eapply existsb_false_forallb; [|exact C]. eapply Forall_impl; [|exact IHf]. cbn beta. auto.
Qed.

(* ------------------------------------------------------------------------------ *)
(* the theorem                                                                     *)
(* ------------------------------------------------------------------------------ *)
(* every task of the visitor's table, every statement of its body *)
Lemma accepted_table_index_free : forall p kv s lv,
  validate p = Ok [] -> In kv (e_tasks (visit_env p)) -> In s (td_body (snd kv)) ->
  stmt_forall (fun _ e => expr_index_free e) (fun _ l => limit_index_free l) lv s = true.
Proof.
  intros p kv s lv Hacc Hkv Hs.
  destruct (has_fault_indexed_path p) eqn:Hf.
  - exfalso. exact (indexed_path_rejected p Hf Hacc).
  - unfold has_fault_indexed_path, fault_somewhere in Hf.
    pose proof (existsb_false_forall _ _ _ _ Hf Hkv) as H1. cbn beta in H1.
    pose proof (existsb_false_forall _ _ _ _ H1 Hs) as H2.
    apply visible_exists_indexed_forall. exact H2.
Qed.

Theorem accepted_paths_index_free : forall p n t,
  validate p = Ok [] -> find_task n (p_tasks p) = Some t ->
  forallb (stmt_forall (fun _ e => expr_index_free e) (fun _ l => limit_index_free l) []) (t_body t) = true.
Proof.
  intros p n t Hacc Hfind.
  destruct (find_task_visit_env p n t Hfind) as [i Hin].
  apply forallb_forall. intros s Hs.
  eapply (accepted_table_index_free p (n, visit_task i t) s []); [exact Hacc | exact Hin | exact Hs].
Qed.

Print Assumptions accepted_paths_index_free.
