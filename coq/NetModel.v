(* NetModel.v — faithful executable model of the mechanism in /repo:
     petri_net/generator.py  (PetriNetGenerator: generate_* methods, add_callback, run-time
                              generation for parallel loops, remove_place_on_runtime),
     petri_net/logic.py      (PetriNetLogic.evaluate_petri_net incl. the parallel-loop special
                              case with its list mutation while iterating, fire_event),
     scheduler.py            (Scheduler.start, fire_event, on_* handlers, awaited events, loop
                              counters, identifier counters, substitute_loop_indexes, get_loop_limit,
                              callback registration, observers),
     SNAKES                  (modelled: a transition is enabled iff every input place holds a token;
                              firing removes one token per input arc and adds one per output arc;
                              remove_place drops the place and its arcs; _trans iterates in creation
                              order).
   One definition per Python method, same order of effects.  Places and transitions are named
   by their creation index (the implementation names them by uuid4 strings whose only roles are
   identity and creation order).  The environment (execution engine) is part of the state: the
   value oracle, the services completed from inside their own service-started notification,
   completions of OTHER pending services sent from inside notifications, the hostile mutation
   of delivered parameter lists.  Model support file: definitions only. *)
From PFDL Require Export RefSem.

(* ---- identifiers: test ids are the counters; uuid4() is a fresh-identifier counter ---- *)
Inductive ident := ITest (n : nat) | IUuid (n : nat).
Definition ident_eqb (a b : ident) : bool :=
  match a, b with
  | ITest x, ITest y | IUuid x, IUuid y => Nat.eqb x y
  | _, _ => false
  end.
(* identifier as it appears in a trace *)
Definition ident_nat (i : ident) : nat := match i with ITest n => n | IUuid n => 900 + n end.

(* ---- events (scheduling/event.py); equality = same type and same data ---- *)
Inductive event := EvStart | EvSetPlace (p : nat) | EvFinish (id : ident) | EvJunk.
Definition event_eqb (a b : event) : bool :=
  match a, b with
  | EvStart, EvStart => true
  | EvSetPlace p, EvSetPlace q => Nat.eqb p q
  | EvFinish i, EvFinish j => ident_eqb i j
  | _, _ => false          (* a junk event equals no awaited event *)
  end.

(* ---- TaskAPI / ServiceAPI objects (mutable, referenced from callbacks by index) ---- *)
Record api := {
  a_is_task : bool;
  a_name : name;
  a_site : site;                 (* the TaskCall / Service statement it was created for *)
  a_uuid : ident;
  a_ctx : option nat;            (* task_context: index of the enclosing TaskAPI *)
  a_in_loop : bool;
  a_params : list param;         (* input_parameters (what is delivered; the engine may mutate it) *)
  a_src : list param;            (* task_call.input_parameters / service.input_parameters *)
  a_has_call : bool              (* task_call is not None *)
}.

(* ---- callbacks stored in transition_dict (functools.partial objects) ---- *)
Inductive cb :=
| CbTS (a : nat) | CbTF (a : nat) | CbSS (a : nat) | CbSF (a : nat)
| CbCond (e : expr) (pt pf : nat) (ctx : nat)
| CbWhile (e : expr) (pt pf : nat) (ctx : nat)
| CbCount (key : site) (lim : limit) (pt pf : nat) (ctx : nat)
| CbParLoop (v : name) (lim : limit) (ctx : nat) (c : call) (csite : site) (ph t1 t2 : nat).

Definition is_parloop_cb (c : cb) : bool := match c with CbParLoop _ _ _ _ _ _ _ _ => true | _ => false end.

(* ---- loop counters: dict task uuid -> dict key -> value, insertion ordered ---- *)
Inductive lkey := KLoop (s : site) | KVar (v : name).
Inductive cval := CInt (n : nat) | CPar (v : Z).      (* ParallelLoopCounter().value *)
Definition site_eqb' (a b : site) : bool :=
  Nat.eqb (st_task a) (st_task b) && list_eqb Nat.eqb (st_path a) (st_path b).
Definition lkey_eqb (a b : lkey) : bool :=
  match a, b with
  | KLoop x, KLoop y => site_eqb' x y
  | KVar x, KVar y => Nat.eqb x y
  | _, _ => false
  end.

Record trans := { tr_pre : list nat; tr_post : list nat }.

Record NS := mkNS {
  (* the SNAKES net *)
  ns_places : list (option nat);       (* by place id: None = removed, Some k = k tokens *)
  ns_trans : list trans;               (* by transition id = creation order = scan order *)
  ns_cbs : list (list cb);             (* transition_dict, by transition id *)
  (* PetriNetGenerator *)
  ns_place_dict : list (ident * nat);  (* service uuid -> 'finished' place (newest binding first) *)
  ns_apis : list api;
  ns_start_place : nat;
  ns_final_place : nat;
  ns_fresh : nat;                      (* uuid4() calls so far *)
  (* Scheduler *)
  ns_test_ids : bool;
  ns_awaited : list event;
  ns_running : bool;
  ns_counters : list (ident * list (lkey * cval));
  ns_tid : nat;
  ns_sid : nat;
  ns_ls : list (nkind * nat);
  ns_obs : list nat;
  (* environment *)
  ns_log : list entry;                 (* newest first *)
  ns_q : nat;
  ns_nss : nat;
  ns_nnot : nat;
  ns_pending : list ident              (* the engine's view: announced, unfinished services *)
}.
#[export] Instance etaNS : Settable _ :=
  settable! mkNS <ns_places; ns_trans; ns_cbs; ns_place_dict; ns_apis; ns_start_place; ns_final_place;
                  ns_fresh; ns_test_ids; ns_awaited; ns_running; ns_counters; ns_tid; ns_sid; ns_ls;
                  ns_obs; ns_log; ns_q; ns_nss; ns_nnot; ns_pending>.

Definition N (A : Type) := NS -> res (A * NS).
Definition nret {A} (a : A) : N A := fun s => Ok (a, s).
Definition nbind {A B} (m : N A) (f : A -> N B) : N B :=
  fun s => match m s with
           | Ok (a, s') => f a s'
           | Fuel => Fuel | Exn k => Exn k | Unsupported => Unsupported
           end.
Definition nfail {A} (r : res A) : N A := fun s => rbind r (fun a => Ok (a, s)).
Definition nget : N NS := fun s => Ok (s, s).
Definition nmod (f : NS -> NS) : N unit := fun s => Ok (tt, f s).

Declare Scope net_scope.
Delimit Scope net_scope with net.
Notation "x <~ m ;; k" := (nbind m (fun x => k)) (at level 61, m at next level, right associativity) : net_scope.
Notation "m ;;~ k" := (nbind m (fun _ => k)) (at level 61, right associativity) : net_scope.
Local Open Scope net_scope.

Fixpoint nfor {A} (l : list A) (f : A -> N unit) : N unit :=
  match l with
  | [] => nret tt
  | x :: r => f x ;;~ nfor r f
  end.

(* ---- net primitives ---- *)
Definition create_place : N nat :=
  fun s => Ok (List.length (ns_places s), s <| ns_places := ns_places s ++ [Some 0] |>).
Definition create_transition : N nat :=
  fun s => Ok (List.length (ns_trans s),
               s <| ns_trans := ns_trans s ++ [{| tr_pre := []; tr_post := [] |}] |>
                 <| ns_cbs := ns_cbs s ++ [[]] |>).

Fixpoint upd {A} (n : nat) (f : A -> A) (l : list A) : list A :=
  match l, n with
  | [], _ => []
  | x :: t, O => f x :: t
  | x :: t, S n' => x :: upd n' f t
  end.

(* net.add_input(place, transition, Value(1)): the place becomes an input of the transition *)
Definition add_input (p t : nat) : N unit :=
  nmod (fun s => s <| ns_trans := upd t (fun x => {| tr_pre := tr_pre x ++ [p]; tr_post := tr_post x |}) (ns_trans s) |>).
Definition add_output (p t : nat) : N unit :=
  nmod (fun s => s <| ns_trans := upd t (fun x => {| tr_pre := tr_pre x; tr_post := tr_post x ++ [p] |}) (ns_trans s) |>).
Definition add_callback (t : nat) (c : cb) : N unit :=
  nmod (fun s => s <| ns_cbs := upd t (fun l => l ++ [c]) (ns_cbs s) |>).

Definition has_place (s : NS) (p : nat) : bool :=
  match nth_error (ns_places s) p with Some (Some _) => true | _ => false end.
Definition tokens (s : NS) (p : nat) : nat :=
  match nth_error (ns_places s) p with Some (Some k) => k | _ => 0 end.
Definition place_add (p : nat) : N unit :=
  nmod (fun s => s <| ns_places := upd p (option_map S) (ns_places s) |>).
Definition enabled (s : NS) (t : trans) : bool := forallb (fun p => 0 <? tokens s p) (tr_pre t).
Definition fire_trans (t : trans) : N unit :=
  nmod (fun s =>
          let ps1 := fold_left (fun ps p => upd p (option_map Nat.pred) ps) (tr_pre t) (ns_places s) in
          let ps2 := fold_left (fun ps p => upd p (option_map S) ps) (tr_post t) ps1 in
          s <| ns_places := ps2 |>).
Definition remove_place (p : nat) : N unit :=
  nmod (fun s =>
          let drop := filter (fun q => negb (Nat.eqb q p)) in
          s <| ns_places := upd p (fun _ => None) (ns_places s) |>
            <| ns_trans := map (fun t => {| tr_pre := drop (tr_pre t); tr_post := drop (tr_post t) |}) (ns_trans s) |>).

(* ---- API objects ---- *)
Definition fresh_uuid : N ident :=
  fun s => Ok (IUuid (ns_fresh s), s <| ns_fresh := S (ns_fresh s) |>).
Definition new_api (a : api) : N nat :=
  fun s => Ok (List.length (ns_apis s), s <| ns_apis := ns_apis s ++ [a] |>).
Definition get_api (i : nat) : N api :=
  fun s => match nth_error (ns_apis s) i with Some a => Ok (a, s) | None => Exn IndexError end.
Definition set_api (i : nat) (f : api -> api) : N unit :=
  nmod (fun s => s <| ns_apis := upd i f (ns_apis s) |>).
Definition with_uuid (u : ident) (a : api) : api :=
  {| a_is_task := a_is_task a; a_name := a_name a; a_site := a_site a; a_uuid := u; a_ctx := a_ctx a;
     a_in_loop := a_in_loop a; a_params := a_params a; a_src := a_src a; a_has_call := a_has_call a |}.
Definition with_params (ps : list param) (a : api) : api :=
  {| a_is_task := a_is_task a; a_name := a_name a; a_site := a_site a; a_uuid := a_uuid a; a_ctx := a_ctx a;
     a_in_loop := a_in_loop a; a_params := ps; a_src := a_src a; a_has_call := a_has_call a |}.

Fixpoint dict_get {K V} (eqb : K -> K -> bool) (k : K) (l : list (K * V)) : option V :=
  match l with
  | [] => None
  | (k', v) :: r => if eqb k k' then Some v else dict_get eqb k r
  end.
(* Python dict assignment: an existing key keeps its position, a new key goes last *)
Fixpoint dict_set {K V} (eqb : K -> K -> bool) (k : K) (v : V) (l : list (K * V)) : list (K * V) :=
  match l with
  | [] => [(k, v)]
  | (k', v') :: r => if eqb k k' then (k, v) :: r else (k', v') :: dict_set eqb k v r
  end.
Definition dict_del {K V} (eqb : K -> K -> bool) (k : K) (l : list (K * V)) : list (K * V) :=
  filter (fun kv => negb (eqb k (fst kv))) l.

(* =========================================================================== *)
(* PetriNetGenerator                                                            *)
(* =========================================================================== *)
Section Gen.
  Variable tasks : list task.

  Definition site_of (tn : name) (path : list nat) : site := {| st_task := tn; st_path := path |}.

  (* generate_service *)
  Definition generate_service (n : name) (ins : list param) (at_ : site) (ctx : nat) (t1 t2 : nat)
             (in_loop : bool) : N (list nat) :=
    u <~ fresh_uuid ;;
    a <~ new_api {| a_is_task := false; a_name := n; a_site := at_; a_uuid := u; a_ctx := Some ctx;
                    a_in_loop := in_loop; a_params := ins; a_src := ins; a_has_call := false |} ;;
    started <~ create_place ;;
    finished <~ create_place ;;
    nmod (fun s => s <| ns_place_dict := (u, finished) :: ns_place_dict s |>) ;;~
    done <~ create_place ;;
    done_t <~ create_transition ;;
    add_callback t1 (CbSS a) ;;~
    add_callback done_t (CbSF a) ;;~
    add_input started done_t ;;~
    add_input finished done_t ;;~
    add_output done done_t ;;~
    add_output started t1 ;;~
    add_input done t2 ;;~
    nret [done_t].

  (* generate_statements / generate_task_call / generate_parallel / generate_condition /
     generate_counting_loop / generate_parallel_loop / generate_while_loop.
     [tn], [path]: source position of the block (for the sites of its statements). *)
  Fixpoint generate_statements (f : nat) (ctx : nat) (tn : name) (pre : list nat) (ss : list stmt)
           (first last : nat) (in_loop : bool) {struct f} : N (list nat) :=
    match f with
    | O => nfail (Exn RecursionError)
    | S f' =>
      let n := List.length ss in
      (fix go (i : nat) (l : list stmt) (prev : nat) (acc : list nat) : N (list nat) :=
         match l with
         | [] => nret acc
         | s :: r =>
           cur <~ (if Nat.ltb 1 n
                   then (if Nat.ltb i (n - 1) then create_transition else nret last)
                   else nret last) ;;
           let prev' := if Nat.ltb 1 n then prev else first in
           ex <~ generate_stmt f' ctx tn (pre ++ [i]) s prev' cur in_loop ;;
           go (S i) r cur ex
         end) 0 ss first []
    end

  with generate_stmt (f : nat) (ctx : nat) (tn : name) (path : list nat) (s : stmt) (t1 t2 : nat)
                     (in_loop : bool) {struct f} : N (list nat) :=
    match f with
    | O => nfail (Exn RecursionError)
    | S f' =>
      match s with
      | SService n ins _ => generate_service n ins (site_of tn path) ctx t1 t2 in_loop
      | SCall c => generate_task_call f' c (site_of tn path) ctx t1 t2 in_loop
      | SParallel cs =>
        sync <~ create_transition ;;
        pfin <~ create_place ;;
        (fix calls (i : nat) (l : list call) : N unit :=
           match l with
           | [] => nret tt
           | c :: r => generate_task_call f' c (site_of tn (path ++ [i])) ctx t1 sync in_loop ;;~ calls (S i) r
           end) 0 cs ;;~
        add_output pfin sync ;;~
        add_input pfin t2 ;;~
        nret [sync]
      | SCond e p fl =>
        passed <~ create_place ;;
        failed <~ create_place ;;
        expr_p <~ create_place ;;
        fp <~ create_transition ;;
        ff <~ create_transition ;;
        add_input expr_p fp ;;~
        add_input expr_p ff ;;~
        add_input passed fp ;;~
        add_input failed ff ;;~
        cfin <~ create_place ;;
        sp <~ create_transition ;;
        add_output cfin sp ;;~
        generate_statements f' ctx tn (path ++ [0]) p fp sp in_loop ;;~
        add_output expr_p t1 ;;~
        add_input cfin t2 ;;~
        add_callback t1 (CbCond e passed failed ctx) ;;~
        match fl with
        | [] => add_output cfin ff ;;~ nret [sp; ff]
        | _ :: _ =>
          sf <~ create_transition ;;
          generate_statements f' ctx tn (path ++ [1]) fl ff sf in_loop ;;~
          add_output cfin sf ;;~
          nret [sp; sf]
        end
      | SCount true v lim body =>
        (* generate_parallel_loop; loop.statements[0] is the task call *)
        match body with
        | SCall c :: _ =>
          ph <~ create_place ;;
          add_output ph t1 ;;~
          add_input ph t2 ;;~
          add_callback t1 (CbParLoop v lim ctx c (site_of tn (path ++ [0])) ph t1 t2) ;;~
          nret [t2]
        | _ => nfail Unsupported          (* rejected by the validator *)
        end
      | SCount false v lim body =>
        loop_p <~ create_place ;;
        then_p <~ create_place ;;
        else_p <~ create_place ;;
        cp <~ create_transition ;;
        cf <~ create_transition ;;
        it <~ create_transition ;;
        add_input loop_p cp ;;~
        add_input then_p cp ;;~
        add_input loop_p cf ;;~
        add_input else_p cf ;;~
        add_output loop_p it ;;~
        ldone <~ create_place ;;
        generate_statements f' ctx tn path body cp it true ;;~
        add_output ldone cf ;;~
        add_output loop_p t1 ;;~
        add_input ldone t2 ;;~
        add_callback t1 (CbCount (site_of tn path) lim then_p else_p ctx) ;;~
        add_callback it (CbCount (site_of tn path) lim then_p else_p ctx) ;;~
        nret [cf]
      | SWhile e body =>
        loop_p <~ create_place ;;
        then_p <~ create_place ;;
        else_p <~ create_place ;;
        cp <~ create_transition ;;
        cf <~ create_transition ;;
        it <~ create_transition ;;
        add_input loop_p cp ;;~
        add_input then_p cp ;;~
        add_input loop_p cf ;;~
        add_input else_p cf ;;~
        add_output loop_p it ;;~
        ldone <~ create_place ;;
        generate_statements f' ctx tn path body cp it true ;;~
        add_output loop_p t1 ;;~
        add_input ldone t2 ;;~
        add_callback t1 (CbWhile e then_p else_p ctx) ;;~
        add_callback it (CbWhile e then_p else_p ctx) ;;~
        add_output ldone cf ;;~
        nret [cf]
      end
    end

  with generate_task_call (f : nat) (c : call) (at_ : site) (ctx : nat) (t1 t2 : nat) (in_loop : bool)
                          {struct f} : N (list nat) :=
    match f with
    | O => nfail (Exn RecursionError)
    | S f' =>
      match find_task (c_name c) tasks with
      | None => nfail (Exn KeyError)
      | Some t =>
        u <~ fresh_uuid ;;
        a <~ new_api {| a_is_task := true; a_name := c_name c; a_site := at_; a_uuid := u; a_ctx := Some ctx;
                        a_in_loop := in_loop; a_params := c_ins c; a_src := c_ins c; a_has_call := true |} ;;
        add_callback t1 (CbTS a) ;;~
        ex <~ generate_statements f' a (t_name t) [] (t_body t) t1 t2 in_loop ;;
        nfor ex (fun e => add_callback e (CbTF a)) ;;~
        nret ex
      end
    end.

  (* generate_petri_net *)
  Definition generate_petri_net (f : nat) : N unit :=
    match find_task production_task tasks with
    | None => nfail (Exn KeyError)
    | Some t =>
      u <~ fresh_uuid ;;
      s0 <~ nget ;;
      root <~ new_api {| a_is_task := true; a_name := production_task; a_site := root_site;
                         a_uuid := if ns_test_ids s0 then ITest 0 else u; a_ctx := None;
                         a_in_loop := false; a_params := []; a_src := []; a_has_call := false |} ;;
      started <~ create_place ;;
      c1 <~ create_transition ;;
      add_callback c1 (CbTS root) ;;~
      add_input started c1 ;;~
      finished <~ create_place ;;
      c2 <~ create_transition ;;
      generate_statements f root production_task [] (t_body t) c1 c2 false ;;~
      add_output finished c2 ;;~
      add_callback c2 (CbTF root) ;;~
      nmod (fun s => s <| ns_start_place := started |> <| ns_final_place := finished |>)
    end.

  Definition generate_empty_parallel_loop (t1 t2 : nat) : N unit :=
    p <~ create_place ;;
    add_output p t1 ;;~
    add_input p t2.
End Gen.

(* =========================================================================== *)
(* environment                                                                  *)
(* =========================================================================== *)
Record envcfg := {
  ec_orc : oracle;
  ec_imm : nat -> bool;              (* k-th service start completed from inside its notification *)
  ec_react : nat -> option nat;      (* k-th notification to function 0: complete the j-th pending service *)
  ec_react_all : bool;               (* also from inside finished notifications (else started ones only) *)
  ec_mutate : nat                    (* hostile engine: 0 none, 1 append, 2 clear, 3 replace *)
}.

(* interned by the harness: 1 = "mutated", 2 = "Mutated" *)
Definition mutated_lc : name := 1.
Definition mutated_uc : name := 2.

Definition hostile_elem (p : param) : param :=
  match p with
  | PPath v l => PPath v (l ++ [PF mutated_lc])
  | PLit _ (JObj fs) =>
    PLit mutated_uc (JObj (if existsb (fun kv => Nat.eqb (fst kv) mutated_lc) fs
                           then map (fun kv => if Nat.eqb (fst kv) mutated_lc then (fst kv, JNum 1) else kv) fs
                           else fs ++ [(mutated_lc, JNum 1)]))
  | PLit _ j => PLit mutated_uc j
  | _ => p
  end.
Definition hostile (mode : nat) (ps : list param) : list param :=
  let ps' := map hostile_elem ps in
  match mode with
  | 0 => ps
  | 1 => ps' ++ [PVar mutated_lc]
  | 2 => []
  | _ => map (fun _ => PVar mutated_lc) ps'
  end.

Definition nlog (es : list entry) : N unit := nmod (fun s => s <| ns_log := rev es ++ ns_log s |>).

Definition ctx_uuid_nat (s : NS) (c : option nat) : option nat :=
  match c with
  | None => None
  | Some i => match nth_error (ns_apis s) i with Some a => Some (ident_nat (a_uuid a)) | None => Some 0 end
  end.

Definition notif_of (s : NS) (k : nkind) (a : api) : notif :=
  {| n_kind := k; n_name := a_name a; n_site := a_site a; n_id := ident_nat (a_uuid a);
     n_ctx := ctx_uuid_nat s (a_ctx a); n_params := a_params a |}.

(* =========================================================================== *)
(* Scheduler + PetriNetLogic                                                    *)
(* =========================================================================== *)
Section Sched.
  Variable tasks : list task.
  Variable env : envcfg.

  Definition new_test_or_uuid (task_kind : bool) : N ident :=
    s <~ nget ;;
    if ns_test_ids s
    then (if task_kind
          then nmod (fun s => s <| ns_tid := S (ns_tid s) |>) ;;~ nret (ITest (ns_tid s))
          else nmod (fun s => s <| ns_sid := S (ns_sid s) |>) ;;~ nret (ITest (ns_sid s)))
    else fresh_uuid.

  (* substitute_loop_indexes *)
  Definition subst_one (cur : list (name * cval)) (raised : list name) (e : pelem)
    : pelem * list (name * cval) * list name :=
    match e with
    | PIdxVar v =>
      match dict_get Nat.eqb v cur with
      | Some (CInt n) => (PIdxLit n, cur, raised)
      | Some (CPar z) =>
        if mem v raised then (PIdxLit (Z.to_nat z), cur, raised)
        else (PIdxLit (Z.to_nat (z + 1)), dict_set Nat.eqb v (CPar (z + 1)%Z) cur, v :: raised)
      | None => (e, cur, raised)
      end
    | _ => (e, cur, raised)
    end.
  Fixpoint subst_path (cur : list (name * cval)) (raised : list name) (l : list pelem)
    : list pelem * list (name * cval) * list name :=
    match l with
    | [] => ([], cur, raised)
    | e :: r =>
      let '(e', cur1, raised1) := subst_one cur raised e in
      let '(r', cur2, raised2) := subst_path cur1 raised1 r in
      (e' :: r', cur2, raised2)
    end.
  Fixpoint subst_all (cur : list (name * cval)) (raised : list name) (ps : list param)
    : list param * list (name * cval) :=
    match ps with
    | [] => ([], cur)
    | PPath v l :: r =>
      let '(l', cur1, raised1) := subst_path cur raised l in
      let '(r', cur2) := subst_all cur1 raised1 r in
      (PPath v l' :: r', cur2)
    | p :: r => let '(r', cur2) := subst_all cur raised r in (p :: r', cur2)
    end.

  (* the counting variable of the counting loop at a source site *)
  Fixpoint stmt_at (ss : list stmt) (path : list nat) : option stmt :=
    match path with
    | [] => None
    | i :: rest =>
      match nth_error ss i with
      | None => None
      | Some s =>
        match rest with
        | [] => Some s
        | _ =>
          match s with
          | SWhile _ b | SCount _ _ _ b => stmt_at b rest
          | SCond _ p fl =>
            match rest with
            | 0 :: rest' => stmt_at p rest'
            | 1 :: rest' => stmt_at fl rest'
            | _ => None
            end
          | _ => None
          end
        end
      end
    end.
  Definition loop_var (k : site) : option name :=
    match find_task (st_task k) tasks with
    | None => None
    | Some t => match stmt_at (t_body t) (st_path k) with
                | Some (SCount _ v _ _) => Some v
                | _ => None
                end
    end.
  (* name -> counter, built by iterating the task's dict in insertion order *)
  Definition current_counters' (d : list (lkey * cval)) : list (name * cval) :=
    fold_left (fun acc kv =>
                 match fst kv with
                 | KLoop k => match loop_var k with
                              | Some v => dict_set Nat.eqb v (snd kv) acc
                              | None => acc
                              end
                 | KVar v => dict_set Nat.eqb v (snd kv) acc
                 end) d [].

  Definition substitute_loop_indexes (ai : nat) : N unit :=
    a <~ get_api ai ;;
    match a_ctx a with
    | None => nret tt
    | Some ci =>
      c <~ get_api ci ;;
      s <~ nget ;;
      match dict_get ident_eqb (a_uuid c) (ns_counters s) with
      | None => nret tt
      | Some d =>
        let cur := current_counters' d in
        let '(ps', cur') := subst_all cur [] (a_params a) in
        (* raised ParallelLoopCounter objects are shared with the dict *)
        let d' := map (fun kv =>
                         match fst kv, snd kv with
                         | KVar v, CPar _ => match dict_get Nat.eqb v cur' with
                                             | Some (CPar z) => (fst kv, CPar z)
                                             | _ => kv
                                             end
                         | _, _ => kv
                         end) d in
        set_api ai (with_params ps') ;;~
        nmod (fun s => s <| ns_counters := dict_set ident_eqb (a_uuid c) d' (ns_counters s) |>)
      end
    end.

  (* get_loop_limit *)
  Definition get_loop_limit (lim : limit) (ctx : nat) : N Q :=
    match lim with
    | LimInt n => nret (inject_Z (Z.of_nat n))
    | LimPath v p =>
      c <~ get_api ctx ;;
      s <~ nget ;;
      nlog [EQuery v (ident_nat (a_uuid c))] ;;~
      match ec_orc env (ns_q s) v with
      | None => nfail Unsupported
      | Some x =>
        nmod (fun s => s <| ns_q := S (ns_q s) |>) ;;~
        match resolve x p with
        | Ok (VNum q) => nret q
        | Ok (VBool b) => nret (if b then 1%Q else 0%Q)
        | Ok _ => nfail (Exn TypeError)
        | Fuel => nfail Fuel | Exn k => nfail (Exn k) | Unsupported => nfail Unsupported
        end
      end
    end.

  (* check_expression: queries are logged in evaluation order *)
  Definition check_expression (e : expr) (ctx : nat) : N bool :=
    c <~ get_api ctx ;;
    s <~ nget ;;
    nlog (map (fun v => EQuery v (ident_nat (a_uuid c))) (expr_vars e)) ;;~
    match decide expected_ops (ec_orc env) e (ns_q s) with
    | Ok (b, k') => nmod (fun s => s <| ns_q := k' |>) ;;~ nret b
    | Fuel => nfail Fuel | Exn k => nfail (Exn k) | Unsupported => nfail Unsupported
    end.

  Definition counters_of (u : ident) (s : NS) : list (lkey * cval) :=
    match dict_get ident_eqb u (ns_counters s) with Some d => d | None => [] end.
  Definition set_counters (u : ident) (d : list (lkey * cval)) : N unit :=
    nmod (fun s => s <| ns_counters := dict_set ident_eqb u d (ns_counters s) |>).

  Definition trunc (q : Q) : Z := Z.quot (Qnum q) (Zpos (Qden q)).

  (* the mutually recursive core: evaluate_petri_net, the callbacks it runs, the scheduler
     handlers, the engine's reactions, Scheduler.fire_event and PetriNetLogic.fire_event *)
  Fixpoint evaluate (f : nat) {struct f} : N unit :=
    match f with
    | O => nfail Fuel
    | S f' =>
      s0 <~ nget ;;
      (* transitions = list(self.petri_net._trans): transitions added later are not scanned *)
      let snapshot := List.length (ns_trans s0) in
      (fix scan (g : nat) (index : nat) {struct g} : N unit :=
         match g with
         | O => nfail Fuel
         | S g' =>
           if Nat.leb snapshot index then nret tt
           else
             s <~ nget ;;
             match nth_error (ns_trans s) index with
             | None => nret tt
             | Some t =>
               if enabled s t then
                 let cbs := nth index (ns_cbs s) [] in
                 (* for callback in callbacks: if it is on_parallel_loop_started: temp = callback;
                    callbacks.remove(temp)   -- iteration by index over the list being mutated *)
                 let '(temp, cbs1) :=
                     (fix find (h : nat) (i : nat) (l : list cb) (temp : option cb) {struct h} : option cb * list cb :=
                        match h with
                        | O => (temp, l)
                        | S h' =>
                          match nth_error l i with
                          | None => (temp, l)
                          | Some c =>
                            if is_parloop_cb c
                            then find h' (S i) (firstn i l ++ skipn (S i) l) (Some c)
                            else find h' (S i) l temp
                          end
                        end) (S (List.length cbs)) 0 cbs None in
                 match temp with
                 | Some pl =>
                   nmod (fun s => s <| ns_cbs := upd index (fun _ => cbs1) (ns_cbs s) |>) ;;~
                   (* for callback in list(callbacks): callback(); callbacks.remove(callback) *)
                   nfor cbs1 (fun c =>
                                run_cb f' c ;;~
                                nmod (fun s => s <| ns_cbs := upd index
                                                     (fun l => match l with [] => [] | _ :: r => r end) (ns_cbs s) |>)) ;;~
                   run_cb f' pl
                   (* return *)
                 | None =>
                   fire_trans t ;;~
                   (* for callback in callbacks: callback()   -- live list, by index *)
                   (fix each (h : nat) (i : nat) {struct h} : N unit :=
                      match h with
                      | O => nfail Fuel
                      | S h' =>
                        s <~ nget ;;
                        match nth_error (nth index (ns_cbs s) []) i with
                        | None => nret tt
                        | Some c => run_cb f' c ;;~ each h' (S i)
                        end
                      end) (S (S (List.length cbs))) 0 ;;~
                   scan g' 0
                 end
               else scan g' (S index)
             end
         end) f' 0
    end

  with run_cb (f : nat) (c : cb) {struct f} : N unit :=
    match f with
    | O => nfail Fuel
    | S f' =>
      match c with
      | CbTS a => on_task_started f' a
      | CbTF a => on_task_finished f' a
      | CbSS a => on_service_started f' a
      | CbSF a => on_service_finished f' a
      | CbCond e pt pf ctx =>
        b <~ check_expression e ctx ;;
        let ev := EvSetPlace (if b then pt else pf) in
        nmod (fun s => s <| ns_awaited := ns_awaited s ++ [ev] |>) ;;~
        sched_fire_event f' ev ;;~ nret tt
      | CbWhile e pt pf ctx =>
        b <~ check_expression e ctx ;;
        let ev := EvSetPlace (if b then pt else pf) in
        nmod (fun s => s <| ns_awaited := ns_awaited s ++ [ev] |>) ;;~
        sched_fire_event f' ev ;;~ nret tt
      | CbCount key lim pt pf ctx =>
        cx <~ get_api ctx ;;
        s <~ nget ;;
        let u := a_uuid cx in
        let d := counters_of u s in
        let cnt := match dict_get lkey_eqb (KLoop key) d with
                   | None => 0
                   | Some (CInt n) => S n
                   | Some (CPar _) => 0      (* never stored under a loop key *)
                   end in
        set_counters u (dict_set lkey_eqb (KLoop key) (CInt cnt) d) ;;~
        l <~ get_loop_limit lim ctx ;;
        if Qlt_bool (inject_Z (Z.of_nat cnt)) l
        then
          let ev := EvSetPlace pt in
          nmod (fun s => s <| ns_awaited := ns_awaited s ++ [ev] |>) ;;~
          sched_fire_event f' ev ;;~ nret tt
        else
          s <~ nget ;;
          set_counters u (dict_del lkey_eqb (KLoop key) (counters_of u s)) ;;~
          let ev := EvSetPlace pf in
          nmod (fun s => s <| ns_awaited := ns_awaited s ++ [ev] |>) ;;~
          sched_fire_event f' ev ;;~ nret tt
      | CbParLoop v lim ctx c csite ph t1 t2 =>
        l <~ get_loop_limit lim ctx ;;
        (if Qlt_bool 0 l
         then
           nfor (seq 0 (Z.to_nat (trunc l)))
                (fun _ =>
                   generate_task_call tasks 200 c csite ctx t1 t2 true ;;~
                   cx <~ get_api ctx ;;
                   s <~ nget ;;
                   set_counters (a_uuid cx)
                                (dict_set lkey_eqb (KVar v) (CPar (-1)) (counters_of (a_uuid cx) s)))
         else generate_empty_parallel_loop t1 t2) ;;~
        (* remove_place_on_runtime *)
        s <~ nget ;;
        (if has_place s ph then remove_place ph else nret tt) ;;~
        evaluate f'
      end
    end

  with on_task_started (f : nat) (ai : nat) {struct f} : N unit :=
    match f with
    | O => nfail Fuel
    | S f' =>
      a <~ get_api ai ;;
      s <~ nget ;;
      (if a_in_loop a
       then
         u <~ new_test_or_uuid true ;;
         set_api ai (with_uuid u) ;;~
         (if a_has_call a then set_api ai (with_params (a_src a)) else nret tt) ;;~
         substitute_loop_indexes ai
       else if ns_test_ids s
            then u <~ new_test_or_uuid true ;; set_api ai (with_uuid u)
            else nret tt) ;;~
      notify_user f' TS ai false
    end

  with on_service_started (f : nat) (ai : nat) {struct f} : N unit :=
    match f with
    | O => nfail Fuel
    | S f' =>
      a <~ get_api ai ;;
      s <~ nget ;;
      let rebind (u : ident) : N unit :=
          s <~ nget ;;
          match dict_get ident_eqb (a_uuid a) (ns_place_dict s) with
          | None => nfail (Exn KeyError)
          | Some p => nmod (fun s => s <| ns_place_dict := (u, p) :: ns_place_dict s |>) ;;~
                      set_api ai (with_uuid u)
          end in
      (if a_in_loop a
       then
         (* new_uuid = str(uuid.uuid4()) is drawn even in test-id mode *)
         u0 <~ fresh_uuid ;;
         u <~ (if ns_test_ids s then new_test_or_uuid false else nret u0) ;;
         rebind u ;;~
         set_api ai (with_params (a_src a)) ;;~
         substitute_loop_indexes ai
       else if ns_test_ids s
            then u <~ new_test_or_uuid false ;; rebind u
            else nret tt) ;;~
      a' <~ get_api ai ;;
      nmod (fun s => s <| ns_awaited := ns_awaited s ++ [EvFinish (a_uuid a')] |>) ;;~
      notify_user f' SS ai false
    end

  with on_service_finished (f : nat) (ai : nat) {struct f} : N unit :=
    match f with
    | O => nfail Fuel
    | S f' => notify_user f' SF ai false
    end

  with on_task_finished (f : nat) (ai : nat) {struct f} : N unit :=
    match f with
    | O => nfail Fuel
    | S f' =>
      a <~ get_api ai ;;
      let is_start := Nat.eqb (a_name a) production_task in
      (* the registered functions run first; running is cleared before the observers' entry *)
      notify_user f' TF ai is_start
    end

  (* every registered function of the kind in registration order (function 0 is the recording
     execution engine, which may react), then the LOG_EVENT entry for every observer.  For the
     production task's finished notification [Scheduler.running] is cleared in between. *)
  with notify_user (f : nat) (k : nkind) (ai : nat) (order_finished : bool) {struct f} : N unit :=
    match f with
    | O => nfail Fuel
    | S f' =>
      s0 <~ nget ;;
      (fix each (h : nat) (i : nat) {struct h} : N unit :=
         match h with
         | O => nfail Fuel
         | S h' =>
           (* for callback in self.task_callbacks.<kind>: the live list *)
           s <~ nget ;;
           match nth_error (listeners_of k (ns_ls s)) i with
           | None => nret tt
           | Some l =>
             a <~ get_api ai ;;
             nlog [ENotif l (notif_of s k a) (ns_running s)] ;;~
             (if Nat.eqb l 0 then engine_reacts f' k ai else nret tt) ;;~
             each h' (S i)
           end
         end) (S (List.length (ns_ls s0))) 0 ;;~
      (if order_finished then nmod (fun s => s <| ns_running := false |>) else nret tt) ;;~
      a <~ get_api ai ;;
      s <~ nget ;;
      nlog (map (fun o => EObs o k (a_name a) (ident_nat (a_uuid a)) order_finished) (ns_obs s))
    end

  (* the recording execution engine (harness/impl_run.py: on_ts / on_tf / on_ss / on_sf) *)
  with engine_reacts (f : nat) (k : nkind) (ai : nat) {struct f} : N unit :=
    match f with
    | O => nfail Fuel
    | S f' =>
      a <~ get_api ai ;;
      let id := a_uuid a in
      (match k with
       | SS => nmod (fun s => s <| ns_pending := ns_pending s ++ [id] |>)
       | SF => nmod (fun s => s <| ns_pending :=
                                 match remove_first (ident_eqb id) (ns_pending s) with
                                 | Some l => l | None => ns_pending s end |>)
       | _ => nret tt
       end) ;;~
      (match k with
       | TS | SS => set_api ai (with_params (hostile (ec_mutate env) (a_params a)))
       | _ => nret tt
       end) ;;~
      (match k with
       | SS =>
         s <~ nget ;;
         nmod (fun s => s <| ns_nss := S (ns_nss s) |>) ;;~
         if ec_imm env (ns_nss s)
         then sched_fire_event f' (EvFinish (a_uuid a)) ;;~ nret tt
         else nret tt
       | _ => nret tt
       end) ;;~
      s <~ nget ;;
      nmod (fun s => s <| ns_nnot := S (ns_nnot s) |>) ;;~
      match (if ec_react_all env || match k with TS | SS => true | _ => false end
             then ec_react env (ns_nnot s) else None), ns_pending s with
      | Some j, p0 :: prest =>
        let pend := p0 :: prest in
        let sid := nth (Nat.modulo j (List.length pend)) pend p0 in
        nlog [EFireIn (ident_nat sid)] ;;~
        r <~ sched_fire_event f' (EvFinish sid) ;;
        nlog [EFireOut (ident_nat sid) r]
      | _, _ => nret tt
      end
    end

  (* Scheduler._fire_event (the public fire_event forwards service-finished events to it) *)
  with sched_fire_event (f : nat) (ev : event) {struct f} : N bool :=
    match f with
    | O => nfail Fuel
    | S f' =>
      s <~ nget ;;
      if existsb (event_eqb ev) (ns_awaited s)
      then
        (* the event stops being awaited before it is forwarded to the net *)
        match remove_first (event_eqb ev) (ns_awaited s) with
        | None => nfail (Exn ValueError)
        | Some l =>
          nmod (fun s => s <| ns_awaited := l |>) ;;~
          r <~ logic_fire_event f' ev ;;
          if r then nret true
          else nmod (fun s => s <| ns_awaited := ns_awaited s ++ [ev] |>) ;;~ nret false
        end
      else nret false
    end

  (* PetriNetLogic.fire_event *)
  with logic_fire_event (f : nat) (ev : event) {struct f} : N bool :=
    match f with
    | O => nfail Fuel
    | S f' =>
      s <~ nget ;;
      match (match ev with
             | EvStart => Ok (Some (ns_start_place s))
             | EvSetPlace p => Ok (Some p)
             | EvFinish id => match dict_get ident_eqb id (ns_place_dict s) with
                              | Some p => Ok (Some p)
                              | None => Exn KeyError
                              end
             | EvJunk => Ok None
             end) with
      | Ok (Some p) =>
        if has_place s p
        then place_add p ;;~ evaluate f' ;;~ nret true
        else nret false
      | Ok None => nret false
      | Fuel => nfail Fuel | Exn k => nfail (Exn k) | Unsupported => nfail Unsupported
      end
    end.
End Sched.

(* =========================================================================== *)
(* the public API of one scheduler                                              *)
(* =========================================================================== *)
Definition ns0 (test_ids : bool) : NS :=
  {| ns_places := []; ns_trans := []; ns_cbs := []; ns_place_dict := []; ns_apis := [];
     ns_start_place := 0; ns_final_place := 0; ns_fresh := 0; ns_test_ids := test_ids;
     ns_awaited := [EvStart]; ns_running := false; ns_counters := []; ns_tid := 0; ns_sid := 0;
     ns_ls := default_listeners; ns_obs := []; ns_log := []; ns_q := 0; ns_nss := 0; ns_nnot := 0;
     ns_pending := [] |}.

(* Scheduler(...): generate_petri_net, then the start event is awaited *)
Definition net_init (tasks : list task) (test_ids : bool) : res NS :=
  match generate_petri_net tasks 200 (ns0 test_ids) with
  | Ok (_, s) => Ok s
  | Fuel => Fuel | Exn k => Exn k | Unsupported => Unsupported
  end.

Section NetApi.
  Variable tasks : list task.
  Variable env : envcfg.

  Definition net_api_call (f : nat) (s : NS) (c : apicall) : res (bool * NS) :=
    let s := s <| ns_log := [] |> in
    match c with
    | AStart =>
      if existsb (event_eqb EvStart) (ns_awaited s)
      then match sched_fire_event tasks env f EvStart (s <| ns_running := true |>) with
           | Ok (_, s') => Ok (true, s')
           | Fuel => Fuel | Exn k => Exn k | Unsupported => Unsupported
           end
      else Ok (true, s)
    (* the public Scheduler.fire_event forwards service-finished events only (to _fire_event =
       [sched_fire_event]); every other event type is rejected at the gate *)
    | AFinish id => sched_fire_event tasks env f (EvFinish (ITest id)) s
    | AJunk => sched_fire_event tasks env f EvJunk s     (* never awaited: rejected, state unchanged *)
    | ARegister k l =>
      if existsb (fun p => nkind_eqb (fst p) k && Nat.eqb (snd p) l) (ns_ls s)
      then Ok (false, s)
      else Ok (true, s <| ns_ls := ns_ls s ++ [(k, l)] |>)
    | AAttach o => Ok (true, s <| ns_obs := ns_obs s ++ [o] |>)
    | ADetach o =>
      match remove_first (Nat.eqb o) (ns_obs s) with
      | Some l => Ok (true, s <| ns_obs := l |>)
      | None => Exn ValueError
      end
    end.

  (* the marking is exactly one token, in the production task's finished place *)
  Definition net_final (s : NS) : bool :=
    Nat.eqb (tokens s (ns_final_place s)) 1
    && Nat.eqb (fold_left (fun acc p => acc + match p with Some k => k | None => 0 end) (ns_places s) 0) 1.

  Definition net_observe (ret_ : bool) (s : NS) : callrec :=
    {| cr_ret := ret_; cr_log := rev (ns_log s); cr_running := ns_running s;
       cr_awaited := flat_map (fun e => match e with EvFinish i => [ident_nat i] | _ => [] end) (ns_awaited s);
       cr_final := net_final s |}.

  Fixpoint net_run_script (f : nat) (s : NS) (cs : list apicall) : res (list callrec) :=
    match cs with
    | [] => Ok []
    | c :: r =>
      rbind (net_api_call f s c) (fun '(b, s') =>
      rbind (net_run_script f s' r) (fun t => Ok (net_observe b s' :: t)))
    end.
End NetApi.
