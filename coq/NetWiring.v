(* NetWiring.v — the net-construction table NetModel.v was transliterated from, method by
   method of petri_net/generator.py: every create_place / create_transition / add_input /
   add_output / add_callback / place_dict entry / API object / recursive generation, in source
   order, local names as v0, v1, ... (parameters first, then locals in order of first
   occurrence; coq/Gen/Wiring.v lists the source names).  Read next to NetModel.generate_*:
   each definition there performs exactly these operations in this order.  tools/gen_wiring.py
   regenerates the same table from the current source on every run (coq/Gen/Wiring.v) and
   coq/Gen/ObligationsWiring.v proves the two equal; [expected_digests] pins the normalised
   ASTs of the control-flow functions that NetModel.v mirrors by hand (evaluate_petri_net,
   fire_event, start, the on_* handlers, ...): an edit there re-opens the question whether the
   model still mirrors the code, which the correspondence then has to answer.
   Model support file (a record of the source, no proofs). *)
From Coq Require Import String List.
Import ListNotations.
Local Open Scope string_scope.

Inductive wop :=
| WPlace (x : string)                              (* x = create_place(...) *)
| WTrans (x : string)                              (* x = create_transition(...) *)
| WIn (p t : string)                               (* net.add_input(p, t, Value(1)) *)
| WOut (p t : string)                              (* net.add_output(p, t, Value(1)) *)
| WCb (t k : string) (args : list string)          (* add_callback(t, callbacks.k, args...) *)
| WDict (key v : string)                           (* place_dict[key] = v *)
| WApi (x kind inloop : string)                    (* x = ServiceAPI(...) / TaskAPI(...) *)
| WLet (x e : string)
| WSet (x e : string)
| WBody (res stmts a b inloop : string)            (* res = generate_statements(ctx, stmts, a, b, node, inloop) *)
| WCall (c a b inloop : string)                    (* generate_task_call(c, ctx, a, b, node, inloop) *)
| WRemove (p : string)                             (* net.remove_place(p) *)
| WFor (over : string) (body : list wop)
| WIf (test : string) (th el : list wop)
| WRet (xs : list string)
| WRetCall (m : string).

Definition expected_wiring : list (string * list wop) :=
[
  ("generate_petri_net",
     [(WLet "v1" "v0.tasks[v0.start_task_name]");
      (WApi "v3" "root" "False");
      (WIf "self.generate_test_ids" [(WSet "v3.uuid" "'0'")] []);
      (WPlace "self.task_started_uuid");
      (WTrans "v4");
      (WCb "v4" "task_started" ["v3"]);
      (WIn "self.task_started_uuid" "v4");
      (WPlace "self.task_finished_uuid");
      (WTrans "v5");
      (WBody "_" "v1.statements" "v4" "v5" "False");
      (WOut "self.task_finished_uuid" "v5");
      (WCb "v5" "task_finished" ["v3"]);
      (WRet ["self.net"])]);
  ("generate_service",
     [(WApi "v8" "service" "v5");
      (WPlace "v9");
      (WPlace "v10");
      (WDict "v8.uuid" "v10");
      (WPlace "v11");
      (WTrans "v12");
      (WCb "v2" "service_started" ["v8"]);
      (WCb "v12" "service_finished" ["v8"]);
      (WIn "v9" "v12");
      (WIn "v10" "v12");
      (WOut "v11" "v12");
      (WOut "v9" "v2");
      (WIn "v11" "v3");
      (WRet ["v12"])]);
  ("generate_task_call",
     [(WLet "v6" "self.tasks[v0.name]");
      (WApi "v7" "task" "v5");
      (WCb "v2" "task_started" ["v7"]);
      (WBody "v10" "v6.statements" "v2" "v3" "v5");
      (WFor "v10" [(WCb "v11" "task_finished" ["v7"])]);
      (WRet ["v10"])]);
  ("generate_parallel",
     [(WTrans "v8");
      (WPlace "v9");
      (WFor "v0.task_calls" [(WCall "v11" "v2" "v8" "v5")]);
      (WOut "v9" "v8");
      (WIn "v9" "v3");
      (WRet ["v8"])]);
  ("generate_condition",
     [(WPlace "v8");
      (WPlace "v9");
      (WPlace "v10");
      (WTrans "v11");
      (WTrans "v12");
      (WIn "v10" "v11");
      (WIn "v10" "v12");
      (WIn "v8" "v11");
      (WIn "v9" "v12");
      (WPlace "v13");
      (WTrans "v14");
      (WOut "v13" "v14");
      (WBody "_" "v0.passed_stmts" "v11" "v14" "v5");
      (WOut "v10" "v2");
      (WIn "v13" "v3");
      (WCb "v2" "condition_started" ["v0"; "v8"; "v9"; "v1"]);
      (WIf "v0.failed_stmts" [(WTrans "v18");
      (WBody "_" "v0.failed_stmts" "v12" "v18" "v5");
      (WOut "v13" "v18");
      (WRet ["v14"; "v18"])] [(WOut "v13" "v12");
      (WRet ["v14"; "v12"])])]);
  ("generate_counting_loop",
     [(WIf "v0.parallel" [(WRetCall "generate_parallel_loop")] []);
      (WPlace "v8");
      (WPlace "v10");
      (WPlace "v11");
      (WTrans "v12");
      (WTrans "v13");
      (WTrans "v14");
      (WIn "v8" "v12");
      (WIn "v10" "v12");
      (WIn "v8" "v13");
      (WIn "v11" "v13");
      (WOut "v8" "v14");
      (WPlace "v15");
      (WBody "_" "v0.statements" "v12" "v14" "True");
      (WOut "v15" "v13");
      (WOut "v8" "v2");
      (WIn "v15" "v3");
      (WCb "v2" "counting_loop_started" ["v0"; "v10"; "v11"; "v1"]);
      (WCb "v14" "counting_loop_started" ["v0"; "v10"; "v11"; "v1"]);
      (WRet ["v13"])]);
  ("generate_parallel_loop",
     [(WPlace "v7");
      (WOut "v7" "v2");
      (WIn "v7" "v3");
      (WCb "v2" "parallel_loop_started" ["v0"; "v1"; "v0.statements[0]"; "v7"; "v2"; "v3"; "v6"]);
      (WRet ["v3"])]);
  ("generate_while_loop",
     [(WPlace "v8");
      (WPlace "v10");
      (WPlace "v11");
      (WTrans "v12");
      (WTrans "v13");
      (WTrans "v14");
      (WIn "v8" "v12");
      (WIn "v10" "v12");
      (WIn "v8" "v13");
      (WIn "v11" "v13");
      (WOut "v8" "v14");
      (WPlace "v15");
      (WBody "_" "v0.statements" "v12" "v14" "True");
      (WOut "v8" "v2");
      (WIn "v15" "v3");
      (WCb "v2" "while_loop_started" ["v0"; "v10"; "v11"; "v1"]);
      (WCb "v14" "while_loop_started" ["v0"; "v10"; "v11"; "v1"]);
      (WOut "v15" "v13");
      (WRet ["v13"])]);
  ("generate_empty_parallel_loop",
     [(WPlace "v3");
      (WOut "v3" "v0");
      (WIn "v3" "v1")]);
  ("remove_place_on_runtime",
     [(WIf "self.net.has_place(v0)" [(WRemove "v0")] [])])
].


Definition expected_digests : list (string * string) :=
[
  ("petri_net/logic.py:PetriNetLogic.evaluate_petri_net", "ac4e737218e2a1ff2d0671d4008bd10d");
  ("petri_net/logic.py:PetriNetLogic.fire_event", "5b85cf65ee9ea2defec7101f38d733c7");
  ("petri_net/generator.py:PetriNetGenerator.generate_statements", "c7d7a8ef3436cc0d2a002d92d9b5b565");
  ("petri_net/generator.py:PetriNetGenerator.add_callback", "9e1ed7b1a03fd3e190e099e546bfb3fa");
  ("scheduler.py:Scheduler.fire_event", "32f33b64ac0a4266b26cab34f645254f");
  ("scheduler.py:Scheduler._fire_event", "3082770a5c01db77195052ef785bb805");
  ("scheduler.py:Scheduler.start", "9f2241e6c39796db437ea96a4000942a");
  ("scheduler.py:Scheduler.on_task_started", "2eb99279b3c73381d423f5fd56a3ac77");
  ("scheduler.py:Scheduler.on_service_started", "e3462fc3655837add7a8d441c4bc51dc");
  ("scheduler.py:Scheduler.on_service_finished", "8f7dd9ec57a0db244613bc54f3947f40");
  ("scheduler.py:Scheduler.on_task_finished", "149843c647bc9fde485e6a6e4a06efb4");
  ("scheduler.py:Scheduler.on_condition_started", "01634c5e3cd09c4b26a9b2cd0fb9f2e6");
  ("scheduler.py:Scheduler.on_while_loop_started", "599096f9a493edc69a0f2c1f2b228ac9");
  ("scheduler.py:Scheduler.on_counting_loop_started", "c46eff612cb909ea119173d4ae7a6cf4");
  ("scheduler.py:Scheduler.on_parallel_loop_started", "2470ea92ebd33c0a056d8f9883359fbe");
  ("scheduler.py:Scheduler.substitute_loop_indexes", "9f7ced06c410254d46a243896e8df181");
  ("scheduler.py:Scheduler.get_loop_limit", "a113c65b1aa9bac178dba100d7548df2");
  ("scheduler.py:Scheduler.attach", "6a06e1f67a4ddbca11bb05f43a108e02");
  ("scheduler.py:Scheduler.detach", "b075bcbc769c726715a2a1d7881b8954");
  ("scheduler.py:Scheduler.notify", "4a443ce4d35f9388c88a0c2dd2749f11");
  ("scheduler.py:Scheduler.register_callback_task_started", "d692adcb07460b3e0f9d70599a720eb4");
  ("scheduler.py:Scheduler.register_callback_service_started", "9b3ae7bf5f99d8409fbde1fa74623661");
  ("scheduler.py:Scheduler.register_callback_service_finished", "1bec893712d7d9ef40b786aaccef39a2");
  ("scheduler.py:Scheduler.register_callback_task_finished", "68f7a86e1858cd3c369752a82ff2add6");
  ("scheduler.py:Scheduler.register_variable_access_function", "e310aeaf76c0491018f27f4e1750eb4c");
  ("scheduler.py:Scheduler.register_for_petrinet_callbacks", "d39193d4c2e18a5496bedc0135456b3d");
  ("scheduler.py:Scheduler.check_expression", "cd9d55733d4438335ee1fcade8951d7d");
  ("scheduler.py:Scheduler.execute_expression", "ade4a39ff2b22d5ba146ff1b864a6021")
].
