(* TextPipelineFuel.v — the parser never runs out of the fuel FrontEnd.fuel_for gives it: for
   every rule F of Front/Parser.v and of TextPipeline.v, every token list ts and every fuel
   f >= 2 * |ts| + k_F the result F f ts is not FFuel, and the input that remains after a
   successful parse is shorter ([gd]).  Two units of fuel per token are needed because the
   JSON rules and the expression rules descend two calls per opening bracket / prefix
   operator.  Main result: [gparse_program_fuel]. *)
From PFDL Require Import Base Syntax.
From PFDL.Front Require Import CharLexer FrontEnd.
From PFDL Require Import TextPipeline.
From Coq Require Import Lia Ascii.

(* ------------------------------------------------------------------------------------ *)
(* results that are not FFuel and whose remaining input is shorter                       *)
(* ------------------------------------------------------------------------------------ *)
(* a parse or a syntax error: not out of fuel, and none of the two outcomes FVisitor /
   FUnsupported that only [top_expr] and the visitor check of the front end produce *)
Definition nf {A} (r : fres A) : Prop :=
  match r with FOk _ | FSyntax => True | _ => False end.
(* [gd n k r]: r is [nf], and when it is FOk (_, rest) then |rest| + k <= n *)
Definition gd {A} (n k : nat) (r : fres (A * toks)) : Prop :=
  nf r /\ forall a r', r = FOk (a, r') -> List.length r' + k <= n.
Definition gdt (n k : nat) (r : fres toks) : Prop :=
  nf r /\ forall r', r = FOk r' -> List.length r' + k <= n.

Lemma gd_bind : forall A B n1 k1 n k (r : fres (A * toks)) (g : A * toks -> fres (B * toks)),
  gd n1 k1 r ->
  (forall a r', List.length r' + k1 <= n1 -> gd n k (g (a, r'))) ->
  gd n k (fbind r g).
Proof.
  intros A B n1 k1 n k r g [Hn Hs] Hg.
  destruct r as [[a r']| | | |]; simpl; try (split; [exact I | intros; discriminate]); try destruct Hn.
  apply Hg. apply (Hs a r'). reflexivity.
Qed.

Lemma gdt_bind : forall B n1 k1 n k (r : fres toks) (g : toks -> fres (B * toks)),
  gdt n1 k1 r ->
  (forall r', List.length r' + k1 <= n1 -> gd n k (g r')) ->
  gd n k (fbind r g).
Proof.
  intros B n1 k1 n k r g [Hn Hs] Hg.
  destruct r as [r'| | | |]; simpl; try (split; [exact I | intros; discriminate]); try destruct Hn.
  apply Hg. apply (Hs r'). reflexivity.
Qed.

Lemma gd_bind_plain : forall A B n k (r : fres A) (g : A -> fres (B * toks)),
  nf r -> (forall a, gd n k (g a)) -> gd n k (fbind r g).
Proof.
  intros A B n k r g Hn Hg.
  destruct r; simpl; try (split; [exact I | intros; discriminate]); try destruct Hn.
  apply Hg.
Qed.

Lemma nf_bind_gd : forall A B n1 k1 (r : fres (A * toks)) (g : A * toks -> fres B),
  gd n1 k1 r ->
  (forall a r', List.length r' + k1 <= n1 -> nf (g (a, r'))) ->
  nf (fbind r g).
Proof.
  intros A B n1 k1 r g [Hn Hs] Hg.
  destruct r as [[a r']| | | |]; simpl; try exact I; try destruct Hn.
  apply Hg. apply (Hs a r'). reflexivity.
Qed.

Lemma nf_bind_plain : forall A B (r : fres A) (g : A -> fres B),
  nf r -> (forall a, nf (g a)) -> nf (fbind r g).
Proof.
  intros A B r g Hn Hg. destruct r; simpl; try exact I; try destruct Hn.
  apply Hg.
Qed.

Lemma gd_mono : forall A n1 k1 n k (r : fres (A * toks)),
  gd n1 k1 r -> (forall m, m + k1 <= n1 -> m + k <= n) -> gd n k r.
Proof.
  intros A n1 k1 n k r [Hn Hs] Hm. split; [exact Hn|].
  intros a r' He. apply Hm. apply (Hs a r' He).
Qed.

Ltac gd_triv :=
  split; [exact I | intros; try discriminate;
          match goal with He : FOk _ = FOk _ |- _ => inversion He; subst; clear He end;
          simpl in *; lia].

Ltac gd_syntax := split; [exact I | intros; discriminate].

(* destruct every variable the goal's head matches on *)
Ltac split_matches :=
  repeat match goal with
         | |- context [match ?x with _ => _ end] => is_var x; destruct x
         end.

Lemma skip_nls_le : forall r, List.length (skip_nls r) <= List.length r.
Proof. induction r as [|[]]; simpl; lia. Qed.

Lemma gdt_expect_indent : forall ts, gdt (List.length ts) 1 (expect_indent ts).
Proof. intros ts. unfold expect_indent. split_matches; gd_triv. Qed.

Lemma gdt_expect_dedent : forall ts, gdt (List.length ts) 1 (expect_dedent ts).
Proof. intros ts. unfold expect_dedent. split_matches; gd_triv. Qed.

Lemma gdt_nl_plus : forall ts, gdt (List.length ts) 1 (nl_plus ts).
Proof.
  intros ts. unfold nl_plus. split_matches; try gd_triv.
  split; [exact I|]. intros r' He. inversion He; subst. pose proof (skip_nls_le ts). simpl. lia.
Qed.

Lemma gd_prim : forall ts, gd (List.length ts) 1 (parse_prim ts).
Proof. intros ts. unfold parse_prim. split_matches; gd_triv. Qed.

Lemma gd_array : forall ts, gd (List.length ts) 2 (parse_array ts).
Proof. intros ts. unfold parse_array. split_matches; gd_triv. Qed.

Lemma gd_vtype : forall ts, gd (List.length ts) 1 (parse_vtype ts).
Proof.
  intros ts. unfold parse_vtype.
  eapply gd_bind; [apply gd_prim|]. intros p r Hr; simpl.
  destruct (starts_array r).
  - eapply gd_bind; [apply gd_array|]. intros l r' Hr'; simpl. gd_triv.
  - gd_triv.
Qed.

Lemma gd_vardef : forall ts, gd (List.length ts) 3 (parse_vardef ts).
Proof.
  intros ts. unfold parse_vardef.
  destruct ts as [|[t| | | |] ts]; try gd_syntax. destruct t; try gd_syntax.
  destruct ts as [|[t| | | |] ts]; try gd_syntax. destruct t; try gd_syntax.
  eapply gd_bind; [apply gd_vtype|]. intros t r Hr; simpl. gd_triv.
Qed.

Lemma gd_vardefs : forall f ts,
  2 * List.length ts + 1 <= f -> gd (List.length ts) 4 (parse_vardefs f ts).
Proof.
  induction f; intros ts Hf; [lia|]. simpl.
  eapply gd_bind; [apply gd_vardef|]. intros d r Hr; simpl.
  eapply gdt_bind; [apply gdt_nl_plus|]. intros r1 Hr1.
  destruct (starts_lower r1).
  - eapply gd_bind; [apply IHf; lia|]. intros ds r2 Hr2; simpl. gd_triv.
  - gd_triv.
Qed.

Lemma gd_vardef_block : forall f ts,
  2 * List.length ts <= f -> gd (List.length ts) 6 (parse_vardef_block f ts).
Proof.
  intros f ts Hf. unfold parse_vardef_block.
  eapply gdt_bind; [apply gdt_expect_indent|]. intros r Hr.
  eapply gd_bind; [apply gd_vardefs; lia|]. intros ds r1 Hr1; simpl.
  eapply gdt_bind; [apply gdt_expect_dedent|]. intros r2 Hr2. gd_triv.
Qed.

Lemma gd_path_tail : forall f ts,
  2 * List.length ts + 1 <= f -> gd (List.length ts) 0 (parse_path_tail f ts).
Proof.
  induction f; intros ts Hf; [lia|]. simpl.
  destruct ts as [|[t| | | |] ts]; try gd_triv.
  destruct t; try gd_triv.
  destruct ts as [|[t| | | |] ts]; try gd_syntax.
  destruct t; try gd_syntax.
  destruct (starts_array ts).
  - eapply gd_bind; [apply gd_array|]. intros l r1 Hr1; simpl.
    eapply gd_bind; [apply IHf; simpl in *; lia|]. intros p r2 Hr2; simpl. gd_triv.
  - eapply gd_bind; [apply IHf; simpl in *; lia|]. intros p r2 Hr2; simpl. gd_triv.
Qed.

Lemma gd_path_rest : forall f ts,
  2 * List.length ts + 1 <= f -> gd (List.length ts) 0 (parse_path_rest f ts).
Proof.
  intros f ts Hf. unfold parse_path_rest. destruct (starts_dot ts); [apply gd_path_tail; exact Hf | gd_syntax].
Qed.

(* ---- automation: one step of a proof of [gd n k (F f ts)] ---- *)
Ltac use_gd :=
  first
  [ apply gdt_expect_indent | apply gdt_expect_dedent | apply gdt_nl_plus
  | apply gd_prim | apply gd_array | apply gd_vtype | apply gd_vardef
  | apply gd_vardefs; simpl in *; lia | apply gd_vardef_block; simpl in *; lia
  | apply gd_path_tail; simpl in *; lia | apply gd_path_rest; simpl in *; lia
  | match goal with H : _ |- _ => apply H; simpl in *; lia end ].

Ltac gd_step use :=
  match goal with
  | |- gd _ _ (FOk _) => gd_triv
  | |- gd _ _ FSyntax => gd_syntax
  | |- gd _ _ (if ?b then _ else _) => destruct b
  | |- gd _ _ (match ?x with _ => _ end) => is_var x; destruct x
  | |- gd _ _ (fbind _ _) =>
    first [ eapply gd_bind; [use|]; intros ? ? ?; simpl
          | eapply gdt_bind; [use|]; intros ? ?; simpl ]
  | |- gd _ _ _ => progress simpl
  | |- gd _ _ _ => eapply gd_mono; [use | intros; simpl in *; lia]
  end.

Ltac gd_auto := repeat (gd_step use_gd).

(* ---- JSON ---- *)
Lemma gd_json : forall f,
  (forall ts, 2 * List.length ts + 2 <= f -> gd (List.length ts) 1 (parse_json_value f ts)) /\
  (forall ts, 2 * List.length ts + 3 <= f -> gd (List.length ts) 1 (parse_json_elems f ts)) /\
  (forall ts, 2 * List.length ts + 1 <= f -> gd (List.length ts) 2 (parse_json_object f ts)) /\
  (forall ts, 2 * List.length ts + 1 <= f -> gd (List.length ts) 3 (parse_json_pairs f ts)).
Proof.
  induction f as [|f [IHv [IHe [IHo IHp]]]].
  - repeat split; intros; lia.
  - repeat apply conj; intros ts Hf; simpl; gd_auto.
Qed.

Lemma gd_json_object : forall f ts,
  2 * List.length ts + 1 <= f -> gd (List.length ts) 2 (parse_json_object f ts).
Proof. intros f. apply (gd_json f). Qed.

(* ---- expressions ---- *)
Ltac gd_step2 use :=
  first [ gd_step use
        | match goal with
          | |- gd _ _ (match ?x with _ => _ end) => destruct x eqn:?
          end ].

(* unfolding equations (simpl does not refold the mutual fixpoints of a closed section) *)
Lemma parse_expr_S' : forall T nl f p ts,
  parse_expr T nl (S f) p ts = (do '(lhs, r) <- parse_primary T nl f ts ;; parse_ops T nl f p lhs r).
Proof. reflexivity. Qed.

Lemma parse_primary_S' : forall T nl f ts,
  parse_primary T nl (S f) ts =
  match ts with
  | DTok PLParen :: r =>
    do '(e, r1) <- parse_expr T nl f impl_paren_level r ;;
    match r1 with
    | DTok PRParen :: r2 => FOk (EParen e, r2)
    | _ => FSyntax
    end
  | DTok OpNot :: r =>
    do '(e, r1) <- parse_expr T nl f nl r ;; FOk (ENot e, r1)
  | DTok KTrue :: r => FOk (EBool true, r)
  | DTok KFalse :: r => FOk (EBool false, r)
  | DTok OpMinus :: DTok (TInt n) :: r => FOk (ENum (Qopp (q_of_nat n)), r)
  | DTok OpMinus :: DTok (TFloat q) :: r => FOk (ENum (Qopp q), r)
  | DTok (TInt n) :: r => FOk (ENum (q_of_nat n), r)
  | DTok (TFloat q) :: r => FOk (ENum q, r)
  | DTok (TStr s) :: r => FOk (EStr s, r)
  | DTok (TLower v) :: r =>
    do '(p, r1) <- parse_path_rest f r ;; FOk (EPath v p, r1)
  | _ => FSyntax
  end.
Proof. reflexivity. Qed.

Lemma parse_ops_S' : forall T nl f p lhs ts,
  parse_ops T nl (S f) p lhs ts =
  match ts with
  | DTok t :: r =>
    match op_class t with
    | Some (o, c) =>
      match lookup_level c T with
      | Some (lv, rhs_level) =>
        if p <=? lv then
          do '(rhs, r1) <- parse_expr T nl f rhs_level r ;;
          parse_ops T nl f p (EBin o lhs rhs) r1
        else FOk (lhs, ts)
      | None => FSyntax
      end
    | None => FOk (lhs, ts)
    end
  | _ => FOk (lhs, ts)
  end.
Proof. reflexivity. Qed.

Lemma gd_expr : forall T nl f,
  (forall p ts, 2 * List.length ts + 2 <= f -> gd (List.length ts) 1 (parse_expr T nl f p ts)) /\
  (forall ts, 2 * List.length ts + 1 <= f -> gd (List.length ts) 1 (parse_primary T nl f ts)) /\
  (forall p lhs ts, 2 * List.length ts + 1 <= f -> gd (List.length ts) 0 (parse_ops T nl f p lhs ts)).
Proof.
  intros T nl. induction f as [|f [IHe [IHp IHo]]].
  - repeat split; intros; lia.
  - repeat apply conj; intros.
    + rewrite parse_expr_S'. repeat (gd_step2 use_gd).
    + rewrite parse_primary_S'. repeat (gd_step2 use_gd).
    + rewrite parse_ops_S'. repeat (gd_step2 use_gd).
Qed.

Lemma gd_parse_expr : forall T nl f p ts,
  2 * List.length ts + 2 <= f -> gd (List.length ts) 1 (parse_expr T nl f p ts).
Proof. intros T nl f. apply (gd_expr T nl f). Qed.

(* ---- the statement-level rules of TextPipeline.v ---- *)
Section GenericFuel.
  Variable top : expr -> fres expr.
  Variable norm : json -> json.
  Variable T : level_table.
  Variable nl : nat.
  Hypothesis top_nofuel : forall e, nf (top e).

  Notation gparam := (gparse_param norm).
  Notation gparams := (gparse_params norm).
  Notation gcall_body := (gparse_call_body norm).
  Notation gcall_rest := (gparse_call_rest norm).
  Notation gtask_calls := (gparse_task_calls norm).
  Notation gstmt := (gparse_stmt top norm T nl).
  Notation gcounting := (gparse_counting top norm T nl).
  Notation gblock := (gparse_block top norm T nl).
  Notation gstmts := (gparse_stmts top norm T nl).
  Notation gtask := (gparse_task top norm T nl).
  Notation gprogram := (gparse_program top norm T nl).

  Lemma gparse_stmt_S : forall f ts,
    gstmt (S f) ts =
    match ts with
    | DTok (TUpper n) :: r =>
      do '((ins, outs), r1) <- gcall_rest f r ;; FOk (SService n ins outs, r1)
    | DTok (TLower n) :: r =>
      do '((ins, outs), r1) <- gcall_rest f r ;;
      FOk (SCall {| c_name := n; c_ins := ins; c_outs := outs |}, r1)
    | DTok KParallel :: DTok KLoop :: r => gcounting f true r
    | DTok KParallel :: r =>
      do r1 <- expect_indent r ;;
      do '(cs, r2) <- gtask_calls f r1 ;;
      do r3 <- expect_dedent r2 ;; FOk (SParallel cs, r3)
    | DTok KLoop :: DTok KWhile :: r =>
      do '(e, r1) <- parse_expr T nl (expr_fuel f) 0 r ;;
      do e' <- top e ;;
      do '(body, r2) <- gblock f r1 ;; FOk (SWhile e' body, r2)
    | DTok KLoop :: r => gcounting f false r
    | DTok KCondition :: r =>
      do r1 <- expect_indent r ;;
      do '(e, r2) <- parse_expr T nl (expr_fuel f) 0 r1 ;;
      do e' <- top e ;;
      do r3 <- nl_plus r2 ;;
      do r4 <- expect_dedent r3 ;;
      match r4 with
      | DTok KPassed :: r5 =>
        do '(passed, r6) <- gblock f r5 ;;
        match r6 with
        | DTok KFailed :: r7 =>
          do '(failed, r8) <- gblock f r7 ;; FOk (SCond e' passed failed, r8)
        | _ => FOk (SCond e' passed [], r6)
        end
      | _ => FSyntax
      end
    | _ => FSyntax
    end.
  Proof. reflexivity. Qed.

  Lemma gparse_counting_S : forall f par ts,
    gcounting (S f) par ts =
    match ts with
    | DTok (TLower v) :: DTok KTo :: DTok (TInt n) :: r =>
      do '(body, r1) <- gblock f r ;; FOk (SCount par v (LimInt n) body, r1)
    | DTok (TLower v) :: DTok KTo :: DTok (TLower x) :: r =>
      do '(p, r1) <- parse_path_rest f r ;;
      do '(body, r2) <- gblock f r1 ;; FOk (SCount par v (LimPath x p) body, r2)
    | _ => FSyntax
    end.
  Proof. reflexivity. Qed.

  Lemma gparse_block_S : forall f ts,
    gblock (S f) ts =
    (do r <- expect_indent ts ;;
     do '(ss, r1) <- gstmts f r ;;
     do r2 <- expect_dedent r1 ;; FOk (ss, r2)).
  Proof. reflexivity. Qed.

  Lemma gparse_stmts_S : forall f ts,
    gstmts (S f) ts =
    (do '(s, r) <- gstmt f ts ;;
     if starts_stmt r then
       do '(ss, r1) <- gstmts f r ;; FOk (s :: ss, r1)
     else FOk ([s], r)).
  Proof. reflexivity. Qed.

  Ltac note_skips :=
    repeat match goal with
           | |- context [skip_nls ?x] =>
             lazymatch goal with
             | _ : List.length (skip_nls x) <= _ |- _ => fail
             | _ => pose proof (skip_nls_le x)
             end
           | _ : context [skip_nls ?x] |- _ =>
             lazymatch goal with
             | _ : List.length (skip_nls x) <= _ |- _ => fail
             | _ => pose proof (skip_nls_le x)
             end
           end.

  Ltac gd_triv_skips :=
    split; [exact I | intros; try discriminate;
            match goal with He : FOk _ = FOk _ |- _ => inversion He; subst; clear He end;
            note_skips; simpl in *; lia].

  Ltac use_gd3 :=
    first
    [ use_gd
    | apply gd_json_object; note_skips; simpl in *; lia
    | apply gd_parse_expr; unfold expr_fuel; simpl in *; lia ].

  Ltac gd_step3 :=
    first [ gd_step2 use_gd3
          | match goal with |- gd _ _ (FOk _) => gd_triv_skips end
          | match goal with
            | |- gd _ _ (fbind (top _) _) => eapply gd_bind_plain; [apply top_nofuel|]; intros ?; simpl
            end ].

  Lemma gd_param : forall f ts,
    2 * List.length ts <= f -> gd (List.length ts) 2 (gparam f ts).
  Proof.
    intros f ts Hf. unfold gparse_param. repeat gd_step3.
  Qed.

  Lemma gd_params : forall f ts,
    2 * List.length ts + 1 <= f -> gd (List.length ts) 2 (gparams f ts).
  Proof.
    induction f; intros ts Hf; [lia|]. simpl.
    eapply gd_bind; [apply gd_param; lia|]. intros p r Hr; simpl.
    destruct (starts_param r).
    - eapply gd_bind; [apply IHf; lia|]. intros ps r1 Hr1; simpl. gd_triv.
    - gd_triv.
  Qed.

  Lemma gd_call_body : forall f ts,
    2 * List.length ts <= f -> gd (List.length ts) 0 (gcall_body f ts).
  Proof.
    intros f ts Hf. unfold gparse_call_body.
    eapply gd_bind with (n1 := List.length ts) (k1 := 0).
    - pose proof gd_params. repeat gd_step3.
    - intros ins r Hr; simpl.
      eapply gd_bind with (n1 := List.length r) (k1 := 0).
      + repeat gd_step3.
      + intros outs r' Hr'; simpl. gd_triv.
  Qed.

  Lemma gd_call_rest : forall f ts,
    2 * List.length ts <= f -> gd (List.length ts) 1 (gcall_rest f ts).
  Proof.
    intros f ts Hf. unfold gparse_call_rest. pose proof gd_call_body.
    destruct ts as [|[t| | | |] ts]; try gd_syntax; repeat gd_step3.
  Qed.

  Lemma gd_task_calls : forall f ts,
    2 * List.length ts + 1 <= f -> gd (List.length ts) 2 (gtask_calls f ts).
  Proof.
    induction f; intros ts Hf; [lia|]. simpl. pose proof gd_call_rest.
    destruct ts as [|[t| | | |] ts]; try gd_syntax. destruct t; try gd_syntax.
    repeat gd_step3.
  Qed.

  Lemma gd_stmt_all : forall f,
    (forall ts, 2 * List.length ts + 1 <= f -> gd (List.length ts) 1 (gstmt f ts)) /\
    (forall par ts, 2 * List.length ts + 1 <= f -> gd (List.length ts) 1 (gcounting f par ts)) /\
    (forall ts, 2 * List.length ts + 1 <= f -> gd (List.length ts) 1 (gblock f ts)) /\
    (forall ts, 2 * List.length ts + 2 <= f -> gd (List.length ts) 1 (gstmts f ts)).
  Proof.
    induction f as [|f [IHs [IHc [IHb IHss]]]].
    - repeat split; intros; lia.
    - pose proof gd_call_rest as Hcr. pose proof gd_task_calls as Htc.
      repeat apply conj; intros.
      + rewrite gparse_stmt_S. repeat gd_step3.
      + rewrite gparse_counting_S. repeat gd_step3.
      + rewrite gparse_block_S. repeat gd_step3.
      + rewrite gparse_stmts_S. repeat gd_step3.
  Qed.

  Lemma gd_stmts : forall f ts,
    2 * List.length ts + 2 <= f -> gd (List.length ts) 1 (gstmts f ts).
  Proof. intros f. apply (gd_stmt_all f). Qed.

  Lemma gd_names : forall f ts,
    2 * List.length ts + 1 <= f -> gd (List.length ts) 2 (parse_names f ts).
  Proof.
    induction f; intros ts Hf; [lia|]. simpl.
    destruct ts as [|[t| | | |] ts]; try gd_syntax. destruct t; try gd_syntax.
    repeat gd_step3.
  Qed.

  Lemma gd_task_in : forall f ts,
    2 * List.length ts <= f -> gd (List.length ts) 0 (parse_task_in f ts).
  Proof. intros f ts Hf. unfold parse_task_in. repeat gd_step3. Qed.

  Lemma gd_task_out : forall f ts,
    2 * List.length ts <= f -> gd (List.length ts) 0 (parse_task_out f ts).
  Proof. intros f ts Hf. unfold parse_task_out. pose proof gd_names. repeat gd_step3. Qed.

  Lemma gd_struct : forall f ts,
    2 * List.length ts <= f -> gd (List.length ts) 1 (parse_struct f ts).
  Proof. intros f ts Hf. unfold parse_struct. repeat gd_step3. Qed.

  Lemma gd_task : forall f ts,
    2 * List.length ts <= f -> gd (List.length ts) 1 (gtask f ts).
  Proof.
    intros f ts Hf. unfold gparse_task.
    pose proof gd_task_in. pose proof gd_task_out. pose proof gd_stmts.
    repeat gd_step3.
  Qed.

  Lemma gparse_program_nofuel : forall f ts,
    2 * List.length ts + 1 <= f -> nf (gprogram f ts).
  Proof.
    induction f; intros ts Hf; [lia|]. simpl.
    destruct ts as [|d ts]; [exact I|].
    assert (Hrec : forall r, List.length r <= List.length ts -> nf (gprogram f r)).
    { intros r Hr. apply IHf. simpl in Hf. lia. }
    assert (Hs : nf (do x <- parse_struct f (d :: ts) ;;
                     let (s, r) := x in
                     do p <- gprogram f r ;;
                     FOk {| p_structs := s :: p_structs p; p_tasks := p_tasks p |})).
    { eapply nf_bind_gd; [apply gd_struct; simpl in *; lia|]. intros s r Hr; simpl.
      apply nf_bind_plain; [apply Hrec; simpl in Hr; lia | intros; exact I]. }
    assert (Ht : nf (do x <- gtask f (d :: ts) ;;
                     let (t, r) := x in
                     do p <- gprogram f r ;;
                     FOk {| p_structs := p_structs p; p_tasks := t :: p_tasks p |})).
    { eapply nf_bind_gd; [apply gd_task; simpl in *; lia|]. intros s r Hr; simpl.
      apply nf_bind_plain; [apply Hrec; simpl in Hr; lia | intros; exact I]. }
    destruct d as [t| | | |]; try exact I.
    - destruct t; try exact I; assumption.
    - apply Hrec. lia.
    - destruct ts; exact I.
  Qed.
End GenericFuel.

(* ---- the parser of the text pipeline, with the fuel of FrontEnd.fuel_for ---- *)
(* it parses or reports a syntax error: never FFuel, FVisitor, FUnsupported *)
Theorem parse_text_tokens_nf : forall ts, nf (parse_text_tokens ts).
Proof.
  intros ts. unfold parse_text_tokens. apply gparse_program_nofuel.
  - intros e. exact I.
  - unfold fuel_for. lia.
Qed.

Theorem parse_text_nf : forall intern cs, nf (parse_text intern cs).
Proof.
  intros intern cs. unfold parse_text. destruct (lex intern cs); [apply parse_text_tokens_nf | exact I].
Qed.

